#!/venv/bin/python
"""Entry point: run.py check <ID> [--tier quick|thorough] | replay <path> | list"""
import argparse
import importlib
import json
import os
import sys

if os.environ.get("PYTHONHASHSEED") != "0":
    os.environ["PYTHONHASHSEED"] = "0"
    os.execv(sys.executable, [sys.executable] + sys.argv)

VERIF = os.path.dirname(os.path.abspath(__file__))
REPO = os.environ.get("VERIF_REPO", "/repo")
sys.path.insert(0, VERIF)
sys.path.insert(0, REPO)   # always the current working tree
sys.dont_write_bytecode = True
os.environ.setdefault("TORNADO_VERIF", "1")


def load(pid):
    mod = importlib.import_module("checks." + pid.lower())
    return mod.CHECK


def main():
    ap = argparse.ArgumentParser()
    sub = ap.add_subparsers(dest="cmd", required=True)
    c = sub.add_parser("check")
    c.add_argument("id")
    c.add_argument("--tier", default=os.environ.get("VERIF_TIER", "quick"),
                   choices=["quick", "thorough"])
    c.add_argument("--jobs", type=int, default=0)
    r = sub.add_parser("replay")
    r.add_argument("path")
    sub.add_parser("list")
    a = ap.parse_args()
    import tornado
    assert os.path.realpath(os.path.dirname(tornado.__file__)) == os.path.realpath(
        os.path.join(REPO, "tornado")), "tornado not imported from " + REPO
    from mc import core
    if a.cmd == "check":
        seed = int(os.environ.get("VERIF_SEED", "0") or 0)
        rc = core.run_check(load(a.id.upper()), a.tier, seed, a.jobs or None)
        sys.exit(rc)
    if a.cmd == "replay":
        with open(a.path) as f:
            rec = json.load(f)
        chk = load(rec["property"])
        print("replaying", rec["property"], rec["signature"])
        out = chk.replay(core.unjson(rec["case"]))
        print(out)
        sys.exit(0)
    if a.cmd == "list":
        for fn in sorted(os.listdir(os.path.join(VERIF, "checks"))):
            if fn.startswith("c") and fn.endswith(".py"):
                print(fn[:-3].upper())


if __name__ == "__main__":
    main()
