#!/venv/bin/python
"""setup_cmd: nothing to build (pure Python); verify the interpreter sees the
working tree and that the tools the checks need are present."""
import os
import shutil
import sys

sys.path.insert(0, "/repo")
import tornado  # noqa: E402

assert os.path.realpath(os.path.dirname(tornado.__file__)) == os.path.realpath("/repo/tornado"), tornado.__file__
for tool in ("gcc",):
    assert shutil.which(tool), tool + " missing"
os.makedirs(os.path.join(os.path.dirname(os.path.dirname(os.path.abspath(__file__))), "evidence"), exist_ok=True)
print("setup ok: tornado", tornado.version, "from", tornado.__file__)
