#!/usr/bin/env python3
"""Evaluate one seeded property-breaking change.

usage: tools/seedtest.py <dir with patch.diff, demo.py, meta.json> [--checks C01,C02] [--no-suite] [--tier quick]

Steps (all in a scratch worktree outside /repo and /verif, removed afterwards):
 1. demo.py on the clean tree must exit 0
 2. apply patch.diff; demo.py must now exit non-zero
 3. the existing test suite (tornado/test) must still pass with the patch
 4. the registered check(s) of the property are run against the patched tree (VERIF_REPO);
    exit code 1 + a VIOLATION line = detected
Writes <dir>/verify.json and prints a one-line verdict."""
import argparse
import json
import os
import shutil
import subprocess
import sys
import tempfile
import time

PY = "/venv/bin/python"
VERIF = os.path.dirname(os.path.dirname(os.path.abspath(__file__)))


def sh(cmd, cwd=None, env=None, timeout=3600):
    p = subprocess.run(cmd, shell=True, cwd=cwd, env=env, stdout=subprocess.PIPE, stderr=subprocess.STDOUT,
                       timeout=timeout, text=True, errors="replace")
    return p.returncode, p.stdout


def main():
    ap = argparse.ArgumentParser()
    ap.add_argument("dir")
    ap.add_argument("--checks", default="")
    ap.add_argument("--no-suite", action="store_true")
    ap.add_argument("--tier", default="quick")
    a = ap.parse_args()
    d = os.path.abspath(a.dir)
    meta = json.load(open(os.path.join(d, "meta.json")))
    prop = meta["property"]
    checks = [c for c in a.checks.split(",") if c] or [prop]
    wt = tempfile.mkdtemp(prefix="sv-%s-" % os.path.basename(d), dir="/tmp")
    os.rmdir(wt)
    res = {"property": prop, "dir": d, "checks": {}}
    try:
        rc, out = sh("git -C /repo worktree add --detach %s HEAD" % wt)
        assert rc == 0, out
        demo = os.path.join(d, "demo.py")
        native = "speedups.c" in open(os.path.join(d, "patch.diff")).read()
        if native:      # the compiled extension is a build artefact: build it in the scratch tree
            sh("%s setup.py build_ext --inplace" % PY, cwd=wt, timeout=600)
        t0 = time.time()
        rc0, out0 = sh("%s %s" % (PY, demo), cwd=wt, timeout=300)
        res["demo_clean_rc"] = rc0
        rc, out = sh("git apply --whitespace=nowarn %s" % os.path.join(d, "patch.diff"), cwd=wt)
        res["patch_applies"] = rc == 0
        if rc != 0:
            res["patch_error"] = out[-500:]
        else:
            if native:
                sh("%s setup.py build_ext --inplace" % PY, cwd=wt, timeout=600)
            rc1, out1 = sh("%s %s" % (PY, demo), cwd=wt, timeout=300)
            res["demo_patched_rc"] = rc1
            res["demo_patched_tail"] = out1[-300:]
            if not a.no_suite:
                rc2, out2 = sh("%s -m pytest -q -rf -p no:cacheprovider --timeout=900 tornado/test 2>&1 | tail -25" % PY, cwd=wt, timeout=3000)
                lines = out2.strip().splitlines()
                res["suite_tail"] = lines[-1] if lines else ""
                failed = [l.split()[1] for l in lines if l.startswith("FAILED ")]
                still = []
                for tid in failed:        # timing-based tests flake under load: re-run failures alone
                    rcx, outx = sh("%s -m pytest -q -p no:cacheprovider --timeout=900 '%s' 2>&1 | tail -2" % (PY, tid), cwd=wt, timeout=900)
                    if " passed" not in outx or " failed" in outx:
                        still.append(tid)
                # subprocess/alarm/timing based tests that fail on the *unmodified* tree too when the machine is
                # loaded (several seeding agents run suites in parallel): not attributable to the change
                env_sensitive = ("autoreload_test", "process_test.py::ProcessTest::test_multi_process", "_performance")
                res["suite_env_sensitive_failures"] = [t for t in still if any(e in t for e in env_sensitive)]
                still = [t for t in still if not any(e in t for e in env_sensitive)]
                res["suite_failed_first_run"] = failed
                res["suite_failed_after_rerun"] = still
                res["suite_pass"] = "passed" in res["suite_tail"] and not still
            env = dict(os.environ, VERIF_REPO=wt)
            for c in checks:
                t1 = time.time()
                rc3, out3 = sh("%s %s/run.py check %s --tier %s" % (PY, VERIF, c, a.tier), cwd=VERIF, env=env, timeout=3600)
                vio = [l[:300] for l in out3.splitlines() if l.startswith("VIOLATION")]
                res["checks"][c] = {"rc": rc3, "violations": vio[:6], "n_violation_lines": len(vio),
                                    "summary": out3.strip().splitlines()[-1][:250] if out3.strip() else "", "wall_s": round(time.time() - t1, 1)}
    finally:
        sh("git -C /repo worktree remove --force %s" % wt)
        shutil.rmtree(wt, ignore_errors=True)
        sh("git -C /repo worktree prune")
    detected = any(v["rc"] == 1 and v["n_violation_lines"] > 0 for v in res["checks"].values())
    valid = res.get("demo_clean_rc") == 0 and res.get("patch_applies") and res.get("demo_patched_rc", 0) != 0 and res.get("suite_pass", True)
    res["valid_seed"] = bool(valid)
    res["detected"] = bool(detected)
    json.dump(res, open(os.path.join(d, "verify.json"), "w"), indent=1)
    print("%s valid=%s detected=%s demo(clean/patched)=%s/%s suite=%r checks=%s" % (
        os.path.basename(d), res["valid_seed"], res["detected"], res.get("demo_clean_rc"), res.get("demo_patched_rc"),
        res.get("suite_tail", "skipped")[:60], {c: (v["rc"], v["n_violation_lines"]) for c, v in res["checks"].items()}))


if __name__ == "__main__":
    main()
