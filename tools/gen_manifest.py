#!/venv/bin/python
"""Regenerate MANIFEST.json from the check modules present under checks/."""
import importlib
import json
import os
import sys

VERIF = os.path.dirname(os.path.dirname(os.path.abspath(__file__)))
sys.path.insert(0, VERIF)
sys.path.insert(0, "/repo")
sys.dont_write_bytecode = True

PY = "/venv/bin/python"

NA_REASONS = {
}

ENGINES = [
    {"name": "VirtualLoop+FakeSocket", "path": "mc/vloop.py",
     "kind_free_text": "asyncio BaseEventLoop subclass without selector; virtual clock; fake sockets "
                       "with level-triggered readiness handed to the real IOStream"},
    {"name": "DevEx/HistBFS", "path": "mc/devex.py",
     "kind_free_text": "stateless deviation-bounded explorer (CHESS style) over harness choice points; "
                       "explicit-state BFS over operation histories replayed on fresh real objects"},
    {"name": "Enum", "path": "mc/enum.py",
     "kind_free_text": "deterministic small-scope generators (strings, cuts, edits, compositions)"},
    {"name": "core", "path": "mc/core.py",
     "kind_free_text": "partition runner (16 workers), statistics, evidence writer, known-finding matcher"},
]


READY = set(open(os.path.join(VERIF, "tools", "ready.txt")).read().split())


def main():
    props = [json.loads(l) for l in open(os.path.join(VERIF, "properties.jsonl"))]
    checks = []
    na = []
    served = {}
    for p in props:
        pid = p["id"]
        path = os.path.join(VERIF, "checks", pid.lower() + ".py")
        if pid not in READY or not os.path.exists(path):
            na.append({"property_id": pid,
                       "reason": NA_REASONS.get(pid, "check not built yet (work in progress; see DESIGN.md §2 %s for the planned design)" % pid)})
            continue
        c = importlib.import_module("checks." + pid.lower()).CHECK
        entry = {
            "property_id": pid,
            "quick_cmd": "%s run.py check %s --tier quick" % (PY, pid),
            "thorough_cmd": "%s run.py check %s --tier thorough" % (PY, pid),
            "evidence_file": "evidence/%s.json" % pid,
            "replay_cmd_template": "%s run.py replay {path}" % PY,
            "engine": getattr(c, "engine", "DevEx/HistBFS"),
            "level_claimed": {
                "category": c.level,
                "text": getattr(c, "claim", c.rule),
                "design_ref": c.design_ref or ("DESIGN.md §2 " + pid),
            },
            "level_note": getattr(c, "level_note", "; ".join(c.assumptions) or
                                  "bounds as stated in the evidence file; fakes replace the kernel"),
            "technique": getattr(c, "technique", "bounded exhaustive enumeration on the real code"),
        }
        checks.append(entry)
        served.setdefault(entry["engine"], []).append(pid)
    engines = []
    for e in ENGINES:
        e = dict(e)
        e["serves_properties"] = sorted(served.get(e["name"], []))
        engines.append(e)
    man = {
        "version": 1,
        "setup_cmd": "%s tools/setup.py" % PY,
        "hooks": {
            "guard": "TORNADO_VERIF",
            "enable": "no source hooks exist: the checks import /repo's working tree directly "
                      "(run.py puts /repo first on sys.path) and install their seams from outside",
            "baseline_off_cmd": "cd /repo && env -u TORNADO_VERIF /venv/bin/python -m pytest -ra -q "
                                "-p no:cacheprovider --timeout=900 --continue-on-collection-errors",
            "source_commits": [],
            "add_only": True,
        },
        "engines": engines,
        "checks": checks,
        "not_applicable": na,
        "notes": "All checks are bounded exhaustive enumerations executed on the real Tornado code "
                 "(see DESIGN.md). Genuine defects found and repaired are listed under 'fixed' in "
                 "known_findings.json; unrepaired ones under 'findings'.",
    }
    with open(os.path.join(VERIF, "MANIFEST.json"), "w") as f:
        json.dump(man, f, indent=1)
    print("checks=%d not_applicable=%d" % (len(checks), len(na)))


if __name__ == "__main__":
    main()
