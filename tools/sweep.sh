#!/bin/bash
# usage: tools/sweep.sh <tier> [seed]  -- runs every check of tools/ready.txt, prints the summary line and exit code
tier=${1:-quick}; seed=${2:-0}
for c in $(cat "$(dirname "$0")/ready.txt"); do
  start=$(date +%s)
  out=$(VERIF_SEED=$seed timeout 3600 /venv/bin/python "$(dirname "$0")/../run.py" check $c --tier $tier 2>&1); rc=$?
  echo "$out" | grep -E "^(VIOLATION|ERROR)" | cut -c1-300
  echo "rc=$rc $(echo "$out" | tail -1 | cut -c1-200)"
done
