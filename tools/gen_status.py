#!/usr/bin/env python3
"""Regenerate the '## 12. As built' table inside DESIGN.md from MANIFEST.json, evidence/*.json and known_findings.json."""
import json, os, re
V = os.path.dirname(os.path.dirname(os.path.abspath(__file__)))
man = json.load(open(V + "/MANIFEST.json"))
kf = json.load(open(V + "/known_findings.json"))
rows = []
for c in man["checks"]:
    pid = c["property_id"]
    ev = json.load(open(V + "/" + c["evidence_file"]))
    cov = ev["coverage"]
    fixed = sum(1 for f in kf["fixed"] if "property=%s " % pid in f)
    known = sum(1 for f in kf["findings"] if f["property"] == pid)
    rows.append("| %s | %s | %s | %s | %s | %s | %.0f s | %d | %d |" % (
        pid, ev["level"], ev["tier"], cov.get("evaluations"), cov.get("states", "-"), cov.get("distinct_nontrivial"),
        ev["wall_s"], fixed, known))
block = ["<!-- BEGIN AS-BUILT TABLE (tools/gen_status.py) -->",
         "| id | level | tier of last run | executions | states | non-trivial | wall | defects fixed | known findings |",
         "|---|---|---|---|---|---|---|---|---|"] + rows + ["<!-- END AS-BUILT TABLE -->"]
p = V + "/DESIGN.md"
s = open(p).read()
new = "\n".join(block)
if "<!-- BEGIN AS-BUILT TABLE" in s:
    s = re.sub(r"<!-- BEGIN AS-BUILT TABLE.*?<!-- END AS-BUILT TABLE -->", lambda m: new, s, flags=re.S)
else:
    s += "\n" + new + "\n"
open(p, "w").write(s)
print("rows", len(rows))
