#!/usr/bin/env python3
"""Copy a verified seeded change from a scratch dir into /verif/seeded/<id>/ (patch.diff, demo.py, meta.json)."""
import json, os, shutil, sys
V = os.path.dirname(os.path.dirname(os.path.abspath(__file__)))
for d in sys.argv[1:]:
    d = os.path.abspath(d)
    sid = os.path.basename(d)
    ver = json.load(open(os.path.join(d, "verify.json")))
    meta = json.load(open(os.path.join(d, "meta.json")))
    out = os.path.join(V, "seeded", sid)
    os.makedirs(out, exist_ok=True)
    shutil.copy(os.path.join(d, "patch.diff"), out)
    shutil.copy(os.path.join(d, "demo.py"), out)
    meta["verified_by_main_session"] = {
        "demo_exit_clean_tree": ver.get("demo_clean_rc"), "demo_exit_with_change": ver.get("demo_patched_rc"),
        "test_suite_with_change": ver.get("suite_tail"), "test_suite_pass": ver.get("suite_pass"),
        "env_sensitive_failures_ignored": ver.get("suite_env_sensitive_failures", []),
        "commands": ["git worktree add --detach <scratch> HEAD; cd <scratch>; python demo.py (expect 0)",
                     "git apply patch.diff; python demo.py (expect != 0)",
                     "python -m pytest -q -p no:cacheprovider tornado/test (expect pass)",
                     "VERIF_REPO=<scratch> python /verif/run.py check <property> --tier quick (expect exit 1 + VIOLATION)"],
        "checks": {c: {"exit": v["rc"], "violation_lines": v["n_violation_lines"], "first": (v["violations"] or [""])[0][:200]}
                   for c, v in ver.get("checks", {}).items()},
        "detected": ver.get("detected"), "valid_seed": ver.get("valid_seed"),
    }
    json.dump(meta, open(os.path.join(out, "meta.json"), "w"), indent=1)
    print(sid, "kept; detected=%s valid=%s" % (ver.get("detected"), ver.get("valid_seed")))
