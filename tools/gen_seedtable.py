#!/usr/bin/env python3
"""Regenerate the 'seeded changes vs checks' table of DESIGN.md (between the SEEDTABLE markers)
from /verif/seeded/<id>/meta.json and /verif/seeded/notes.json (id -> remark, e.g. what was strengthened)."""
import json
import os
import re

V = os.path.dirname(os.path.dirname(os.path.abspath(__file__)))
S = os.path.join(V, "seeded")
notes = {}
if os.path.exists(os.path.join(S, "notes.json")):
    notes = json.load(open(os.path.join(S, "notes.json")))


def one_line(x, n):
    x = re.sub(r"\s+", " ", str(x)).replace("|", "/").strip()
    return x if len(x) <= n else x[:n - 1] + "…"


rows = []
ndet = nval = 0
for sid in sorted(d for d in os.listdir(S) if os.path.isdir(os.path.join(S, d))):
    m = json.load(open(os.path.join(S, sid, "meta.json")))
    v = m.get("verified_by_main_session", {})
    files = sorted(set(re.findall(r"^\+\+\+ b/(\S+)", open(os.path.join(S, sid, "patch.diff")).read(), re.M)))
    det = []
    for c, r in v.get("checks", {}).items():
        sig = re.search(r"sig=(\S+)", r.get("first", ""))
        det.append("%s exit %s%s" % (c, r.get("exit"), (" `" + one_line(sig.group(1), 60) + "`") if sig else ""))
    nval += bool(v.get("valid_seed"))
    ndet += bool(v.get("detected"))
    rows.append("| %s | %s | %s | %s | %s | %s |" % (
        sid, ", ".join(f.replace("tornado/", "") for f in files), one_line(m.get("needs_to_manifest", ""), 170),
        "yes" if v.get("detected") else "**no**", "; ".join(det), one_line(notes.get(sid, ""), 200)))
table = ["| seed | file(s) | needs, to manifest | detected (quick) | check result | remark |",
         "|---|---|---|---|---|---|"] + rows
text = "\n".join(table) + "\n\n%d seeded changes kept, %d valid (demo + suite confirmed), %d detected by the quick tier.\n" % (len(rows), nval, ndet)
p = os.path.join(V, "DESIGN.md")
s = open(p).read()
b, e = "<!-- SEEDTABLE:BEGIN -->", "<!-- SEEDTABLE:END -->"
assert b in s and e in s, "markers missing in DESIGN.md"
s = s[:s.index(b) + len(b)] + "\n" + text + s[s.index(e):]
open(p, "w").write(s)
print("table rows:", len(rows), "valid:", nval, "detected:", ndet)
