#!/usr/bin/env python3
"""Validate MANIFEST.json and every evidence file against the schemas (run with python3-vt)."""
import glob, json, sys
import jsonschema
ms = json.load(open('/root/.vp/MANIFEST.schema.json'))
es = json.load(open('/root/.vp/EVIDENCE.schema.json'))
man = json.load(open('/verif/MANIFEST.json'))
jsonschema.validate(man, ms)
bad = 0
for c in man['checks']:
    f = '/verif/' + c['evidence_file']
    try:
        ev = json.load(open(f))
        jsonschema.validate(ev, es)
        assert ev['level'] == c['level_claimed']['category'], (ev['level'], c['level_claimed']['category'])
        assert ev['property_id'] == c['property_id']
    except Exception as e:
        bad += 1
        print("BAD", f, str(e)[:200])
print("manifest ok; %d checks; %d bad evidence" % (len(man['checks']), bad))
sys.exit(1 if bad else 0)
