import ast, sys
src = open(sys.argv[1]).read()
tree = ast.parse(src)
names = sys.argv[2:]
class Strip(ast.NodeTransformer):
    def visit(self, node):
        self.generic_visit(node)
        if isinstance(node, (ast.FunctionDef, ast.AsyncFunctionDef, ast.ClassDef, ast.Module)):
            if node.body and isinstance(node.body[0], ast.Expr) and isinstance(getattr(node.body[0], 'value', None), ast.Constant) and isinstance(node.body[0].value.value, str):
                node.body = node.body[1:] or [ast.Pass()]
        return node
tree = Strip().visit(tree)
for node in ast.walk(tree):
    if isinstance(node, (ast.ClassDef, ast.FunctionDef, ast.AsyncFunctionDef)) and (not names or node.name in names):
        if names:
            print(ast.unparse(node)); print()
if not names:
    print(ast.unparse(tree))
