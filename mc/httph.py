"""In-memory HTTP server harness (real HTTPServer / Application on a
FakeSocket over VirtualLoop) and a strict HTTP/1.1 *client-side* response
reader written from RFC 9112 (never imports Tornado's parser)."""
import re

from mc.vloop import World

TOKEN = re.compile(rb"^[!#$%&'*+\-.^_`|~0-9A-Za-z]+$")
STATUS_LINE = re.compile(rb"^HTTP/1\.([01]) ([0-9]{3}) ([\t \x21-\x7e\x80-\xff]*)$")
FIELD_VALUE = re.compile(rb"^[\t \x21-\x7e\x80-\xff]*$")


class Resp:
    __slots__ = ("version", "code", "reason", "headers", "body", "framing", "interim", "raw_head")

    def __init__(self):
        self.headers = []      # list of (name_bytes, value_bytes) in wire order
        self.body = b""
        self.framing = None
        self.interim = []
        self.raw_head = b""

    def get(self, name, default=None):
        name = name.lower().encode() if isinstance(name, str) else name.lower()
        vals = [v for n, v in self.headers if n.lower() == name]
        return vals[-1] if vals else default

    def get_all(self, name):
        name = name.lower().encode() if isinstance(name, str) else name.lower()
        return [v for n, v in self.headers if n.lower() == name]

    def summary(self):
        return (self.code, self.reason, tuple(self.headers), self.body, self.framing)


def read_responses(data, methods, closed):
    """Strictly delimit the responses to `methods` (list of request methods,
    in order) in `data`.  Returns (responses, problems).  A problem is a
    string; an empty problem list means: exactly len(responses) well-framed
    responses, every byte consumed."""
    problems = []
    out = []
    pos = 0
    n = len(data)
    for method in methods:
        interim = []
        while True:
            r = Resp()
            end = data.find(b"\r\n\r\n", pos)
            if end < 0:
                if pos < n:
                    problems.append("incomplete header block at %d: %r" % (pos, data[pos:pos + 40]))
                else:
                    problems.append("missing response for %s" % method)
                return out, problems
            head = data[pos:end]
            r.raw_head = head
            pos = end + 4
            lines = head.split(b"\r\n")
            m = STATUS_LINE.match(lines[0])
            if not m:
                problems.append("bad status line %r" % lines[0][:60])
                return out, problems
            r.version = b"1." + m.group(1)
            r.code = int(m.group(2))
            r.reason = m.group(3)
            for ln in lines[1:]:
                if b"\n" in ln or b"\r" in ln or b"\x00" in ln:
                    problems.append("bare CR/LF/NUL inside header line %r" % ln[:60])
                name, sep, value = ln.partition(b":")
                if not sep or not TOKEN.match(name):
                    problems.append("bad header line %r" % ln[:60])
                    continue
                value = value.strip(b" \t")
                if not FIELD_VALUE.match(value):
                    problems.append("bad header value %r" % ln[:60])
                r.headers.append((name, value))
            if 100 <= r.code < 200 and r.code != 101:
                interim.append(r)
                continue
            break
        r.interim = interim
        te = [v.lower() for v in r.get_all("transfer-encoding")]
        cl = r.get_all("content-length")
        if method == "HEAD" or r.code in (204, 304) or 100 <= r.code < 200:
            r.framing = "none"
            if r.code == 204 or 100 <= r.code < 200:
                if te:
                    problems.append("Transfer-Encoding on %d" % r.code)
                if cl and r.code != 204:
                    problems.append("Content-Length on %d" % r.code)
        elif te:
            if cl:
                problems.append("both Content-Length and Transfer-Encoding")
            if te != [b"chunked"]:
                problems.append("unsupported transfer-encoding %r" % te)
                return out + [r], problems
            r.framing = "chunked"
            body = bytearray()
            while True:
                le = data.find(b"\r\n", pos)
                if le < 0:
                    problems.append("truncated chunk size line")
                    return out + [r], problems
                size_line = data[pos:le]
                if not re.match(rb"^[0-9A-Fa-f]+$", size_line):
                    problems.append("bad chunk size %r" % size_line[:30])
                    return out + [r], problems
                size = int(size_line, 16)
                pos = le + 2
                if size == 0:
                    if data[pos:pos + 2] != b"\r\n":
                        problems.append("bad chunked terminator %r" % data[pos:pos + 10])
                        return out + [r], problems
                    pos += 2
                    break
                if pos + size + 2 > n:
                    problems.append("truncated chunk")
                    return out + [r], problems
                body += data[pos:pos + size]
                if data[pos + size:pos + size + 2] != b"\r\n":
                    problems.append("chunk data not followed by CRLF")
                    return out + [r], problems
                pos += size + 2
            r.body = bytes(body)
        elif cl:
            if len(set(cl)) != 1 or not re.match(rb"^[0-9]+$", cl[0]):
                problems.append("bad Content-Length %r" % cl)
                return out + [r], problems
            length = int(cl[0])
            r.framing = "cl"
            if pos + length > n:
                problems.append("body shorter (%d) than Content-Length %d" % (n - pos, length))
                r.body = data[pos:]
                return out + [r], problems
            r.body = data[pos:pos + length]
            pos += length
        else:
            r.framing = "close"
            r.body = data[pos:]
            pos = n
            if not closed:
                problems.append("body delimited by neither Content-Length nor chunked "
                                "and the connection was not closed")
        out.append(r)
        if r.framing == "close" and method is not methods[-1]:
            # nothing may follow a close-delimited body
            if len(out) < len(methods):
                problems.append("missing response for later request (close-delimited body)")
            return out, problems
    if pos < n:
        problems.append("%d unexpected bytes after the last response: %r" % (n - pos, data[pos:pos + 40]))
    return out, problems


class ServerConn:
    """One server-side connection of a real HTTPServer on a FakeSocket."""

    def __init__(self, world, app, peer=("1.2.3.4", 12345), **server_kwargs):
        from tornado.httpserver import HTTPServer
        from tornado.iostream import IOStream
        self.world = world
        self.sock = world.socket(peer=peer)
        kw = {}
        for k in ("max_buffer_size", "chunk_size"):
            if k in server_kwargs:
                pass
        self.server = HTTPServer(app, **server_kwargs)
        self.stream = IOStream(self.sock,
                               max_buffer_size=server_kwargs.get("max_buffer_size"),
                               read_chunk_size=server_kwargs.get("chunk_size"))
        self.server.handle_stream(self.stream, peer)
        world.pump()

    def send(self, data):
        self.sock.feed(data)
        self.world.pump()

    def send_segments(self, segs):
        for s in segs:
            self.sock.feed(s)
            self.world.pump()

    def eof(self):
        self.sock.feed_eof()
        self.world.pump()

    @property
    def output(self):
        return bytes(self.sock.sent)

    @property
    def closed(self):
        return self.sock.closed


def serve(app, segments, eof=False, timers=False, **server_kwargs):
    """Convenience: run one connection, return (output, closed, world logs)."""
    with World() as w:
        c = ServerConn(w, app, **server_kwargs)
        c.send_segments(segments)
        if eof:
            c.eof()
        if timers:
            w.run_all_timers(50)
        return c.output, c.closed, list(w.logs.records)
