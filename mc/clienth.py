"""Client-side harness: the real SimpleAsyncHTTPClient with its TCP connection
replaced by a real IOStream on a FakeSocket; the harness plays the server."""
import asyncio


class FakeTCP:
    """Stands in for tornado.tcpclient.TCPClient: connect() hands out real
    IOStreams on fake sockets.  mode 'auto' connects at once; 'manual' returns
    a future the harness completes (succeed / fail)."""

    def __init__(self, world, mode="auto"):
        self.world = world
        self.mode = mode
        self.conns = []     # dicts: host, port, sock, stream, fut

    def close(self):
        pass

    def connect(self, host, port, af=None, ssl_options=None, max_buffer_size=None,
                source_ip=None, source_port=None, timeout=None):
        from tornado.iostream import IOStream
        c = {"host": host, "port": port, "ssl": ssl_options is not None, "max_buffer_size": max_buffer_size,
             "sock": None, "stream": None, "fut": asyncio.Future(), "index": len(self.conns)}
        self.conns.append(c)
        if self.mode == "auto":
            self.succeed(c)
        return c["fut"]

    def succeed(self, c):
        from tornado.iostream import IOStream
        sock = self.world.socket(peer=(c["host"], c["port"]))
        stream = IOStream(sock, max_buffer_size=c["max_buffer_size"])
        c["sock"], c["stream"] = sock, stream
        c["fut"].set_result(stream)

    def fail(self, c, exc=None):
        c["fut"].set_exception(exc or OSError(111, "Connection refused"))


def make_client(world, mode="auto", **kwargs):
    from tornado.simple_httpclient import SimpleAsyncHTTPClient
    client = SimpleAsyncHTTPClient(force_instance=True, **kwargs)
    client.tcp_client.close()
    client.tcp_client = FakeTCP(world, mode)
    return client


def response_summary(fut):
    """Summary of a finished fetch(raise_error=False) future."""
    if not fut.done():
        return ("pending",)
    if fut.cancelled():
        return ("cancelled",)
    e = fut.exception()
    if e is not None:
        # fetch(raise_error=False) still raises for errors that are not response codes
        return ("error", type(e).__name__, str(e)[:80])
    r = fut.result()
    if r.error is not None and r.code == 599:
        return ("error", type(r.error).__name__, str(r.error)[:80])
    hdrs = {}
    if r.headers is not None:
        for k, v in r.headers.get_all():
            hdrs.setdefault(k.lower(), []).append(v)
    return ("ok", r.code, r.reason, hdrs, r.body if r.buffer is not None else None, r.effective_url)
