"""VirtualLoop: an asyncio event loop without a selector whose clock, I/O
readiness and timers are decided by the harness.  The real Tornado IOLoop
(AsyncIOMainLoop) sits on top of it unchanged."""
import asyncio
import collections
import errno
import gc
import heapq
import logging
import socket
import time as _time
from asyncio import base_events, events

EPOCH = 1_700_000_000.0
_real_time = _time.time


class Livelock(Exception):
    pass


class VirtualLoop(base_events.BaseEventLoop):
    def __init__(self):
        super().__init__()
        self.vtime = 0.0
        self.readers = {}
        self.writers = {}
        self.signal_handlers = {}
        self.exc_log = []
        self.self_writes = 0
        self.set_exception_handler(lambda loop, ctx: self.exc_log.append(ctx))
        self._clock_resolution = 0.0
        self.handles_run = 0

    def time(self):
        return self.vtime

    def _process_events(self, event_list):
        pass

    def _write_to_self(self):
        self.self_writes += 1

    def add_reader(self, fd, cb, *args):
        self.readers[fd] = (cb, args)

    def remove_reader(self, fd):
        return self.readers.pop(fd, None) is not None

    def add_writer(self, fd, cb, *args):
        self.writers[fd] = (cb, args)

    def remove_writer(self, fd):
        return self.writers.pop(fd, None) is not None

    def add_signal_handler(self, sig, cb, *args):
        self.signal_handlers[sig] = (cb, args)

    def remove_signal_handler(self, sig):
        return self.signal_handlers.pop(sig, None) is not None

    # ---- autonomous mode (run_forever / run_until_complete / IOLoop.run_sync) -----------
    def _run_once(self):
        """One iteration of the real BaseEventLoop.run_forever() loop without a
        selector: when nothing is ready the virtual clock jumps to the earliest
        timer; with nothing ready and no timer the loop would block forever."""
        if not self._ready:
            nt = self.next_timer()
            if nt is None:
                raise Livelock("event loop would block forever: nothing ready and no timer")
            self.advance_to(nt)
        else:
            self.advance_to(self.vtime)
        self.iterations = getattr(self, "iterations", 0) + 1
        if self.iterations > 100000:
            raise Livelock("run_forever never stops")
        ntodo = len(self._ready)
        for _ in range(ntodo):
            hd = self._ready.popleft()
            if not hd._cancelled:
                hd._run()
                self.handles_run += 1

    # ---- explicit stepping ----------------------------------------------
    def drain(self, limit=200000):
        """Run ready handles FIFO until none is left (asyncio order is
        deterministic, so this is not a choice point)."""
        n = 0
        ready = self._ready
        while ready:
            hd = ready.popleft()
            if not hd._cancelled:
                hd._run()
                self.handles_run += 1
            n += 1
            if n > limit:
                raise Livelock("ready queue never drains")
        return n

    def run_one(self):
        """Run exactly one ready handle; returns False if none."""
        while self._ready:
            hd = self._ready.popleft()
            if not hd._cancelled:
                hd._run()
                self.handles_run += 1
                return True
        return False

    def timers(self):
        """Sorted list of pending (when, handle) without cancelled ones."""
        return sorted(((hd._when, i, hd) for i, hd in enumerate(self._scheduled)
                       if not hd._cancelled), key=lambda t: (t[0], t[1]))

    def next_timer(self):
        while self._scheduled and self._scheduled[0]._cancelled:
            hd = heapq.heappop(self._scheduled)
            hd._scheduled = False
        return self._scheduled[0]._when if self._scheduled else None

    def advance_to(self, when):
        """Move the clock to `when` and make every timer due by then ready."""
        if when > self.vtime:
            self.vtime = when
        moved = 0
        while self._scheduled and (self._scheduled[0]._cancelled or
                                   self._scheduled[0]._when <= self.vtime):
            hd = heapq.heappop(self._scheduled)
            hd._scheduled = False
            if not hd._cancelled:
                self._ready.append(hd)
                moved += 1
        return moved

    def fire_next_timer(self):
        when = self.next_timer()
        if when is None:
            return False
        self.advance_to(when)
        return True


class LogCapture(logging.Handler):
    def __init__(self):
        super().__init__(level=logging.DEBUG)
        self.records = []

    def emit(self, record):
        try:
            msg = record.getMessage()
        except Exception as e:  # pragma: no cover
            msg = "<unformattable %r>" % (e,)
        exc = None
        if record.exc_info and record.exc_info[0] is not None:
            exc = record.exc_info[0].__name__
        self.records.append((record.name, record.levelname, msg, exc))


class World:
    """Context manager: fresh VirtualLoop as the running loop, virtual
    time.time, tornado log capture, fake sockets with level-triggered
    readiness."""

    def __init__(self, capture_logs=True):
        self.capture_logs = capture_logs
        self.socks = []

    def __enter__(self):
        from tornado.ioloop import IOLoop
        self.loop = loop = VirtualLoop()
        self._old_time = _time.time
        _time.time = lambda: EPOCH + loop.vtime
        self._old_running = events._get_running_loop()
        events._set_running_loop(loop)
        self.ioloop = IOLoop.current()
        self.logs = LogCapture()
        self._saved = []
        if self.capture_logs:
            for name in ("tornado.access", "tornado.application", "tornado.general"):
                lg = logging.getLogger(name)
                self._saved.append((lg, lg.handlers[:], lg.propagate, lg.level))
                lg.handlers[:] = [self.logs]
                lg.propagate = False
                lg.setLevel(logging.DEBUG)
        return self

    def __exit__(self, *a):
        from tornado.ioloop import IOLoop
        for lg, hs, prop, lvl in self._saved:
            lg.handlers[:] = hs
            lg.propagate = prop
            lg.setLevel(lvl)
        events._set_running_loop(self._old_running)
        _time.time = self._old_time
        IOLoop._ioloop_for_asyncio.pop(self.loop, None)
        # cancel leftovers quietly
        self.loop._ready.clear()
        self.loop._scheduled.clear()
        self.loop.close()
        return False

    # ---- sockets ---------------------------------------------------------
    def socket(self, **kw):
        s = FakeSocket(self, **kw)
        self.socks.append(s)
        return s

    def _io_round(self):
        """Level-triggered readiness: invoke each registered handler whose
        socket has something to report.  Returns True if anything ran."""
        ran = False
        loop = self.loop
        for s in list(self.socks):
            fd = s._fd
            if fd in loop.readers and s.readable():
                cb, args = loop.readers[fd]
                cb(*args)
                ran = True
                loop.drain()
            if fd in loop.writers and s.writable():
                cb, args = loop.writers.get(fd, (None, None))
                if cb is not None:
                    cb(*args)
                    ran = True
                    loop.drain()
        return ran

    def pump(self, horizon=20000):
        """Run to quiescence: ready handles + level-triggered I/O."""
        n = 0
        self.loop.drain()
        while self._io_round():
            n += 1
            if n > horizon:
                raise Livelock("I/O never quiesces")
        return n

    def fire_timer(self):
        """Advance the clock to the earliest timer, run it, pump."""
        if not self.loop.fire_next_timer():
            return False
        self.pump()
        return True

    def run_all_timers(self, max_timers=200, until=None):
        n = 0
        while n < max_timers:
            w = self.loop.next_timer()
            if w is None or (until is not None and w > until):
                break
            self.fire_timer()
            n += 1
        return n

    def advance(self, dt):
        """Advance virtual time by dt firing every timer on the way in order."""
        target = self.loop.vtime + dt
        while True:
            w = self.loop.next_timer()
            if w is None or w > target:
                break
            self.fire_timer()
        self.loop.vtime = max(self.loop.vtime, target)

    def spawn(self, coro):
        t = self.loop.create_task(coro)
        return t

    def error_logs(self, min_level=logging.ERROR):
        return [r for r in self.logs.records
                if logging.getLevelName(r[1]) >= min_level]

    def loop_errors(self):
        gc.collect(1)
        return list(self.loop.exc_log)


def outcome(fut):
    """Non-destructive-enough summary of a future (call on discarded state)."""
    if not fut.done():
        return ("pending",)
    if fut.cancelled():
        return ("cancelled",)
    e = fut.exception()
    if e is not None:
        return ("exc", type(e).__name__, str(e)[:80])
    return ("ok", fut.result())


class FakeSocket:
    """Socket-like object handed to the real tornado.iostream.IOStream."""
    _n = 5000
    family = socket.AF_INET
    type = socket.SOCK_STREAM

    def __init__(self, world=None, family=socket.AF_INET, peer=("1.2.3.4", 12345),
                 connected=True):
        FakeSocket._n += 1
        self._fd = FakeSocket._n
        self.world = world
        self.family = family
        self.peer = peer
        self.inq = collections.deque()     # bytes | 'EOF' | Exception
        self.sent = bytearray()
        self.sent_log = []                 # per send() accepted sizes
        self.recv_log = bytearray()        # every byte the stream pulled out of the socket
        self.send_script = collections.deque()  # int | 'EAGAIN' | Exception
        self.send_hook = None              # fn(sock, n) -> int | 'EAGAIN' | Exception
        self.blocked = False               # after EAGAIN until unblock()
        self.closed = False
        self.connect_state = 0 if connected else None   # None pending, 0 ok, errno
        self.connect_called = None
        self.opts = []
        self.eof_seen = 0
        self.recv_calls = 0
        self.on_send = None                # fn(bytes) observer (FakePipe)

    # --- socket API used by IOStream -------------------------------------
    def fileno(self):
        return self._fd

    def setblocking(self, b):
        pass

    def close(self):
        self.closed = True

    def setsockopt(self, *a):
        self.opts.append(a)

    def getsockopt(self, level, opt):
        if opt == socket.SO_ERROR:
            return self.connect_state or 0
        return 0

    def getpeername(self):
        return self.peer

    def getsockname(self):
        return ("127.0.0.1", 8888)

    def connect(self, addr):
        self.connect_called = addr
        if self.connect_state is None:
            raise BlockingIOError(errno.EINPROGRESS, "in progress")
        if self.connect_state:
            raise OSError(self.connect_state, "connect failed")

    def recv_into(self, buf, n=0):
        self.recv_calls += 1
        if self.closed:
            raise OSError(errno.EBADF, "closed")
        if not self.inq:
            raise BlockingIOError(errno.EAGAIN, "again")
        x = self.inq[0]
        if isinstance(x, Exception):
            self.inq.popleft()
            raise x
        if x == "EOF":
            self.eof_seen += 1
            return 0
        n = n or len(buf)
        k = min(n, len(x))
        buf[:k] = x[:k]
        self.recv_log += x[:k]
        if k == len(x):
            self.inq.popleft()
        else:
            self.inq[0] = x[k:]
        return k

    def send(self, data):
        if self.closed:
            raise OSError(errno.EBADF, "closed")
        n = len(data)
        if self.blocked:
            raise BlockingIOError(errno.EAGAIN, "again")
        if self.send_hook is not None:
            s = self.send_hook(self, n)
        elif self.send_script:
            s = self.send_script.popleft()
        else:
            s = n
        if s == "EAGAIN":
            self.blocked = True
            raise BlockingIOError(errno.EAGAIN, "again")
        if isinstance(s, Exception):
            raise s
        k = min(s, n)
        chunk = bytes(data[:k])      # copy; never keep the memoryview
        self.sent += chunk
        self.sent_log.append(k)
        if self.on_send is not None and chunk:
            self.on_send(chunk)
        return k

    # --- harness side -----------------------------------------------------
    def feed(self, data):
        if data:
            self.inq.append(bytes(data))

    def feed_eof(self):
        self.inq.append("EOF")

    def feed_error(self, exc):
        self.inq.append(exc)

    def unblock(self):
        self.blocked = False

    def readable(self):
        return bool(self.inq) and not self.closed

    def writable(self):
        if self.closed:
            return False
        if self.connect_state is None:
            return False
        return not self.blocked

    def take_sent(self):
        b = bytes(self.sent)
        del self.sent[:]
        return b
