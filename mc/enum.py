"""Deterministic small-scope generators."""
import itertools


def strings(alphabet, maxlen, minlen=0):
    """All sequences over alphabet with minlen <= len <= maxlen, shortest
    first, as tuples."""
    for k in range(minlen, maxlen + 1):
        yield from itertools.product(alphabet, repeat=k)


def joined(alphabet, maxlen, minlen=0, sep=None):
    for t in strings(alphabet, maxlen, minlen):
        if sep is None:
            sep = alphabet[0][:0] if alphabet else ""
        yield sep.join(t)


def cuts(n, m):
    """All segmentations of a length-n stream with at most m cut points:
    yields tuples of cut offsets (0 < c1 < c2 ... < n)."""
    for k in range(0, m + 1):
        yield from itertools.combinations(range(1, n), k)


def segments(data, cutpoints):
    out = []
    prev = 0
    for c in cutpoints:
        out.append(data[prev:c])
        prev = c
    out.append(data[prev:])
    return [s for s in out if s]


def all_segmentations(data, m, bytewise=True):
    for c in cuts(len(data), m):
        yield segments(data, c)
    if bytewise and len(data) > m + 1:
        yield [data[i:i + 1] for i in range(len(data))]


def edits1(seed, alphabet):
    """All single-element replace / insert / delete edits of bytes `seed`
    with bytes from alphabet (iterable of ints)."""
    seen = set()
    n = len(seed)
    for i in range(n):
        d = seed[:i] + seed[i + 1:]
        if d not in seen:
            seen.add(d)
            yield ("del", i, None, d)
    for i in range(n):
        for a in alphabet:
            if seed[i] != a:
                r = seed[:i] + bytes([a]) + seed[i + 1:]
                if r not in seen:
                    seen.add(r)
                    yield ("rep", i, a, r)
    for i in range(n + 1):
        for a in alphabet:
            r = seed[:i] + bytes([a]) + seed[i:]
            if r not in seen:
                seen.add(r)
                yield ("ins", i, a, r)


def edits1_str(seed, alphabet):
    seen = set()
    n = len(seed)
    for i in range(n):
        d = seed[:i] + seed[i + 1:]
        if d not in seen:
            seen.add(d)
            yield d
    for i in range(n):
        for a in alphabet:
            if seed[i] != a:
                r = seed[:i] + a + seed[i + 1:]
                if r not in seen:
                    seen.add(r)
                    yield r
    for i in range(n + 1):
        for a in alphabet:
            r = seed[:i] + a + seed[i:]
            if r not in seen:
                seen.add(r)
                yield r


def chunked(seq, nparts):
    """Split a list deterministically into nparts interleaved slices."""
    seq = list(seq)
    return [seq[i::nparts] for i in range(nparts) if seq[i::nparts]]


def compositions(total, maxparts):
    """All ways to write total as an ordered sum of 1..maxparts positive ints."""
    if total == 0:
        yield ()
        return
    def rec(rem, parts):
        if rem == 0:
            yield tuple(parts)
            return
        if len(parts) == maxparts:
            return
        for k in range(1, rem + 1):
            if len(parts) == maxparts - 1 and k != rem:
                continue
            yield from rec(rem - k, parts + [k])
    yield from rec(total, [])
