"""WebSocket harness: an independent RFC 6455 / RFC 7692 codec (ref_ws) and two
session drivers in which the harness is the raw peer of
 - the real server side (WebSocketHandler behind HTTPServer on a FakeSocket), or
 - the real client side (websocket_connect with its TCP connection replaced by
   a real IOStream on a FakeSocket).
Nothing here imports Tornado's frame code."""
import base64
import hashlib
import os
import struct
import zlib

GUID = b"258EAFA5-E914-47DA-95CA-C5AB0DC85B11"
KEY = b"dGhlIHNhbXBsZSBub25jZQ=="


def accept_value(key):
    return base64.b64encode(hashlib.sha1(key + GUID).digest())


def xor_mask(mask, data):
    if not data:
        return b""
    m = (mask * (len(data) // 4 + 1))[:len(data)]
    return (int.from_bytes(data, "big") ^ int.from_bytes(m, "big")).to_bytes(len(data), "big")


def build_frame(fin, opcode, payload, rsv=0, mask=None, length_form=None):
    """rsv: bits 0x40 (RSV1) 0x20 (RSV2) 0x10 (RSV3).  length_form forces 7/16/64-bit length encoding."""
    b0 = (0x80 if fin else 0) | rsv | opcode
    n = len(payload)
    mbit = 0x80 if mask is not None else 0
    form = length_form or (7 if n < 126 else 16 if n <= 0xFFFF else 64)
    if form == 7:
        head = struct.pack("BB", b0, mbit | n)
    elif form == 16:
        head = struct.pack("!BBH", b0, mbit | 126, n)
    else:
        head = struct.pack("!BBQ", b0, mbit | 127, n)
    if mask is not None:
        return head + mask + xor_mask(mask, payload)
    return head + payload


def parse_frames(data):
    """-> (frames, rest); frame = dict(fin, rsv, opcode, masked, payload, raw_len)"""
    frames = []
    pos = 0
    n = len(data)
    while True:
        if n - pos < 2:
            break
        b0, b1 = data[pos], data[pos + 1]
        ln = b1 & 0x7F
        p = pos + 2
        if ln == 126:
            if n - p < 2:
                break
            ln = struct.unpack("!H", data[p:p + 2])[0]
            p += 2
        elif ln == 127:
            if n - p < 8:
                break
            ln = struct.unpack("!Q", data[p:p + 8])[0]
            p += 8
        mask = None
        if b1 & 0x80:
            if n - p < 4:
                break
            mask = data[p:p + 4]
            p += 4
        if n - p < ln:
            break
        payload = data[p:p + ln]
        if mask is not None:
            payload = xor_mask(mask, payload)
        frames.append({"fin": bool(b0 & 0x80), "rsv": b0 & 0x70, "opcode": b0 & 0x0F, "masked": mask is not None,
                       "payload": payload, "len_form": 7 if (b1 & 0x7F) < 126 else 16 if (b1 & 0x7F) == 126 else 64})
        pos = p + ln
    return frames, data[pos:]


class Deflate:
    """permessage-deflate state of one direction pair, from the harness' point of view."""

    def __init__(self, my_wbits=15, my_takeover=True, peer_wbits=15, peer_takeover=True, level=6):
        self.my_wbits, self.my_takeover = my_wbits, my_takeover
        self.peer_wbits, self.peer_takeover = peer_wbits, peer_takeover
        self.level = level
        self._c = None
        self._d = None

    def compress(self, data):
        if self._c is None or not self.my_takeover:
            self._c = zlib.compressobj(self.level, zlib.DEFLATED, -self.my_wbits)
        out = self._c.compress(data) + self._c.flush(zlib.Z_SYNC_FLUSH)
        assert out.endswith(b"\x00\x00\xff\xff")
        return out[:-4]

    def decompress(self, data):
        if self._d is None or not self.peer_takeover:
            self._d = zlib.decompressobj(-self.peer_wbits)
        return self._d.decompress(data + b"\x00\x00\xff\xff")


def assemble(frames, deflate=None):
    """Reassemble parsed frames into events as a conforming receiver would:
    ('msg', opcode, bytes) / ('ping', data) / ('pong', data) / ('close', code, reason) / ('error', why)."""
    out = []
    cur = None
    for f in frames:
        op = f["opcode"]
        if op & 8:
            if not f["fin"] or len(f["payload"]) > 125 or f["rsv"]:
                out.append(("error", "bad control frame"))
                return out
            if op == 8:
                p = f["payload"]
                code = struct.unpack("!H", p[:2])[0] if len(p) >= 2 else None
                out.append(("close", code, p[2:]))
            elif op == 9:
                out.append(("ping", f["payload"]))
            elif op == 10:
                out.append(("pong", f["payload"]))
            else:
                out.append(("error", "unknown control opcode"))
                return out
            continue
        if op == 0:
            if cur is None:
                out.append(("error", "orphan continuation"))
                return out
            if f["rsv"]:
                out.append(("error", "rsv on continuation"))
                return out
            cur[2] += f["payload"]
        else:
            if cur is not None:
                out.append(("error", "new data frame inside fragmented message"))
                return out
            rsv1 = bool(f["rsv"] & 0x40)
            if f["rsv"] & 0x30 or (rsv1 and deflate is None):
                out.append(("error", "reserved bits"))
                return out
            cur = [op, rsv1, bytearray(f["payload"])]
        if f["fin"]:
            data = bytes(cur[2])
            if cur[1]:
                try:
                    data = deflate.decompress(data)
                except zlib.error as e:
                    out.append(("error", "inflate: %s" % e))
                    return out
            out.append(("msg", cur[0], data))
            cur = None
    return out


def parse_ext_params(value):
    """'permessage-deflate; a=1; b' -> dict"""
    parts = [p.strip() for p in value.split(";")]
    d = {}
    for p in parts[1:]:
        k, _, v = p.partition("=")
        d[k.strip()] = v.strip().strip('"') if v else None
    return parts[0], d


class ServerSession:
    """Harness = WebSocket client talking raw bytes to the real server side."""

    def __init__(self, world, offer=None, compression_options=None, settings=None, handler_mixin=None, mask=b"\x11\x22\x33\x44"):
        from tornado import web, websocket
        from mc.httph import ServerConn
        self.world = world
        self.mask = mask
        rec = self.rec = {"messages": [], "closes": [], "opens": 0, "pings": [], "pongs": [], "handler": None}
        copts = compression_options

        class H(websocket.WebSocketHandler):
            def open(self):
                rec["opens"] += 1
                rec["handler"] = self

            def on_message(self, message):
                rec["messages"].append(message)
                hook = rec.get("on_message")
                if hook:
                    return hook(self, message)

            def on_close(self):
                rec["closes"].append((self.close_code, self.close_reason))

            def on_ping(self, data):
                rec["pings"].append(data)

            def on_pong(self, data):
                rec["pongs"].append(data)

            def get_compression_options(self):
                return copts
        if handler_mixin is not None:
            H = type("H", (handler_mixin, H), {"rec": rec})        # the mixin's methods win; it may use self.rec
        self.app = web.Application([("/ws", H)], **(settings or {}))
        self.conn = ServerConn(world, self.app)
        req = (b"GET /ws HTTP/1.1\r\nHost: example.com\r\nUpgrade: websocket\r\nConnection: Upgrade\r\n"
               b"Sec-WebSocket-Key: " + KEY + b"\r\nSec-WebSocket-Version: 13\r\n")
        if offer:
            req += b"Sec-WebSocket-Extensions: " + offer.encode() + b"\r\n"
        self.conn.send(req + b"\r\n")
        out = self.conn.output
        head, sep, rest = out.partition(b"\r\n\r\n")
        self.handshake = head
        self.ok = head.startswith(b"HTTP/1.1 101") and bool(sep)
        self.hs_len = len(head) + 4
        self.agreed = None
        for ln in head.split(b"\r\n")[1:]:
            k, _, v = ln.partition(b":")
            if k.strip().lower() == b"sec-websocket-extensions":
                self.agreed = parse_ext_params(v.decode().strip())[1]
        self.deflate = None
        if self.agreed is not None:
            a = self.agreed
            self.deflate = Deflate(
                my_wbits=int(a["client_max_window_bits"]) if a.get("client_max_window_bits") else 15,
                my_takeover="client_no_context_takeover" not in a,
                peer_wbits=int(a["server_max_window_bits"]) if a.get("server_max_window_bits") else 15,
                peer_takeover="server_no_context_takeover" not in a)
        self._consumed = self.hs_len

    # harness -> tornado
    def feed(self, data, segs=None):
        if segs:
            p = 0
            for c in list(segs) + [len(data)]:
                if c > p:
                    self.conn.sock.feed(data[p:c])
                    self.world.pump()
                    p = c
        else:
            self.conn.sock.feed(data)
            self.world.pump()

    def frame(self, fin, opcode, payload, rsv=0, **kw):
        return build_frame(fin, opcode, payload, rsv=rsv, mask=self.mask, **kw)

    # tornado -> harness
    def take_frames(self):
        out = self.conn.output[self._consumed:]
        frames, rest = parse_frames(out)
        self._consumed += len(out) - len(rest)
        return frames

    @property
    def handler(self):
        return self.rec["handler"]

    @property
    def closed(self):
        return self.conn.closed


class ClientSession:
    """Harness = WebSocket server talking raw bytes to the real client side."""

    def __init__(self, world, compression_options=None, response_ext=None, connect_kwargs=None, use_queue=False):
        import tornado.tcpclient
        from tornado import websocket
        from tornado.iostream import IOStream
        self.world = world
        rec = self.rec = {"messages": [], "closes": [], "pings": [], "pongs": []}
        sockbox = {}

        async def fake_connect(tcpself, host, port, **kw):
            sock = world.socket(peer=(host, port))
            sockbox["sock"] = sock
            return IOStream(sock, max_buffer_size=kw.get("max_buffer_size"))
        old_connect = tornado.tcpclient.TCPClient.connect
        old_urandom = os.urandom
        counter = [0]

        def det_urandom(n):
            counter[0] += 1
            return bytes(((counter[0] * 17 + i * 29 + 3) & 0xFF) for i in range(n))
        tornado.tcpclient.TCPClient.connect = fake_connect
        os.urandom = det_urandom
        self._restore = (old_connect, old_urandom)
        try:
            # use_queue: no callback; the application consumes with read_message() (see drain_queue)
            self.fut = websocket.websocket_connect(
                "ws://example.com/ws", compression_options=compression_options,
                on_message_callback=None if use_queue else self._on_message, **(connect_kwargs or {}))
            world.pump()
            self.sock = sockbox["sock"]
            req = bytes(self.sock.sent)
            self.request = req
            key = None
            self.offer = None
            for ln in req.split(b"\r\n")[1:]:
                k, _, v = ln.partition(b":")
                if k.strip().lower() == b"sec-websocket-key":
                    key = v.strip()
                if k.strip().lower() == b"sec-websocket-extensions":
                    self.offer = v.strip().decode()
            resp = (b"HTTP/1.1 101 Switching Protocols\r\nUpgrade: websocket\r\nConnection: Upgrade\r\n"
                    b"Sec-WebSocket-Accept: " + accept_value(key) + b"\r\n")
            if response_ext:
                resp += b"Sec-WebSocket-Extensions: " + response_ext.encode() + b"\r\n"
            self.sock.feed(resp + b"\r\n")
            world.pump()
        except BaseException:
            self.restore()
            raise
        self.ok = self.fut.done() and not self.fut.cancelled() and self.fut.exception() is None
        self.conn = self.fut.result() if self.ok else None
        self.deflate = None
        if response_ext:
            a = parse_ext_params(response_ext)[1]
            self.deflate = Deflate(
                my_wbits=int(a["server_max_window_bits"]) if a.get("server_max_window_bits") else 15,
                my_takeover="server_no_context_takeover" not in a,
                peer_wbits=int(a["client_max_window_bits"]) if a.get("client_max_window_bits") else 15,
                peer_takeover="client_no_context_takeover" not in a)
        self._consumed = len(self.sock.sent)
        if self.conn is not None:
            # record the close notification: read_message() returns None once
            self._closed_seen = []

    def _on_message(self, m):
        self.rec["messages"].append(m)
        if m is None:
            # what the application sees when it is told about the close
            c = self.fut.result() if self.fut.done() and not self.fut.cancelled() and self.fut.exception() is None else None
            self.rec["closes"].append((getattr(c, "close_code", "no-connection"), getattr(c, "close_reason", None)))

    def restore(self):
        import tornado.tcpclient
        tornado.tcpclient.TCPClient.connect, os.urandom = self._restore

    def drain_queue(self, limit=12):
        """Consume with read_message() until it returns None; -> True if a read stayed pending."""
        if getattr(self, "_eos_seen", False):
            return False
        for _ in range(limit):
            f = getattr(self, "_pending_read", None) or self.conn.read_message()
            self._pending_read = None
            self.world.pump()
            if not f.done():
                self._pending_read = f          # a later drain continues with the same read
                return True
            m = f.result()
            self.rec["messages"].append(m)
            if m is None:
                self._eos_seen = True
                return False
        return False

    def feed(self, data, segs=None):
        if segs:
            p = 0
            for c in list(segs) + [len(data)]:
                if c > p:
                    self.sock.feed(data[p:c])
                    self.world.pump()
                    p = c
        else:
            self.sock.feed(data)
            self.world.pump()

    def frame(self, fin, opcode, payload, rsv=0, **kw):
        return build_frame(fin, opcode, payload, rsv=rsv, mask=None, **kw)

    def take_frames(self):
        out = bytes(self.sock.sent)[self._consumed:]
        frames, rest = parse_frames(out)
        self._consumed += len(out) - len(rest)
        return frames

    @property
    def closed(self):
        return self.sock.closed
