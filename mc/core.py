"""Core bookkeeping shared by all checks: statistics, violations, evidence,
known-finding matching, parallel partition runner."""
import collections
import hashlib
import json
import multiprocessing
import os
import random
import sys
import time
import traceback

VERIF = os.path.dirname(os.path.dirname(os.path.abspath(__file__)))
REPO = os.environ.get("VERIF_REPO", "/repo")
OUT = os.path.join(VERIF, "out")
EVID = os.path.join(VERIF, "evidence")
if os.path.realpath(REPO) != "/repo":
    # runs against a scratch tree (mutants, seeded changes) never touch the evidence
    EVID = os.path.join(OUT, "evidence_scratch")
KNOWN = os.path.join(VERIF, "known_findings.json")

MAX_SIGS = 400


def h(x):
    """Stable short hash of any repr-able value."""
    if not isinstance(x, (bytes, bytearray)):
        x = repr(x).encode("utf-8", "backslashreplace")
    return hashlib.blake2b(bytes(x), digest_size=8).digest()


def jsonable(x):
    if isinstance(x, (bytes, bytearray, memoryview)):
        return {"__bytes__": bytes(x).decode("latin-1")}
    if isinstance(x, dict):
        return {str(k): jsonable(v) for k, v in x.items()}
    if isinstance(x, (list, tuple)):
        return [jsonable(v) for v in x]
    if isinstance(x, (set, frozenset)):
        return sorted((jsonable(v) for v in x), key=repr)
    if isinstance(x, (str, int, float, bool)) or x is None:
        return x
    return repr(x)


def unjson(x):
    if isinstance(x, dict):
        if set(x) == {"__bytes__"}:
            return x["__bytes__"].encode("latin-1")
        return {k: unjson(v) for k, v in x.items()}
    if isinstance(x, list):
        return [unjson(v) for v in x]
    return x


class Stats:
    """Mergeable record of what one partition (or a whole run) covered."""

    def __init__(self):
        self.evaluations = 0
        self.transitions = 0
        self.states = set()        # hashes of canonical states / executions
        self.nontrivial = set()    # hashes of distinct non-trivial cases
        self.outcomes = set()      # hashes (or short strings) of distinct observations
        self.samples = []
        self.violations = {}       # sig -> (msg, case)
        self.notes = collections.Counter()
        self.extra = {}            # key -> max / value
        self.errors = []           # machinery errors (never violations)

    # -- recording -------------------------------------------------------
    def ev(self, n=1):
        self.evaluations += n

    def state(self, key):
        self.states.add(key if isinstance(key, bytes) else h(key))

    def nontriv(self, key):
        self.nontrivial.add(key if isinstance(key, bytes) else h(key))

    def outcome(self, key):
        self.outcomes.add(key if isinstance(key, (bytes, str)) else h(key))

    def sample(self, case, cap=6):
        if len(self.samples) < cap:
            self.samples.append(jsonable(case))

    def note(self, key, n=1):
        self.notes[key] += n

    def violation(self, sig, msg, case):
        """sig: structural signature (string) used for known-finding matching
        and de-duplication; case: json-able replay data (smallest kept)."""
        case = jsonable(case)
        old = self.violations.get(sig)
        if old is None:
            if len(self.violations) >= MAX_SIGS:
                self.notes["violations_dropped_over_cap"] += 1
                return
            self.violations[sig] = (msg, case, 1)
        else:
            n = old[2] + 1
            if len(json.dumps(case)) < len(json.dumps(old[1])):
                self.violations[sig] = (msg, case, n)
            else:
                self.violations[sig] = (old[0], old[1], n)

    def error(self, msg):
        if len(self.errors) < 20:
            self.errors.append(msg)

    def setmax(self, key, v):
        if key not in self.extra or self.extra[key] < v:
            self.extra[key] = v

    # -- merging ---------------------------------------------------------
    def merge(self, o):
        self.evaluations += o.evaluations
        self.transitions += o.transitions
        self.states |= o.states
        self.nontrivial |= o.nontrivial
        self.outcomes |= o.outcomes
        for s in o.samples:
            if len(self.samples) < 8:
                self.samples.append(s)
        for sig, (msg, case, n) in o.violations.items():
            old = self.violations.get(sig)
            if old is None:
                self.violations[sig] = (msg, case, n)
            elif len(json.dumps(case)) < len(json.dumps(old[1])):
                self.violations[sig] = (msg, case, n + old[2])
            else:
                self.violations[sig] = (old[0], old[1], n + old[2])
        self.notes.update(o.notes)
        for k, v in o.extra.items():
            self.setmax(k, v)
        self.errors.extend(o.errors)


class Check:
    """Base class; a check module defines CHECK = SubClass()."""
    id = "C00"
    level = "model_checking"     # or "exploration"
    rule = ""
    assumptions = []
    design_ref = ""
    exhaustive = True
    serial = False               # run partitions in-process (no pool)

    def partitions(self, tier):
        return [None]

    def run_partition(self, part, tier, st):
        raise NotImplementedError

    def finalize(self, tier, st):
        """Called once in the parent after merging (cross-partition oracles)."""

    def replay(self, case):
        raise NotImplementedError


_CHECK = None
_TIER = None


class PartitionTimeout(BaseException):
    pass


def _work(part):
    """Run one partition under a watchdog: code under test that never returns (a runaway retry, a busy loop) must
    end in a verdict, not in a check that hangs."""
    import signal
    st = Stats()
    limit = int(os.environ.get("VERIF_PARTITION_TIMEOUT", "0")) or (1200 if _TIER == "quick" else 7200)

    def on_alarm(signum, frame):
        raise PartitionTimeout()
    old = None
    try:
        old = signal.signal(signal.SIGALRM, on_alarm)
        signal.alarm(limit)
    except (ValueError, AttributeError):
        old = None
    try:
        _CHECK.run_partition(part, _TIER, st)
    except PartitionTimeout:
        st.violation("partition-did-not-terminate", "partition %r was still running after %d s (normal partitions "
                     "take seconds): the code under test loops or blocks:\n%s" % (part, limit, traceback.format_exc()[-1200:]),
                     {"partition": repr(part)})
    except BaseException:
        st.error("partition %r crashed:\n%s" % (part, traceback.format_exc()))
    finally:
        try:
            signal.alarm(0)
            if old is not None:
                signal.signal(signal.SIGALRM, old)
        except (ValueError, AttributeError):
            pass
    return st


def run_check(check, tier, seed, jobs=None):
    global _CHECK, _TIER
    _CHECK, _TIER = check, tier
    t0 = time.time()
    parts = list(check.partitions(tier))
    random.Random(seed).shuffle(parts)
    total = Stats()
    jobs = jobs or int(os.environ.get("VERIF_JOBS", "0")) or min(16, os.cpu_count() or 1)
    if check.serial or len(parts) <= 1 or jobs == 1:
        for p in parts:
            total.merge(_work(p))
    else:
        ctx = multiprocessing.get_context("fork")
        with ctx.Pool(min(jobs, len(parts))) as pool:
            for st in pool.imap_unordered(_work, parts, chunksize=1):
                total.merge(st)
    try:
        check.finalize(tier, total)
    except BaseException:
        total.error("finalize crashed:\n" + traceback.format_exc())
    wall = time.time() - t0
    return report(check, tier, seed, total, wall, len(parts))


def load_known():
    try:
        with open(KNOWN) as f:
            return json.load(f)
    except FileNotFoundError:
        return {"findings": [], "fixed": []}


def report(check, tier, seed, st, wall, nparts):
    pid = check.id
    known = {k["signature"]: k for k in load_known().get("findings", [])
             if k.get("property") == pid}
    os.makedirs(os.path.join(OUT, "replays", pid), exist_ok=True)
    os.makedirs(EVID, exist_ok=True)
    new, hit = [], []
    for sig in sorted(st.violations):
        msg, case, n = st.violations[sig]
        if sig in known:
            hit.append((sig, msg, n))
            continue
        path = os.path.join(OUT, "replays", pid,
                            hashlib.sha1(sig.encode()).hexdigest()[:12] + ".json")
        with open(path, "w") as f:
            json.dump({"property": pid, "signature": sig, "message": msg,
                       "count": n, "case": case}, f, indent=1)
        new.append((sig, msg, path, n))
    cov = {
        "evaluations": st.evaluations,
        "distinct_nontrivial": len(st.nontrivial),
        "rule": check.rule,
        "samples": st.samples[:8] or ["(none recorded)"],
        "distinct_outcomes": len(st.outcomes),
        "partitions": nparts,
        "exhaustive": bool(check.exhaustive) and not st.errors
        and not st.notes.get("cap_hit"),
        "notes": dict(sorted(st.notes.items())),
        "known_findings_hit": [s for s, _, _ in hit],
    }
    cov.update({k: v for k, v in st.extra.items()})
    if check.level == "model_checking":
        cov["states"] = len(st.states)
        cov["transitions"] = st.transitions
        cov["traces_validated_against_impl"] = st.extra.get(
            "traces_validated_against_impl", st.evaluations)
    ev = {
        "property_id": pid, "tier": tier, "seed": seed, "level": check.level,
        "coverage": cov, "assumptions": list(check.assumptions),
        "wall_s": round(wall, 3), "violations": len(new),
    }
    with open(os.path.join(EVID, pid + ".json"), "w") as f:
        json.dump(ev, f, indent=1, sort_keys=True)
    for sig, msg, n in hit:
        print("KNOWN-FINDING: property=%s %s [%s] (%d cases)" % (pid, known[sig].get("what", msg), sig, n))
    for e in st.errors[:3]:
        print("ERROR property=%s machinery: %s" % (pid, e[-1500:]))
    if len(st.errors) > 3:
        print("ERROR property=%s machinery: ... %d more errors" % (pid, len(st.errors) - 3))
    for sig, msg, path, n in new:
        print("VIOLATION property=%s replay=%s  sig=%s (%d cases) %s" % (pid, path, sig, n, msg[:400]))
    print("%s tier=%s seed=%d evaluations=%d states=%d transitions=%d nontrivial=%d outcomes=%d "
          "violations=%d known=%d errors=%d wall=%.1fs" % (
              pid, tier, seed, st.evaluations, len(st.states), st.transitions,
              len(st.nontrivial), len(st.outcomes), len(new), len(hit), len(st.errors), wall))
    if new:
        return 1
    if st.errors:
        return 2
    return 0
