"""Shared helper for C26 / C27 / C28: one virtual World per partition, one
in-memory server connection per request, raw request lines (paths are sent
exactly as enumerated, never normalised by a client library), fixture trees
under tempfile.mkdtemp() with explicit mtimes."""
import os
import shutil
import tempfile

from mc.httph import ServerConn, read_responses
from mc.vloop import World, EPOCH

HOST = b"site.example"
MTIME = EPOCH - 86400.5          # fractional on purpose: Last-Modified truncates


class Client:
    """Context manager around a World; .request() opens a fresh connection on
    the given Application, sends the raw requests, returns parsed responses."""

    def __init__(self):
        self.world = World()

    def __enter__(self):
        self.world.__enter__()
        return self

    def __exit__(self, *a):
        return self.world.__exit__(*a)

    def request(self, app, reqs):
        """reqs: list of (method, target_bytes, [(name, value_bytes)]).
        Sent one after the other on one keep-alive connection.
        Returns (responses, problems, logs, raw_output)."""
        w = self.world
        del w.logs.records[:]
        c = ServerConn(w, app)
        methods = []
        for method, target, headers in reqs:
            msg = method.encode() + b" " + target + b" HTTP/1.1\r\nHost: " + HOST + b"\r\n"
            for n, v in headers:
                msg += n.encode() + b": " + v + b"\r\n"
            msg += b"\r\n"
            c.send(msg)
            methods.append(method)
        out = c.output
        closed = c.closed
        resps, problems = read_responses(out, methods, closed)
        logs = list(w.logs.records)
        if not c.closed:
            c.stream.close()
            w.pump()
        try:
            w.socks.remove(c.sock)
        except ValueError:
            pass
        return resps, problems, logs, out


def mkfile(path, content, mtime=MTIME):
    os.makedirs(os.path.dirname(path), exist_ok=True)
    with open(path, "wb") as f:
        f.write(content)
    os.utime(path, (mtime, mtime))


def mktree():
    d = tempfile.mkdtemp(prefix="verif-static-")
    return os.path.realpath(d)


def rmtree(d):
    shutil.rmtree(d, ignore_errors=True)


def uncaught(logs):
    """Log records that mean an unexpected exception inside Tornado."""
    return [r for r in logs if r[1] in ("ERROR", "CRITICAL")]
