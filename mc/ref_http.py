"""ref_http: strict RFC 9112 *request* reader with Tornado's three documented
leniencies (bare-LF line ends, obs-fold, one leading blank line) and a
three-valued verdict.  Written from the RFC and the property statement; it
never imports Tornado.

read_requests(stream) -> list of items, each one of
  ("req", method, target, version, headers, body)   ACCEPT: must be delivered exactly
  ("reject", reason)     REJECT: nothing further may be delivered
  ("either", reason)     EITHER: verdict not asserted, comparison stops here
  ("incomplete",)        stream ended inside a message: nothing delivered for it
headers = list of (lower-case name bytes, value bytes) in wire order, folded and OWS-trimmed.
"""
import re

TOKEN = re.compile(rb"^[!#$%&'*+\-.^_`|~0-9A-Za-z]+$")
REQUEST_LINE = re.compile(rb"^([!#$%&'*+\-.^_`|~0-9A-Za-z]+) ([\x21-\x7e\x80-\xff]+) (HTTP/[0-9]\.[0-9])$")
VALUE = re.compile(rb"^[\t \x21-\x7e\x80-\xff]*$")
EOH = re.compile(rb"\r?\n\r?\n")
HOST_STRICT = re.compile(rb"^(\[[0-9A-Fa-f:.]+\]|[A-Za-z0-9\-._~!$&'()*+;=%]*)(:[0-9]{0,5})?$")
HOST_TORNADO_CHARS = re.compile(rb"^[\[\]:A-Za-z0-9\-._~!$&'()*+,;=%]*$")
MAX_CL_DIGITS = 18


def read_requests(stream, max_body=None):
    items = []
    pos = 0
    n = len(stream)
    while pos < n:
        # leading blank lines
        p = pos
        nblank = 0
        while True:
            if stream[p:p + 2] == b"\r\n":
                p += 2
                nblank += 1
            elif stream[p:p + 1] == b"\n":
                p += 1
                nblank += 1
            else:
                break
        if nblank >= 2:
            items.append(("either", "two-or-more-leading-blank-lines"))
            return items
        if p >= n:
            items.append(("incomplete",))
            return items
        m = EOH.search(stream, p)
        if m is None:
            items.append(("incomplete",))
            return items
        block = stream[p:m.start()]
        body_start = m.end()
        lines = re.split(rb"\r?\n", block)
        verdict = None      # first reject reason
        either = None

        def rej(r):
            nonlocal verdict
            if verdict is None:
                verdict = r
        for ln in lines:
            if b"\r" in ln:
                rej("bare-CR")
            if b"\x00" in ln:
                rej("NUL")
        rl = REQUEST_LINE.match(lines[0])
        method = target = version = None
        if not rl:
            rej("malformed-request-line")
        else:
            method, target, version = rl.group(1), rl.group(2), rl.group(3)
            if version not in (b"HTTP/1.1", b"HTTP/1.0"):
                if version.startswith(b"HTTP/1."):
                    either = "http-1.x-minor-version"
                else:
                    rej("unsupported-version")
        headers = []
        for i, ln in enumerate(lines[1:]):
            if ln[:1] in (b" ", b"\t"):
                if not headers:
                    rej("fold-on-first-header-line")
                    continue
                cont = ln.strip(b" \t")
                if not VALUE.match(cont):
                    rej("bad-char-in-folded-value")
                name, val = headers[-1]
                headers[-1] = (name, (val + b" " + cont).strip(b" \t"))
                continue
            name, sep, val = ln.partition(b":")
            if not sep:
                rej("no-colon")
                continue
            if not TOKEN.match(name):
                rej("bad-field-name")
                continue
            val = val.strip(b" \t")
            if not VALUE.match(val):
                rej("bad-char-in-value")
            headers.append((name.lower(), val))

        def values(nm):
            return [v for k, v in headers if k == nm]
        # ---- Host
        hosts = values(b"host")
        if version is not None and version != b"HTTP/1.0" and not hosts:
            # RFC 9110 2.5: a higher minor version is processed as the highest supported one (1.1), so Host is owed
            rej("missing-host")
        if len(hosts) > 1:
            rej("multiple-host")
        elif hosts:
            hv = hosts[0]
            if not HOST_TORNADO_CHARS.match(hv) or b"," in hv:
                rej("invalid-host")
            elif not HOST_STRICT.match(hv):
                either = either or "odd-host-syntax"
        # ---- framing
        cls = values(b"content-length")
        tes = values(b"transfer-encoding")
        framing = ("none", 0)
        if tes:
            if cls:
                rej("content-length-with-transfer-encoding")
            te = b",".join(tes)
            if te.lower() != b"chunked":
                rej("unsupported-transfer-coding")
            elif version == b"HTTP/1.0":
                either = either or "transfer-encoding-on-http-1.0"
            framing = ("chunked", None)
        elif cls:
            joined = b",".join(cls)
            pieces = [x.strip(b" \t") for x in joined.split(b",")]
            if any(not re.match(rb"^[0-9]+$", x) for x in pieces):
                rej("non-numeric-content-length")
            elif len(set(pieces)) != 1:
                rej("conflicting-content-length")
            elif len(pieces[0].lstrip(b"0")) > MAX_CL_DIGITS:
                rej("content-length-too-large")
            else:
                if re.search(rb"[ \t],", joined):
                    either = either or "whitespace-before-comma-in-content-length"
                framing = ("cl", int(pieces[0]))
                if max_body is not None and framing[1] > max_body:
                    rej("content-length-over-limit")
        if verdict is not None:
            items.append(("reject", verdict))
            return items
        if either is not None:
            items.append(("either", either))
            return items
        # ---- body
        if framing[0] == "none":
            body = b""
            pos = body_start
        elif framing[0] == "cl":
            if body_start + framing[1] > n:
                items.append(("incomplete",))
                return items
            body = stream[body_start:body_start + framing[1]]
            pos = body_start + framing[1]
        else:
            r = read_chunked(stream, body_start)
            if r[0] != "ok":
                items.append(r)
                return items
            body, pos = r[1], r[2]
        items.append(("req", method, target, version, headers, body))
        # ---- persistence: does the server read another request on this connection?
        conn = [t.strip(b" \t").lower() for v in values(b"connection") for t in v.split(b",")]
        if version == b"HTTP/1.1":
            if conn == [b"close"]:
                items.append(("closed", "connection-close"))
                return items
            if b"close" in conn:
                items.append(("either", "list-valued-connection-close"))
                return items
        else:
            delimited = framing[0] != "none" or method in (b"GET", b"HEAD")
            if conn == [b"keep-alive"] and delimited:
                pass
            elif b"keep-alive" in conn and delimited and len(conn) > 1:
                items.append(("either", "list-valued-keep-alive"))
                return items
            elif b"keep-alive" in conn:
                items.append(("either", "http-1.0-keep-alive-without-body-framing"))
                return items
            else:
                items.append(("closed", "http-1.0-without-keep-alive"))
                return items
    return items


def read_chunked(stream, pos):
    """-> ("ok", body, newpos) | ("reject", r) | ("either", r) | ("incomplete",)"""
    n = len(stream)
    body = bytearray()
    while True:
        le = stream.find(b"\n", pos)
        if le < 0:
            # a size line that can no longer become valid is still just incomplete:
            # nothing is delivered either way
            if n - pos > 64:
                return ("either", "overlong-chunk-size-line")
            return ("incomplete",)
        line = stream[pos:le + 1]
        if not line.endswith(b"\r\n"):
            return ("either", "bare-LF-in-chunk-framing")
        size_s = line[:-2]
        if len(line) > 64:
            return ("either", "overlong-chunk-size-line")
        if b";" in size_s:
            if re.match(rb"^[0-9A-Fa-f]+[ \t]*;", size_s):
                return ("either", "chunk-extension")
            return ("reject", "malformed-chunk-size")
        if not re.match(rb"^[0-9A-Fa-f]+$", size_s):
            return ("reject", "malformed-chunk-size")
        size = int(size_s, 16)
        pos = le + 1
        if size == 0:
            if pos + 2 > n:
                if stream[pos:pos + 1] not in (b"", b"\r"):
                    # trailer section or garbage started
                    pass
                else:
                    return ("incomplete",)
            if stream[pos:pos + 2] == b"\r\n":
                return ("ok", bytes(body), pos + 2)
            if stream[pos:pos + 1] == b"\n":
                return ("either", "bare-LF-in-chunk-framing")
            # something else follows the last chunk: a trailer section (valid HTTP, Tornado
            # refuses it) or garbage; either way the reader may refuse
            nxt = stream[pos:pos + 2]
            if len(nxt) < 2:
                return ("incomplete",) if nxt == b"\r" else ("either", "trailer-or-garbage-after-last-chunk")
            return ("either", "trailer-or-garbage-after-last-chunk")
        if pos + size + 2 > n:
            # not enough bytes for data + CRLF; but a wrong terminator may already be visible
            if pos + size < n and stream[pos + size:pos + size + 1] != b"\r":
                return ("reject", "chunk-data-not-followed-by-CRLF")
            return ("incomplete",)
        body += stream[pos:pos + size]
        term = stream[pos + size:pos + size + 2]
        if term != b"\r\n":
            if term[:1] == b"\n":
                return ("either", "bare-LF-in-chunk-framing")
            return ("reject", "chunk-data-not-followed-by-CRLF")
        pos += size + 2
