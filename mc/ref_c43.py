"""Regex-free reference recognisers / formatters for property C43.

Everything here is written from the RFCs (9112 start lines, 3986 targets,
4291 addresses, 9110 IMF-fixdate) and never calls the Tornado functions
under test."""
import functools
import string

DIG = set("0123456789")
HEX = set("0123456789abcdefABCDEF")
ALPHA = set(string.ascii_letters)
TCHAR = set("!#$%&'*+-.^_`|~") | DIG | ALPHA
UNRES = ALPHA | DIG | set("-._~")
SUBDELIM = set("!$&'()*+,;=")
# RFC 9112 2.2 / 3 / 4: whitespace a lenient recipient MAY treat as SP
LWS = " \t\x0b\x0c\r"


def is_token(s):
    return len(s) > 0 and all(c in TCHAR for c in s)


def all_digits(s):
    return len(s) > 0 and all(c in DIG for c in s)


def version_class(v):
    """'1x' / 'other' for HTTP-version = %s"HTTP" "/" DIGIT "." DIGIT, else None."""
    if len(v) == 8 and v[:5] == "HTTP/" and v[5] in DIG and v[6] == "." and v[7] in DIG:
        return "1x" if v[5] == "1" else "other"
    return None


def _chars_ok(s, extra):
    i, n = 0, len(s)
    while i < n:
        c = s[i]
        if c == "%":
            if i + 2 >= n:
                return False
            if s[i + 1] not in HEX or s[i + 2] not in HEX:
                return False
            i += 3
            continue
        if c not in UNRES and c not in SUBDELIM and c not in extra:
            return False
        i += 1
    return True


def _path_query_ok(s):
    path, _, q = s.partition("?")
    return _chars_ok(path, ":@/") and _chars_ok(q, ":@/?")


def _authority_ok(a):
    host, sep, port = a.rpartition(":")
    if not sep:
        host, port = a, ""
    elif port and not all_digits(port):
        return False
    return len(host) > 0 and _chars_ok(host, "")


def rfc3986_target(t):
    """Conservative (subset) recogniser of RFC 9112 request-target."""
    if t == "*":
        return True
    if t[:1] == "/":
        return _path_query_ok(t)
    scheme, sep, rest = t.partition(":")
    if sep and scheme and scheme[0] in ALPHA and all(
            c in ALPHA or c in DIG or c in "+-." for c in scheme):
        if rest[:2] == "//":
            rest = rest[2:]
            cut = len(rest)
            for j, c in enumerate(rest):
                if c in "/?":
                    cut = j
                    break
            auth, tail = rest[:cut], rest[cut:]
            return _authority_ok(auth) and _path_query_ok(tail)
        return len(rest) > 0 and _path_query_ok(rest)
    # authority-form host ":" port
    host, sep, port = t.rpartition(":")
    if sep and all_digits(port) and host and _chars_ok(host, ""):
        return True
    return False


def target_class(t):
    if not t:
        return "bad"
    for c in t:
        o = ord(c)
        if o <= 0x20 or o == 0x7F:
            return "bad"
    if any(ord(c) > 0xFF for c in t):
        return "either:target-non-latin1"
    if rfc3986_target(t):
        return "good"
    return "either:target-not-rfc3986"


def _words(s):
    out, cur = [], ""
    for c in s:
        if c in LWS:
            if cur:
                out.append(cur)
                cur = ""
        else:
            cur += c
    if cur:
        out.append(cur)
    return out


def ref_request(line):
    """-> (verdict, expected) ; verdict in accept / reject / either:<class>."""
    parts = line.split(" ")
    if len(parts) == 3:
        m, t, v = parts
        vc = version_class(v)
        if is_token(m) and vc:
            tc = target_class(t)
            if tc == "good":
                return ("accept" if vc == "1x" else "either:version-not-1.x", (m, t, v))
            if tc != "bad":
                return (tc, (m, t, v))
    if "\n" not in line:
        w = _words(line)
        if (len(w) == 3 and is_token(w[0]) and version_class(w[2])
                and target_class(w[1]) != "bad"):
            return ("either:lenient-whitespace", tuple(w))
    return ("reject", None)


def _reason_class(r):
    cls = "good"
    for c in r:
        o = ord(c)
        if o == 9 or 0x20 <= o <= 0x7E or 0x80 <= o <= 0xFF:
            continue
        if o > 0xFF:
            cls = "either:reason-non-latin1"
            continue
        return "bad"
    return cls


def ref_response(line):
    """-> (verdict, expected (version, code, reason-or-None=any))."""
    if len(line) >= 13 and line[8] == " " and line[12] == " ":
        v, code, reason = line[:8], line[9:12], line[13:]
        vc = version_class(v)
        if vc and all_digits(code):
            rc = _reason_class(reason)
            if rc != "bad":
                exp = (v, int(code), reason)
                if rc != "good":
                    return (rc, exp)
                return ("accept" if vc == "1x" else "either:version-not-1.x", exp)
    if "\n" not in line:
        s = line.strip(LWS)
        w = _words(s)
        if len(w) >= 2 and version_class(w[0]) and len(w[1]) == 3 and all_digits(w[1]):
            # reason = everything after the second word
            i = s.index(w[0]) + len(w[0])
            i = s.index(w[1], i) + len(w[1])
            if _reason_class(s[i:].replace("\r", " ").replace("\x0b", " ").replace("\x0c", " ")) != "bad":
                return ("either:lenient-whitespace", (w[0], int(w[1]), None))
    return ("reject", None)


# ---------------------------------------------------------------- host:port
def digits_value(s):
    """int of an ASCII digit string without int() (no 4300 digit limit)."""
    CH = 18
    v = 0
    for i in range(0, len(s), CH):
        chunk = s[i:i + CH]
        v = v * (10 ** len(chunk)) + int(chunk)
    return v


def ref_split_host_port(netloc):
    """-> ("must", (host, port)) or ("either:<class>", None)."""
    if ":" not in netloc:
        return ("must", (netloc, None))
    if "\n" in netloc:
        return ("either:newline", None)
    if netloc[:1] == "[" and netloc[-1:] == "]" and netloc.count("[") == 1 \
            and netloc.count("]") == 1:
        return ("must", (netloc, None))
    host, _, port = netloc.rpartition(":")
    if not all_digits(port):
        return ("either:port-not-ascii-digits", None)
    if not host:
        return ("either:empty-host", None)
    if ":" in host and not (host[0] == "[" and host[-1] == "]" and host.count("[") == 1
                            and host.count("]") == 1):
        return ("either:unbracketed-colon-host", None)
    if len(port.lstrip("0")) > 5 or digits_value(port) > 65535:
        return ("either:port-out-of-range", None)      # not a port: value or None both fine
    return ("must", (host, digits_value(port)))


# ---------------------------------------------------------------- dates
DAYS = ["Mon", "Tue", "Wed", "Thu", "Fri", "Sat", "Sun"]
MONTHS = ["Jan", "Feb", "Mar", "Apr", "May", "Jun", "Jul", "Aug", "Sep", "Oct", "Nov", "Dec"]


def is_leap(y):
    return y % 4 == 0 and (y % 100 != 0 or y % 400 == 0)


def mdays(y, m):
    return [31, 29 if is_leap(y) else 28, 31, 30, 31, 30, 31, 31, 30, 31, 30, 31][m - 1]


@functools.lru_cache(maxsize=None)
def days_from_civil(y, m, d):
    """Days since 1970-01-01 (proleptic Gregorian), by plain counting."""
    n = 0
    if y >= 1970:
        for yy in range(1970, y):
            n += 366 if is_leap(yy) else 365
    else:
        for yy in range(y, 1970):
            n -= 366 if is_leap(yy) else 365
    for mm in range(1, m):
        n += mdays(y, mm)
    return n + d - 1


def imf_fixdate(y, m, d, hh, mi, ss):
    wd = (days_from_civil(y, m, d) + 3) % 7      # 1970-01-01 was a Thursday (index 3)
    return "%s, %02d %s %04d %02d:%02d:%02d GMT" % (DAYS[wd], d, MONTHS[m - 1], y, hh, mi, ss)


def epoch(y, m, d, hh, mi, ss):
    return days_from_civil(y, m, d) * 86400 + hh * 3600 + mi * 60 + ss


# ---------------------------------------------------------------- query strings
def _pct_bytes(s):
    """application/x-www-form-urlencoded decoding of one component to bytes."""
    out = bytearray()
    i, n = 0, len(s)
    while i < n:
        c = s[i]
        if c == "+":
            out.append(0x20)
        elif c == "%" and i + 2 < n and s[i + 1] in HEX and s[i + 2] in HEX:
            out.append(int(s[i + 1:i + 3], 16))
            i += 3
            continue
        else:
            out += c.encode("utf-8", "surrogatepass")
        i += 1
    return bytes(out)


def query_pairs(q):
    """WHATWG urlencoded parser: '&'-separated, empty sequences skipped."""
    out = []
    for chunk in q.split("&"):
        if not chunk:
            continue
        k, _, v = chunk.partition("=")
        out.append((_pct_bytes(k), _pct_bytes(v)))
    return out


def split_url(u):
    """-> (prefix, query or None, fragment or None) by first '#' then first '?'."""
    rest, hsep, frag = u.partition("#")
    pre, qsep, q = rest.partition("?")
    return pre, (q if qsep else None), (frag if hsep else None)


# ---------------------------------------------------------------- IP literals
def is_dotted_quad(s):
    p = s.split(".")
    if len(p) != 4:
        return False
    for x in p:
        if not all_digits(x) or len(x) > 3:
            return False
        if len(x) > 1 and x[0] == "0":
            return False
        if int(x) > 255:
            return False
    return True


def _h16(x):
    return 1 <= len(x) <= 4 and all(c in HEX for c in x)


def _groups(part, allow_v4_tail):
    """number of 16-bit groups described by 'h16:h16:...[:v4]' or None."""
    if part == "":
        return 0
    items = part.split(":")
    n = 0
    for i, it in enumerate(items):
        if i == len(items) - 1 and allow_v4_tail and "." in it:
            if not is_dotted_quad(it):
                return None
            n += 2
        elif _h16(it):
            n += 1
        else:
            return None
    return n


def is_rfc4291(s):
    if s.count("::") > 1 or ":::" in s:
        return False
    if "::" in s:
        left, _, right = s.partition("::")
        a = _groups(left, False)
        b = _groups(right, True)
        return a is not None and b is not None and a + b <= 7
    return _groups(s, True) == 8


LDH = ALPHA | DIG | {"-"}


def is_hostname(s):
    """RFC 952/1123 host name whose top-level label starts with a letter
    (RFC 1123 2.1: so it can never be confused with a numeric address)."""
    if s.endswith("."):
        s = s[:-1]
    if not s or len(s) > 253:
        return False
    labels = s.split(".")
    for lab in labels:
        if not (1 <= len(lab) <= 63) or lab[0] == "-" or lab[-1] == "-":
            return False
        if not all(c in LDH for c in lab):
            return False
    return labels[-1][0] in ALPHA


def ref_ip(s):
    """-> True / False / 'either:<class>'."""
    if s == "":
        return False
    if "\x00" in s:
        return False
    if is_dotted_quad(s) or is_rfc4291(s):
        return True
    if is_hostname(s):
        return False
    if any(ord(c) > 0x7F for c in s):
        return "either:non-ascii"
    if "%" in s:
        return "either:zone-id"
    return "either:neither-plain-ip-nor-hostname"
