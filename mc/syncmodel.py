"""Reference models (ref_sync) for tornado.locks / tornado.queues and the
history runner shared by C33, C34, C35.

A history is a tuple of ops.  After every op the loop is drained and the
state of *every* future created so far, the op's immediate result and a few
probes are compared between the real object and the reference.  The virtual
clock only moves with the ('adv',) op (+0.5 s); every timeout is 1 s, so a
waiter created at t expires during the second 'adv' after it."""
import collections
import datetime

from mc.vloop import World

STEP = 0.5
TIMEOUT = 1.0


class RefBase:
    timeout_state = ("E", "TimeoutError")

    def __init__(self):
        self.futs = []
        self.now = 0.0
        self.timers = []      # (deadline, seq, idx)
        self.seq = 0

    def new(self):
        self.futs.append(("P",))
        return len(self.futs) - 1

    def live(self, i):
        return self.futs[i] == ("P",)

    def timer(self, i, kind="td"):
        self.seq += 1
        self.timers.append((self.now + (0.0 if kind == "zero" else TIMEOUT), self.seq, i))

    def fire_due(self):
        """Timers whose deadline is not in the future fire without time passing (zero timeouts)."""
        due = sorted(t for t in self.timers if t[0] <= self.now + 1e-9)
        self._fire(due)
        self.timers = [t for t in self.timers if t[0] > self.now + 1e-9 and self.live(t[2])]

    def on_timeout(self, i):
        self.futs[i] = self.timeout_state

    def _fire(self, due):
        """Fire due timers grouped by deadline: timers with the same deadline expire together (in one
        loop iteration), before any of the affected waiters' continuations run."""
        i = 0
        while i < len(due):
            j = i
            while j < len(due) and abs(due[j][0] - due[i][0]) < 1e-9:
                j += 1
            self.now = max(self.now, due[i][0])
            self.on_timeouts([t[2] for t in due[i:j] if self.live(t[2])])
            i = j

    def on_timeouts(self, idxs):
        for i in idxs:
            self.on_timeout(i)

    def advance(self):
        target = self.now + STEP
        due = sorted(t for t in self.timers if t[0] <= target + 1e-9)
        self._fire(due)
        self.timers = [t for t in self.timers if t[0] > target + 1e-9 and self.live(t[2])]
        self.now = target

    def pending(self):
        return [i for i in range(len(self.futs)) if self.live(i)]

    def cancel_nth(self, k):
        p = self.pending()
        if not p:
            return None
        try:
            i = p[k]
        except IndexError:
            return None
        self.futs[i] = ("C",)
        self.on_cancel(i)
        return i

    def on_cancel(self, i):
        pass

    def probes(self):
        return ()

    def remaining(self):
        """For canonical state: pending futures with their remaining time."""
        d = {t[2]: round(t[0] - self.now, 3) for t in self.timers}
        return tuple(d.get(i) for i in self.pending())


class RefSem(RefBase):
    """Semaphore(v) / BoundedSemaphore(v) / Lock."""

    def __init__(self, value, bounded=False, lock=False):
        super().__init__()
        self.v = value
        self.initial = value
        self.bounded = bounded
        self.lock = lock
        self.waiters = []

    def apply(self, op):
        if op[0] == "acq_ctx":
            op = ("acq", None)
        if op[0] == "acq":
            i = self.new()
            if self.v > 0:
                self.v -= 1
                self.futs[i] = ("R", "CM")
            else:
                self.waiters.append(i)
                if op[1] is not None:
                    self.timer(i, op[1])
            return None
        if op[0] == "rel":
            if self.bounded and self.v >= self.initial:
                return ("raise", "RuntimeError" if self.lock else "ValueError")
            self.v += 1
            while self.waiters:
                w = self.waiters.pop(0)
                if self.live(w):
                    self.v -= 1
                    self.futs[w] = ("R", "CM")
                    break
            return None
        raise AssertionError(op)

    def invariants(self):
        live_waiters = [w for w in self.waiters if self.live(w)]
        assert not (self.v > 0 and live_waiters), "permit unused while a live waiter waits"


class RefCond(RefBase):
    timeout_state = ("R", False)

    def __init__(self):
        super().__init__()
        self.waiters = []

    def apply(self, op):
        if op[0] == "wait":
            i = self.new()
            self.waiters.append(i)
            if op[1] is not None:
                self.timer(i, op[1])
            return None
        if op[0] == "notify":
            n = op[1]
            live = [w for w in self.waiters if self.live(w)]
            woken = live[:n]
            for w in woken:
                self.futs[w] = ("R", True)
            self.waiters = [w for w in self.waiters if self.live(w)]
            return None
        if op[0] == "notify_all":
            for w in self.waiters:
                if self.live(w):
                    self.futs[w] = ("R", True)
            self.waiters = []
            return None
        raise AssertionError(op)

    def invariants(self):
        pass


class RefEvent(RefBase):
    def __init__(self):
        super().__init__()
        self.flag = False
        self.waiters = []

    def apply(self, op):
        if op[0] == "wait":
            i = self.new()
            if self.flag:
                self.futs[i] = ("R", None)
            else:
                self.waiters.append(i)
                if op[1] is not None:
                    self.timer(i, op[1])
            return None
        if op[0] == "wait_set":
            i = self.new()
            if self.flag:
                self.futs[i] = ("R", "waited")
            else:
                self.waiters.append(i)
                self.setters = getattr(self, "setters", set()) | {i}
                self.timer(i, "td")
            return None
        if op[0] == "set":
            self.flag = True
            for w in self.waiters:
                if self.live(w):
                    self.futs[w] = ("R", "waited") if w in getattr(self, "setters", ()) else ("R", None)
            self.waiters = []
            return None
        if op[0] == "clear":
            self.flag = False
            return None
        raise AssertionError(op)

    def on_timeouts(self, idxs):
        setters = getattr(self, "setters", ())
        any_setter = False
        for i in idxs:
            if i in setters:
                # the consumer catches its TimeoutError and sets the event at once
                self.futs[i] = ("R", "timed-out-then-set")
                any_setter = True
            else:
                self.futs[i] = self.timeout_state
        if any_setter:
            self.flag = True
            for w in self.waiters:
                if self.live(w):
                    self.futs[w] = ("R", "waited") if w in setters else ("R", None)
            self.waiters = []

    def probes(self):
        return (self.flag, len([w for w in self.waiters if self.live(w)]))

    def invariants(self):
        pass


class RefQueue(RefBase):
    def __init__(self, kind, maxsize, putter_policy="insert_then_get"):
        super().__init__()
        self.kind = kind
        self.maxsize = maxsize
        self.items = []
        self.getters = []
        self.putters = []     # (item, idx)
        self.unfinished = 0
        self.joins = []
        self.policy = putter_policy

    def _put_item(self, x):
        self.unfinished += 1
        self.items.append(x)

    def _get_item(self):
        if self.kind == "fifo":
            return self.items.pop(0)
        if self.kind == "lifo":
            return self.items.pop()
        m = min(self.items)
        self.items.remove(m)
        return m

    def full(self):
        return self.maxsize > 0 and len(self.items) >= self.maxsize

    def _expire(self):
        self.putters = [p for p in self.putters if self.live(p[1])]
        self.getters = [g for g in self.getters if self.live(g)]

    def put_nowait(self, x):
        self._expire()
        if self.getters:
            g = self.getters.pop(0)
            self._put_item(x)
            self.futs[g] = ("R", self._get_item())
            return None
        if self.full():
            return ("raise", "QueueFull")
        self._put_item(x)
        return None

    def get_nowait(self):
        self._expire()
        if self.putters:
            x, p = self.putters.pop(0)
            if self.policy == "insert_then_get" or not self.items:
                self._put_item(x)
                r = self._get_item()
            else:                       # asyncio style: get first, then admit the putter
                r = self._get_item()
                self._put_item(x)
            self.futs[p] = ("R", None)
            return ("ok", r)
        if self.items:
            return ("ok", self._get_item())
        return ("raise", "QueueEmpty")

    def apply(self, op):
        name = op[0]
        if name == "put":
            i = self.new()
            r = self.put_nowait(op[1])
            if r is None:
                self.futs[i] = ("R", None)
            else:
                self.putters.append((op[1], i))
                if op[2] is not None:
                    self.timer(i, op[2])
            return None
        if name == "put_nowait":
            return self.put_nowait(op[1])
        if name == "get":
            i = self.new()
            r = self.get_nowait()
            if r[0] == "ok":
                self.futs[i] = ("R", r[1])
            else:
                self.getters.append(i)
                if op[1] is not None:
                    self.timer(i, op[1])
            return None
        if name == "get_nowait":
            return self.get_nowait()
        if name == "task_done":
            if self.unfinished <= 0:
                return ("raise", "ValueError")
            self.unfinished -= 1
            if self.unfinished == 0:
                for j in self.joins:
                    if self.live(j):
                        self.futs[j] = ("R", None)
                self.joins = []
            return None
        if name == "join":
            i = self.new()
            if self.unfinished == 0:
                self.futs[i] = ("R", None)
            else:
                self.joins.append(i)
                if op[1] is not None:
                    self.timer(i, op[1])
            return None
        raise AssertionError(op)

    def probes(self):
        n = len(self.items)
        return (n, n == 0, self.maxsize > 0 and n >= self.maxsize)

    def invariants(self):
        assert self.maxsize == 0 or len(self.items) <= self.maxsize, "more than maxsize items"


# ---------------------------------------------------------------------------
def fstate(f):
    if not f.done():
        return ("P",)
    if f.cancelled():
        return ("C",)
    e = f.exception()
    if e is not None:
        return ("E", type(e).__name__)
    r = f.result()
    if type(r).__name__ == "_ReleasingContextManager":
        r = "CM"
    return ("R", r)


def _to(t):
    return None if t is None else datetime.timedelta(seconds=TIMEOUT) if t == "td" else t


class RealAdapter:
    def __init__(self, spec, world):
        from tornado import locks, queues
        self.world = world
        self.spec = spec
        fam = spec[0]
        self.fam = fam
        if fam == "sem":
            self.obj = locks.Semaphore(spec[1])
        elif fam == "bsem":
            self.obj = locks.BoundedSemaphore(spec[1])
        elif fam == "lock":
            self.obj = locks.Lock()
        elif fam == "cond":
            self.obj = locks.Condition()
        elif fam == "event":
            self.obj = locks.Event()
        elif fam == "queue":
            cls = {"fifo": queues.Queue, "lifo": queues.LifoQueue, "prio": queues.PriorityQueue}[spec[1]]
            self.obj = cls(spec[2])
        self.futs = []
        self.kinds = []

    def timeout_arg(self, t):
        """t is None | 'td' (timedelta) | 'abs' (absolute deadline) | 'zero' (timedelta(0): expire at once)."""
        if t is None:
            return None
        if t == "abs":
            return self.world.ioloop.time() + TIMEOUT
        if t == "zero":
            return datetime.timedelta(0)
        return datetime.timedelta(seconds=TIMEOUT)

    def apply(self, op):
        o = self.obj
        name = op[0]
        try:
            if name == "acq":
                self.futs.append(o.acquire(self.timeout_arg(op[1])))
            elif name == "acq_ctx":
                # a task entering 'async with obj:' (and keeping the permit until a later release())
                async def enter():
                    await o.__aenter__()
                    return "CM"
                self.futs.append(self.world.loop.create_task(enter()))
            elif name == "rel":
                o.release()
            elif name == "wait":
                self.futs.append(o.wait(self.timeout_arg(op[1])))
            elif name == "notify":
                o.notify(op[1])
            elif name == "notify_all":
                o.notify_all()
            elif name == "wait_set":
                import asyncio
                from tornado import gen as _gen

                async def consumer():
                    try:
                        await o.wait(datetime.timedelta(seconds=TIMEOUT))
                    except _gen.TimeoutError:
                        o.set()
                        return "timed-out-then-set"
                    return "waited"
                self.futs.append(self.world.loop.create_task(consumer()))
            elif name == "set":
                o.set()
            elif name == "clear":
                o.clear()
            elif name == "put":
                self.futs.append(o.put(op[1], self.timeout_arg(op[2])))
            elif name == "put_nowait":
                o.put_nowait(op[1])
            elif name == "get":
                self.futs.append(o.get(self.timeout_arg(op[1])))
            elif name == "get_nowait":
                return ("ok", o.get_nowait())
            elif name == "task_done":
                o.task_done()
            elif name == "join":
                self.futs.append(o.join(self.timeout_arg(op[1])))
            else:
                raise AssertionError(op)
        except (AssertionError, KeyboardInterrupt, SystemExit):
            raise
        except BaseException as e:      # incl. CancelledError escaping from the object under test
            return ("raise", type(e).__name__)
        finally:
            while len(self.kinds) < len(self.futs):
                self.kinds.append(name)
        return None

    def cancel_nth(self, k):
        p = [i for i, f in enumerate(self.futs) if not f.done()]
        if not p:
            return None
        try:
            i = p[k]
        except IndexError:
            return None
        self.futs[i].cancel()
        return i

    def probes(self):
        o = self.obj
        if self.fam == "event":
            return (o.is_set(), len(o._waiters))
        if self.fam == "queue":
            return (o.qsize(), o.empty(), o.full())
        return ()

    def internal(self):
        """Implementation state for canonicalisation (over-fine is safe)."""
        o = self.obj
        fam = self.fam
        if fam in ("sem", "bsem"):
            return (o._value, tuple(w.done() for w in o._waiters), o._timeouts)
        if fam == "lock":
            b = o._block
            return (b._value, tuple(w.done() for w in b._waiters), b._timeouts)
        if fam == "cond":
            return (tuple(w.done() for w in o._waiters), o._timeouts)
        if fam == "event":
            return (o._value, len(o._waiters))
        if fam == "queue":
            return (repr(list(o._queue)), tuple(g.done() for g in o._getters),
                    tuple((it, f.done()) for it, f in o._putters), o._unfinished_tasks,
                    o._finished.is_set())


def make_ref(spec, policy="insert_then_get"):
    fam = spec[0]
    if fam == "sem":
        return RefSem(spec[1])
    if fam == "bsem":
        return RefSem(spec[1], bounded=True)
    if fam == "lock":
        return RefSem(1, bounded=True, lock=True)
    if fam == "cond":
        return RefCond()
    if fam == "event":
        return RefEvent()
    if fam == "queue":
        return RefQueue(spec[1], spec[2], policy)


class Mismatch(Exception):
    def __init__(self, step, what, got, want):
        self.step, self.what, self.got, self.want = step, what, got, want
        super().__init__("step %d: %s: real %r, reference %r" % (step, what, got, want))


def run_history(spec, hist, policy="insert_then_get"):
    """Replay hist on a fresh real object and a fresh reference.  Raises
    Mismatch at the first difference; returns (canon, nfuts, errs)."""
    ref = make_ref(spec, policy)
    with World() as w:
        real = RealAdapter(spec, w)
        for step, op in enumerate(hist):
            if op[0] == "adv":
                ref.advance()
                w.advance(STEP)
                w.pump()
                rr = rw = None
            elif op[0] == "cancel":
                rw = ref.cancel_nth(op[1])
                rr = real.cancel_nth(op[1])
                w.pump()
            elif op[0] == "burst":
                # several operations within one loop iteration: the loop does not run between them
                rw, rr = [], []
                for sub in op[1]:
                    if sub[0] == "cancel":          # the caller gives up on a pending future, still in the same iteration
                        rw.append(ref.cancel_nth(sub[1]))
                        rr.append(real.cancel_nth(sub[1]))
                        continue
                    rw.append(ref.apply(sub))
                    rr.append(real.apply(sub))
                w.pump()
            else:
                rw = ref.apply(op)
                rr = real.apply(op)
                w.pump()
            # zero timeouts expire without time passing
            ref.fire_due()
            w.advance(0)
            w.pump()
            if rr != rw:
                raise Mismatch(step, "result of %r" % (op,), rr, rw)
            got = [fstate(f) for f in real.futs]
            if got != ref.futs:
                raise Mismatch(step, "futures after %r" % (op,), got, list(ref.futs))
            if real.probes() != ref.probes():
                raise Mismatch(step, "probes after %r" % (op,), real.probes(), ref.probes())
            ref.invariants()
        errs = [str(c.get("message")) for c in w.loop_errors()] if hist else []
        if errs:
            raise Mismatch(len(hist) - 1, "loop exception handler", errs, [])
        timers = tuple(sorted(round(t[0] - w.loop.vtime, 3) for t in w.loop.timers()))
        kinds = tuple(real.kinds[i] for i, f in enumerate(real.futs) if not f.done())
        canon = (real.internal(), ref.remaining(), timers, kinds)
        return canon, len(real.futs)


def bfs(spec, ops, first_ops, depth, st, policies=("insert_then_get",), sig_prefix=""):
    """Explicit-state BFS over histories starting with each op in first_ops.
    A history that mismatches under every accepted policy is a violation."""
    from mc.core import h
    seen = set()
    frontier = [(op,) for op in first_ops]
    while frontier:
        nxt = []
        for hist in frontier:
            st.ev()
            st.transitions += 1
            res = None
            last = None
            for pol in policies:
                try:
                    res = run_history(spec, hist, pol)
                    break
                except Mismatch as m:
                    last = m
            if res is None:
                if last.step == len(hist) - 1:
                    sig = "%s%s:%s:%s" % (sig_prefix, spec[0], hist[-1][0], last.what.split(" ")[0])
                    st.violation(sig, "%r history %r: %s" % (spec, list(hist), last),
                                 {"spec": spec, "hist": list(hist)})
                continue
            canon, nf = res
            key = h((spec, canon))
            if key in seen:
                continue
            seen.add(key)
            st.states.add(key)
            st.outcome(repr(canon[0])[:80])
            if canon[3] or any(o[0] in ("cancel", "adv") for o in hist):
                st.nontriv(key)
            if len(st.samples) < 2 and len(hist) >= 4:
                st.sample({"spec": spec, "history": list(hist), "state": repr(canon)})
            if len(hist) < depth:
                for op in ops:
                    nxt.append(hist + (op,))
        frontier = nxt


def burst_family(spec, prefix_ops, sync_ops, maxlen, st, policies=("insert_then_get",), sig_prefix="", part=None):
    """Every history [one optional prefix operation] + [one burst of 2..maxlen operations from sync_ops executed in
    the same loop iteration]; compared with the reference after the loop has run."""
    import itertools
    from mc.core import h
    k = 0
    for pre in [()] + [(op,) for op in prefix_ops]:
        for n in range(2, maxlen + 1):
            for seq in itertools.product(sync_ops, repeat=n):
                k += 1
                if part is not None and k % part[1] != part[0]:
                    continue
                hist = pre + (("burst", seq),)
                st.ev()
                st.transitions += n + len(pre)
                res = last = None
                for pol in policies:
                    try:
                        res = run_history(spec, hist, pol)
                        break
                    except Mismatch as m:
                        last = m
                if res is None:
                    sig = "%s%s:burst:%s" % (sig_prefix, spec[0], last.what.split(" ")[0])
                    st.violation(sig, "%r history %r (the burst runs within one loop iteration): %s" % (spec, list(hist), last),
                                 {"spec": spec, "hist": [list(o) if o[0] != "burst" else ["burst", [list(x) for x in o[1]]] for o in hist]})
                    continue
                key = h((spec, "burst", res[0]))
                st.states.add(key)
                st.nontriv(key)
                st.outcome(repr(res[0][0])[:80])
