"""Template-language generator and reference interpreter shared by C19 / C20.

* an explicit AST for Tornado's template language,
* ``render_world``: AST -> template source text (plus the list of ill-formed
  constructs it contains, with the line each one is on),
* ``Interp``: a direct interpreter of the AST written from the documentation
  (module docstring of tornado/template.py, ``filter_whitespace`` docstring,
  docs/guide/templates.rst).  It never imports tornado.template,
* bounded exhaustive enumerators over the AST grammar,
* ``run_real``: compile + generate with the real tornado.template.

AST (plain tuples, JSON round-trippable through ``detuple``):
  ("text", s)                 literal text (never contains "{{", "{%", "{#")
  ("lit", "{{"|"{%"|"{#")     escape sequence, source "{{!" / "{%!" / "{#!"
  ("expr", src, pad)          {{ src }}  (pad: "" or " ")
  ("raw", src)  ("module", src)  ("set", name, src)  ("import", stmt)
  ("cmt", "#"|"%", body)      {# body #} / {% comment body %}
  ("break",) ("continue",)
  ("autoescape", name)  ("whitespace", mode)
  ("include", fname)  ("extends", fname)
  ("if", cond, body, clauses)          clauses: ("elif", cond, body) ("else", body)
  ("for", var, seq, body, clauses)     clauses: ("else", body)
  ("while", cond, body, clauses)
  ("try", body, clauses)               ("except", type_src, body) ("else", body) ("finally", body)
  ("apply", fn, body)  ("block", name, body)
  ("bad", kind[, arg])        ill-formed tag (see BAD_SRC)
  ("noend", container)        container rendered without its {% end %}
A *world* is {"mode": "loader"|"direct", "entry": name, "files": {name: body},
"lkw": DictLoader kwargs, "tkw": Template kwargs, "vals": {name: value-kind},
"lns": bool (functions passed through the loader namespace)}.
"""
import itertools
import logging
import re

WS_CHARS = " \t\n\r\x0b\x0c"

# --------------------------------------------------------------------------
# namespace the templates run in (fresh per execution: Counter is stateful)


class Obj:
    def __init__(self, s):
        self.s = s

    def __str__(self):
        return self.s


class StrSub(str):
    """str subclass whose __str__ lies; the value *is* the string content."""

    def __str__(self):
        return "harmless"


class BytesSub(bytes):
    def __str__(self):
        return "harmless"


class IntSub(int):
    def __str__(self):
        return "<i&\"'>%d" % int(self)


class ExcStr:
    def __str__(self):
        raise KeyError("str")


class Counter:
    """c.tick() is true the first `limit` times (bounded while loops)."""

    def __init__(self, limit=2):
        self.n = 0
        self.limit = limit

    def tick(self):
        self.n += 1
        if self.n > 40:
            raise RuntimeError("runaway loop")
        return self.n <= self.limit


class Modules:
    def M(self, x="<m&>"):
        return x

    def B(self):
        return b"<mb&>"


def _u(x):
    return x.decode("utf-8") if isinstance(x, bytes) else x


def wrap(x):
    return "[" + _u(x) + "]"


def up(x):
    return _u(x).upper()


def drop(x):
    return b""


def esc2(x):
    x = _u(x)
    for a, b in (("(", "(("), ("&", "(amp)"), ("<", "(lt)"), (">", "(gt)"),
                 ('"', "(dq)"), ("'", "(sq)")):
        x = x.replace(a, b)
    return x


FUNCS = {"wrap": wrap, "up": up, "drop": drop, "esc2": esc2}

SPECIALS = "<&\"'>"


def make_value(kind, k):
    """Adversarial value of the given kind carrying the unique marker K<k>."""
    core = "%sK%d%s" % (SPECIALS, k, SPECIALS)
    if kind == "str":
        return core
    if kind == "bytes":
        return core.encode() + b"\xc3\xa9"
    if kind == "obj":
        return Obj(core)
    if kind == "strsub":
        return StrSub(core)
    if kind == "bytessub":
        return BytesSub(core.encode())
    if kind == "list":
        return [core]
    if kind == "bytearray":
        return bytearray(core.encode())
    if kind == "intsub":
        return IntSub(k)
    if kind == "badbytes":
        return core.encode() + b"\xff"
    if kind == "excstr":
        return ExcStr()
    if kind == "none":
        return None
    if kind == "many-specials":
        # forty special characters before the marker: escaping does not stop after the first few dozen
        return "%sK%d%s" % (SPECIALS * 8, k, SPECIALS)
    if kind in ONE_SPECIAL:
        # a value whose only special character is one of the five (an escaper that special-cases
        # "nothing to escape" must still treat each of them alone)
        c = ONE_SPECIAL[kind]
        return "%sK%d%s" % (c, k, c)
    raise AssertionError(kind)


ONE_SPECIAL = {"only-apos": "'", "only-quot": '"', "only-lt": "<", "only-gt": ">", "only-amp": "&"}
VALUE_KINDS = ["str", "bytes", "obj", "strsub", "bytessub", "list", "bytearray",
               "intsub", "badbytes", "excstr", "none", "many-specials"] + sorted(ONE_SPECIAL)


def make_ns(vals=None, with_funcs=True):
    ns = {
        "s": "a<b>&\"'c", "b": b"<\xc3\xa9&>", "o": Obj("<o&\"'>"), "n": 7, "z": 0,
        "xs": ["<1>", "é&"], "e0": (), "c": Counter(2),
        "_tt_modules": Modules(),
    }
    if with_funcs:
        ns.update(FUNCS)
    for name, kind in (vals or {}).items():
        ns[name] = make_value(kind, int(name[1:]))
    return ns


# --------------------------------------------------------------------------
# helpers

def detuple(x):
    """JSON gives lists back; the AST uses tuples."""
    if isinstance(x, (list, tuple)):
        return tuple(detuple(v) for v in x)
    return x


def norm_world(w):
    w = dict(w)
    w["files"] = {k: detuple(v) for k, v in w["files"].items()}
    w.setdefault("lkw", {})
    w.setdefault("tkw", {})
    w.setdefault("vals", {})
    w.setdefault("mode", "loader")
    return w


CONTAINERS = ("if", "for", "while", "try", "apply", "block")


def parts_of(node):
    """(body, clauses) of a container node."""
    k = node[0]
    if k in ("if", "while"):
        return node[2], node[3]
    if k == "for":
        return node[3], node[4]
    if k == "try":
        return node[1], node[2]
    return node[2], ()


def rebuild(node, body, clauses):
    k = node[0]
    if k in ("if", "while"):
        return (k, node[1], body, clauses)
    if k == "for":
        return (k, node[1], node[2], body, clauses)
    if k == "try":
        return (k, body, clauses)
    return (k, node[1], body)


def clause_body(cl):
    return cl[-1]


def open_tag(node):
    k = node[0]
    if k == "if":
        return "{%% if %s %%}" % node[1] if node[1] else "{% if %}"
    if k == "while":
        return "{%% while %s %%}" % node[1] if node[1] else "{% while %}"
    if k == "for":
        return "{%% for %s in %s %%}" % (node[1], node[2])
    if k == "try":
        return "{% try %}"
    if k == "apply":
        return "{%% apply %s %%}" % node[1] if node[1] else "{% apply %}"
    if k == "block":
        return "{%% block %s %%}" % node[1] if node[1] else "{% block %}"
    raise AssertionError(node)


def clause_tag(cl):
    k = cl[0]
    if k == "else":
        return "{% else %}"
    if k == "elif":
        return "{%% elif %s %%}" % cl[1]
    if k == "except":
        return "{%% except %s %%}" % cl[1] if cl[1] else "{% except %}"
    if k == "finally":
        return "{% finally %}"
    raise AssertionError(cl)


BAD_SRC = {
    # kind -> (source, error class, terminator that must not follow)
    "op": ("{% foo %}", "unknown-operator", None),
    "op2": ("{% endif %}", "unknown-operator", None),
    "empty_block": ("{% %}", "empty-tag", None),
    "empty_block0": ("{%%}", "empty-tag", None),
    "empty_expr": ("{{ }}", "empty-expression", None),
    "empty_expr0": ("{{}}", "empty-expression", None),
    "unterm_expr": ("{{ s", "missing-terminator", "}}"),
    "unterm_block": ("{% if n", "missing-terminator", "%}"),
    "unterm_cmt": ("{# c", "missing-terminator", "#}"),
    "extra_end": ("{% end %}", "extra-end", None),
    "else": ("{% else %}", "intermediate-outside", None),
    "elif": ("{% elif n %}", "intermediate-outside", None),
    "except": ("{% except %}", "intermediate-outside", None),
    "finally": ("{% finally %}", "intermediate-outside", None),
}
# where an intermediate tag is legal (then it is not an error node)
INTER_OK = {"else": {"if", "for", "while", "try"}, "elif": {"if"},
            "except": {"try"}, "finally": {"try"}}


# --------------------------------------------------------------------------
# AST -> source

class FileSrc:
    def __init__(self, name):
        self.name = name
        self.buf = []
        self.pos = 0
        self.last = ""
        self.errors = []      # (class, start_offset, "tag"|"to_eof")
        self.unterm = []      # (terminator, offset after the opener)
        self.either = set()
        self.refs = []        # ("include"|"extends", fname)
        self.features = set()

    def text(self, s):
        if s:
            self.buf.append(s)
            self.pos += len(s)
            self.last = s[-1]

    def tag(self, s):
        if self.last == "{":
            # "{" + "{{ x }}" is "{{{ x }}": the docs do not say how three
            # braces in a row are read.
            self.either.add("brace-adjacent-to-tag")
        off = self.pos
        self.text(s)
        return off

    def err(self, cls, off, how="tag"):
        self.errors.append((cls, off, how))


def _render_body(fs, body, loop, parent):
    """loop: "no" | "yes" | "apply" (a loop exists outside an apply block)
    parent: kind of the directly enclosing container or None (file level)."""
    prev_text = False
    for node in body:
        k = node[0]
        if k == "text":
            s = node[1]
            assert "{{" not in s and "{%" not in s and "{#" not in s, s
            if prev_text:
                fs.either.add("adjacent-text")   # not canonical; never generated
            if fs.last == "{" and s[:1] in ("{", "%", "#"):
                fs.either.add("brace-adjacent-to-tag")
            fs.text(s)
            prev_text = True
            continue
        prev_text = False
        if k == "lit":
            fs.tag(node[1] + "!")
            fs.features.add("lit")
        elif k == "expr":
            off = fs.tag("{{%s%s%s}}" % (node[2], node[1], node[2]))
            if not node[1].strip():
                fs.err("empty-expression", off)
        elif k == "raw":
            fs.tag("{%% raw %s %%}" % node[1])
            if not node[1]:
                fs.either.add("raw-without-expression")
        elif k == "module":
            fs.tag("{%% module %s %%}" % node[1])
            if not node[1]:
                fs.either.add("module-without-expression")
        elif k == "set":
            off = fs.tag("{%% set %s %%}" % (("%s = %s" % (node[1], node[2])) if node[1] else ""))
            if not node[1]:
                fs.err("missing-argument", off)
        elif k == "import":
            off = fs.tag("{%% %s %%}" % node[1])
            if node[1] in ("import", "from"):
                fs.err("missing-argument", off)
        elif k == "cmt":
            if node[1] == "#":
                fs.tag("{#%s#}" % node[2])
            else:
                fs.tag("{%% comment%s %%}" % node[2])
        elif k in ("break", "continue"):
            off = fs.tag("{%% %s %%}" % k)
            if loop == "no":
                fs.err("break-outside-loop", off)
            elif loop == "apply":
                fs.either.add("break-inside-apply")
            elif loop == "else":
                fs.either.add("break-in-loop-else")
        elif k == "autoescape":
            fs.tag("{%% autoescape %s %%}" % node[1])
            if not node[1]:
                fs.either.add("autoescape-without-name")
        elif k == "whitespace":
            fs.tag("{%% whitespace %s %%}" % node[1])
            if node[1] not in ("all", "single", "oneline"):
                fs.either.add("whitespace-unknown-mode")
        elif k in ("include", "extends"):
            q = node[2] if len(node) > 2 else '"'
            off = fs.tag("{%% %s %s%s%s %%}" % (k, q, node[1], q))
            if not node[1]:
                fs.err("missing-argument", off)
            else:
                fs.refs.append((k, node[1]))
                if k == "extends" and parent is not None:
                    fs.either.add("extends-inside-block")
        elif k == "bad":
            src, cls, term = BAD_SRC[node[1]]
            if node[1] in INTER_OK and parent in INTER_OK[node[1]]:
                fs.either.add("stray-intermediate-in-legal-parent")
            if node[1] == "extra_end" and parent is not None:
                fs.either.add("extra-end-inside-block")
            off = fs.tag(src)
            fs.err(cls, off)
            if term:
                fs.unterm.append((term, fs.pos))
        elif k == "noend":
            inner = node[1]
            off = _render_container(fs, inner, loop, end=False)
            fs.err("missing-end", off, "to_eof")
        elif k in CONTAINERS:
            _render_container(fs, node, loop, end=True)
        else:
            raise AssertionError(node)


def _render_container(fs, node, loop, end):
    k = node[0]
    body, clauses = parts_of(node)
    off = fs.tag(open_tag(node))
    fs.features.add(k)
    if k in ("apply", "block") and not node[1]:
        fs.err("missing-argument", off)
    if k in ("if", "while") and not node[1]:
        fs.either.add("control-without-expression")
    if k in ("for", "while"):
        inner = "yes"
    elif k == "apply":
        inner = "no" if loop == "no" else "apply"
    else:
        inner = loop
    _render_body(fs, body, inner, k)
    seen = []
    for cl in clauses:
        ck = cl[0]
        fs.tag(clause_tag(cl))
        fs.features.add(k + "-" + ck)
        # clause orders Python does not accept are not diagnosed by the
        # template docs either way
        if ck not in INTER_OK or k not in INTER_OK[ck]:
            fs.either.add("clause-not-allowed")
        if k == "if" and ("else" in seen):
            fs.either.add("clause-after-else")
        if k in ("for", "while") and seen:
            fs.either.add("clause-after-else")
        if k == "try":
            order = {"except": 0, "else": 1, "finally": 2}
            if seen and order[ck] < order[seen[-1]] or (ck != "except" and ck in seen):
                fs.either.add("try-clause-order")
            if ck == "else" and "except" not in seen:
                fs.either.add("try-else-without-except")
            if ck == "except" and "except" in seen and any(
                    c[0] == "except" and not c[1] for c in clauses[:len(seen)]):
                fs.either.add("except-after-bare-except")
        seen.append(ck)
        if k in ("for", "while"):
            # a break in a loop's else clause belongs to the outer loop (Python);
            # without an outer loop the docs say nothing
            cl_loop = "else" if loop == "no" else loop
        else:
            cl_loop = inner
        _render_body(fs, clause_body(cl), cl_loop, k)
    if k == "try" and not clauses:
        fs.either.add("try-without-clauses")
    if end:
        fs.tag("{% end %}")
    return off


def render_file(name, body):
    fs = FileSrc(name)
    _render_body(fs, body, "no", None)
    fs.src = "".join(fs.buf)
    for term, after in fs.unterm:
        if fs.src.find(term, after) != -1:
            fs.either.add("unterminated-tag-finds-later-terminator")
    eof_line = fs.src.count("\n") + 1
    fs.err_lines = {}
    for cls, off, how in fs.errors:
        line = fs.src.count("\n", 0, off) + 1
        lines = range(line, eof_line + 1) if how == "to_eof" else (line,)
        for ln in lines:
            fs.err_lines.setdefault(ln, cls)
    return fs


def render_world(world):
    return {name: render_file(name, body) for name, body in world["files"].items()}


# --------------------------------------------------------------------------
# static analysis of a well-formed world: classes the docs leave open

def _walk(body, fn, path=()):
    for node in body:
        fn(node, path)
        if node[0] == "noend":
            node = node[1]
        if node[0] in CONTAINERS:
            b, cls = parts_of(node)
            _walk(b, fn, path + (node[0],))
            for cl in cls:
                _walk(clause_body(cl), fn, path + (node[0] + "-" + cl[0],))


def reachable(world, rend):
    seen, todo = [], [world["entry"]]
    while todo:
        f = todo.pop()
        if f in seen:
            continue
        seen.append(f)
        if f in rend:
            todo.extend(t for _, t in rend[f].refs)
    return seen


def static_either(world, rend, files):
    """Classes of well-formed-looking templates whose meaning the
    documentation does not fix.  Returns a set of class names."""
    either = set()
    ns_names = set(make_ns(world.get("vals")))
    for f in files:
        if f not in world["files"]:
            either.add("reference-to-missing-file")
            return either
    for f in files:
        body = world["files"][f]
        n_auto, n_ext, ext_first = [0], [0], [True]

        def visit(node, path):
            if node[0] == "autoescape":
                n_auto[0] += 1
            if node[0] == "extends":
                n_ext[0] += 1
            if node[0] == "set" and node[1] in ns_names:
                either.add("set-shadows-namespace-name")
            if node[0] == "for" and node[1] in ns_names:
                either.add("set-shadows-namespace-name")
            if node[0] == "text" and "<pre>" in node[1]:
                either.add("_pre")          # handled by the two-valued oracle
        _walk(body, visit)
        if n_auto[0] > 1:
            either.add("several-autoescape-directives")
        if n_ext[0] > 1:
            either.add("several-extends")
    if world["mode"] == "direct" and len(files) > 1:
        either.add("include-without-loader")
    # include cycles / extends cycles
    def cyc(f, stack):
        if f in stack:
            return True
        return any(cyc(t, stack + [f]) for _, t in rend[f].refs)
    if cyc(world["entry"], []):
        either.add("recursive-include")
        return either
    # block names: duplicates inside one inheritance level, or overriding
    # through an included file
    chain = [world["entry"]]
    while True:
        ext = [t for k, t in rend[chain[-1]].refs if k == "extends"]
        if not ext:
            break
        chain.append(ext[0])
    level_names = []
    for f in chain:
        own, inc = [], []

        def coll(fname, into_inc):
            def visit(node, path):
                if node[0] == "block":
                    (inc if into_inc else own).append(node[1])
                if node[0] == "include":
                    coll(node[1], True)
            _walk(world["files"][fname], visit)
        coll(f, False)
        names = own + inc
        if len(names) != len(set(names)):
            either.add("duplicate-block-name")
        level_names.append((set(own), set(inc)))
    for i, (own, inc) in enumerate(level_names):
        for j, (own2, inc2) in enumerate(level_names):
            if i != j and (inc & (own2 | inc2)):
                either.add("block-override-through-include")
    # files that are included but themselves extend something
    inc_targets = {t_ for f in files for k_, t_ in rend[f].refs if k_ == "include"}
    for f in inc_targets:
        if any(k == "extends" for k, _ in rend[f].refs):
            either.add("included-file-extends")
    # variable scoping across apply blocks (documented as "may interact strangely"):
    # an apply body is a separate scope that is re-created on every execution
    assigns, reads = {}, []
    blocks = resolve_blocks(world, chain)
    counter = itertools.count(1)
    tracked = ("v", "i", "w")

    def rd(src, scope, loops):
        for name in tracked:
            if _mentions(src, name):
                reads.append((name, scope, loops))

    def scope_walk(fname, body, scope, loops):
        for node in body:
            k = node[0]
            if k in ("expr", "raw", "module"):
                rd(node[1], scope, loops)
            elif k == "set":
                rd(node[2], scope, loops)
                assigns.setdefault(node[1], set()).add((scope, None))
            elif k == "include":
                scope_walk(node[1], world["files"][node[1]], scope, loops)
            elif k == "block":
                bf, bb = blocks[node[1]]
                scope_walk(bf, bb, scope, loops)
            elif k == "apply":
                rd(node[1], scope, loops)
                scope_walk(fname, node[2], scope + (next(counter),), loops)
            elif k in CONTAINERS:
                b, cls = parts_of(node)
                inner = loops
                if k == "for":
                    rd(node[2], scope, loops)
                    lid = next(counter)
                    assigns.setdefault(node[1], set()).add((scope, lid))
                    inner = loops | {lid}
                elif k in ("if", "while"):
                    rd(node[1], scope, loops)
                scope_walk(fname, b, scope, inner)
                for cl in cls:
                    if cl[0] == "elif":
                        rd(cl[1], scope, loops)
                    scope_walk(fname, clause_body(cl), scope, loops)
    scope_walk(chain[-1], world["files"][chain[-1]], (), frozenset())
    for name, sites in assigns.items():
        scopes = {sc for sc, _ in sites}
        if len(scopes) > 1:
            either.add("apply-scoping")
            continue
        (sc,) = scopes
        for rname, rscope, rloops in reads:
            if rname != name:
                continue
            if rscope[:len(sc)] != sc:
                either.add("apply-scoping")
            elif sc != () and not all(lid is not None and lid in rloops for _, lid in sites):
                # assigned inside an apply body: only reads inside the body of
                # every assigning for loop see the same value in both readings
                either.add("apply-scoping")
    return either


def _mentions(src, name):
    return re.search(r"(?<![A-Za-z0-9_.])%s(?![A-Za-z0-9_])" % name, src) is not None


def resolve_blocks(world, chain):
    """name -> (file, body): the most derived definition wins."""
    blocks = {}

    def coll(fname):
        def visit(node, path):
            if node[0] == "block":
                blocks[node[1]] = (fname, node[2])
            if node[0] == "include" and node[1] in world["files"]:
                coll(node[1])
        _walk(world["files"][fname], visit)
    for f in reversed(chain):
        coll(f)
    return blocks


# --------------------------------------------------------------------------
# the reference interpreter

class _Brk(BaseException):
    pass


class _Cnt(BaseException):
    pass


def ref_filter_whitespace(mode, text):
    """filter_whitespace docstring: all = unmodified; single = collapse
    consecutive whitespace to one whitespace character, preserving newlines;
    oneline = every run of whitespace becomes one space."""
    if mode == "all":
        return text
    out, i, n = [], 0, len(text)
    while i < n:
        if text[i] in WS_CHARS:
            j = i
            while j < n and text[j] in WS_CHARS:
                j += 1
            run = text[i:j]
            if mode == "single" and "\n" in run:
                out.append("\n")
            else:
                out.append(" ")
            i = j
        else:
            out.append(text[i])
            i += 1
    return "".join(out)


def ref_xhtml_escape(s):
    """tornado.escape.xhtml_escape docstring: escapes < > " ' & ; single
    quote as &#x27; (6.4)."""
    return (s.replace("&", "&amp;").replace("<", "&lt;").replace(">", "&gt;")
            .replace('"', "&quot;").replace("'", "&#x27;"))


def _to_bytes(v):
    if isinstance(v, bytes):
        return bytes(v)
    if isinstance(v, str):
        return str.encode(v, "utf-8")
    raise TypeError("Expected bytes, unicode, or None; got %r" % type(v))


def default_ws(world, fname):
    if world["mode"] == "direct":
        kw = world["tkw"]
        if "compress_whitespace" in kw:
            return "single" if kw["compress_whitespace"] else "all"
        if kw.get("whitespace"):
            return kw["whitespace"]
        fname = kw.get("name", "<string>")
    elif world["lkw"].get("whitespace"):
        return world["lkw"]["whitespace"]
    return "single" if (fname.endswith(".html") or fname.endswith(".js")) else "all"


def default_autoescape(world, fname=None):
    if world["mode"] == "direct":
        return world["tkw"].get("autoescape", "xhtml_escape")
    if world["mode"] == "both" and fname == world["entry"] and "autoescape" in world["tkw"]:
        # Template(source, loader=..., autoescape=...): the explicit argument wins for that one template,
        # files the loader loads keep the loader's setting
        return world["tkw"]["autoescape"]
    return world["lkw"].get("autoescape", "xhtml_escape")


class Interp:
    def __init__(self, world, ns, pre_exempt=False):
        self.w = world
        self.env = dict(ns)
        self.pre_exempt = pre_exempt
        self.trace = []          # (bytes before escaping, file, escape fn or None, "expr"|"raw"|"module")
        self.ws = {}             # file -> annotated body
        self.auto = {}           # file -> escape function name or None
        self.executed = set()

    # -- per-file settings ------------------------------------------------
    def prepare(self, fname):
        if fname in self.ws:
            return
        mode = [default_ws(self.w, fname)]
        auto = [default_autoescape(self.w, fname)]

        def ann(body):
            out = []
            for node in body:
                k = node[0]
                if k == "text":
                    out.append(("text", node[1], mode[0]))
                elif k == "whitespace":
                    mode[0] = node[1]
                elif k == "autoescape":
                    auto[0] = None if node[1] == "None" else node[1]
                elif k in CONTAINERS:
                    b, cls = parts_of(node)
                    nb = ann(b)
                    ncl = []
                    for cl in cls:
                        ncl.append(cl[:-1] + (ann(cl[-1]),))
                    out.append(rebuild(node, nb, tuple(ncl)))
                else:
                    out.append(node)
            return tuple(out)
        self.ws[fname] = ann(self.w["files"][fname])
        self.auto[fname] = auto[0]

    # -- entry point --------------------------------------------------------
    def run(self):
        w = self.w
        chain = [w["entry"]]
        while True:
            self.prepare(chain[-1])
            ext = [n[1] for n in w["files"][chain[-1]] if n[0] == "extends"]
            if not ext:
                break
            chain.append(ext[0])
        self.blocks = {}

        def coll(fname):
            self.prepare(fname)

            def visit(node, path):
                if node[0] == "block":
                    self.blocks[node[1]] = (fname, node[2])
                if node[0] == "include":
                    coll(node[1])
            _walk(self.ws[fname], visit)
        for f in reversed(chain):
            coll(f)
        out = []
        self.body(self.ws[chain[-1]], chain[-1], out)
        return b"".join(out)

    # -- evaluation -----------------------------------------------------------
    def ev(self, src):
        return eval(src, self.env)

    def emit_value(self, src, fname, kind, out):
        v = self.ev(src)
        if isinstance(v, (str, bytes)):
            data = _to_bytes(v)
        else:
            data = _to_bytes(str(v))
        fn = self.auto[fname] if kind == "expr" else None
        self.trace.append((data, fname, fn, kind))
        if fn is not None:
            if fn == "xhtml_escape" or fn == "escape":
                data = ref_xhtml_escape(data.decode("utf-8")).encode("utf-8")
            else:
                data = _to_bytes(self.ev(fn)(data))
        out.append(data)

    def body(self, body, fname, out):
        for node in body:
            self.node(node, fname, out)

    def node(self, node, fname, out):
        k = node[0]
        if k == "text":
            s = node[1]
            if not (self.pre_exempt and "<pre>" in s):
                s = ref_filter_whitespace(node[2], s)
            out.append(s.encode("utf-8"))
        elif k == "lit":
            out.append(node[1].encode())
        elif k == "expr":
            self.emit_value(node[1], fname, "expr", out)
        elif k == "raw":
            self.emit_value(node[1], fname, "raw", out)
        elif k == "module":
            self.emit_value("_tt_modules." + node[1], fname, "module", out)
        elif k == "set":
            self.env[node[1]] = self.ev(node[2])
        elif k == "import":
            exec(node[1], self.env)
        elif k in ("cmt", "extends"):
            pass
        elif k == "break":
            raise _Brk()
        elif k == "continue":
            raise _Cnt()
        elif k == "include":
            self.prepare(node[1])
            self.body(self.ws[node[1]], node[1], out)
        elif k == "block":
            bf, bb = self.blocks[node[1]]
            self.body(bb, bf, out)
        elif k == "apply":
            sub = []
            self.body(node[2], fname, sub)
            res = self.ev(node[1])(b"".join(sub))
            out.append(_to_bytes(res))
        elif k == "if":
            if self.ev(node[1]):
                self.body(node[2], fname, out)
                return
            for cl in node[3]:
                if cl[0] == "else" or self.ev(cl[1]):
                    self.body(cl[-1], fname, out)
                    return
        elif k == "for":
            broke = False
            for item in self.ev(node[2]):
                self.env[node[1]] = item
                try:
                    self.body(node[3], fname, out)
                except _Brk:
                    broke = True
                    break
                except _Cnt:
                    continue
            if not broke:
                for cl in node[4]:
                    self.body(cl[-1], fname, out)
        elif k == "while":
            broke = False
            while self.ev(node[1]):
                try:
                    self.body(node[2], fname, out)
                except _Brk:
                    broke = True
                    break
                except _Cnt:
                    continue
            if not broke:
                for cl in node[3]:
                    self.body(cl[-1], fname, out)
        elif k == "try":
            self.try_(node, fname, out)
        else:
            raise AssertionError(node)

    def try_(self, node, fname, out):
        clauses = node[2]
        fin = [c for c in clauses if c[0] == "finally"]
        pending = None
        try:
            try:
                self.body(node[1], fname, out)
            except (_Brk, _Cnt):
                raise
            except BaseException as e:
                for cl in clauses:
                    if cl[0] == "except":
                        if not cl[1] or isinstance(e, self.ev(cl[1])):
                            self.body(cl[-1], fname, out)
                            break
                else:
                    raise
            else:
                for cl in clauses:
                    if cl[0] == "else":
                        self.body(cl[-1], fname, out)
        except BaseException as e:
            pending = e
        for cl in fin:
            self.body(cl[-1], fname, out)
        if pending is not None:
            raise pending


# --------------------------------------------------------------------------
# expected result

def exc_name(e):
    if isinstance(e, NameError):
        return "NameError"          # UnboundLocalError is a NameError
    return type(e).__name__


def expected(world):
    """-> dict(kind=..., ...):
       kind "perr":   ParseError; allowed {(file, line): class}
       kind "either": docs do not define the case; classes
       kind "ok":     outputs (set of acceptable byte strings)
       kind "exc":    exception type name
    plus "rend" (rendered sources)."""
    rend = render_world(world)
    files = reachable(world, rend)
    res = {"rend": rend, "files": files}
    either = set()
    for f in files:
        if f in rend:
            either |= rend[f].either
    errs = {}
    for f in files:
        if f in rend:
            for ln, cls in rend[f].err_lines.items():
                errs[(f, ln)] = cls
    if not either and not errs:
        either |= static_either(world, rend, files)
    elif not either and any(f not in rend for f in files):
        either.add("reference-to-missing-file")
    pre = "_pre" in either
    either.discard("_pre")
    if either:
        res.update(kind="either", classes=sorted(either))
        return res
    if errs:
        res.update(kind="perr", allowed=errs)
        return res
    outs, excs, trace = set(), set(), None
    for pre_exempt in ((False, True) if pre else (False,)):
        it = Interp(world, make_ns(world.get("vals")), pre_exempt)
        try:
            outs.add(it.run())
        except (_Brk, _Cnt):
            raise AssertionError("break escaped: generator bug")
        except Exception as e:
            excs.add(exc_name(e))
        trace = it.trace
    res["trace"] = trace
    res["pre"] = pre
    if excs and outs:
        res.update(kind="either", classes=["pre-heuristic-changes-exception"])
    elif excs:
        res.update(kind="exc", exc=sorted(excs)[0])
    else:
        res.update(kind="ok", outs=outs)
    return res


# --------------------------------------------------------------------------
# the real thing

class _Quiet:
    """Silence tornado.application (compile errors log the generated code)."""

    def __enter__(self):
        self.lg = logging.getLogger("tornado.application")
        self.saved = (self.lg.handlers[:], self.lg.propagate, self.lg.disabled)
        self.lg.handlers[:] = [logging.NullHandler()]
        self.lg.propagate = False
        return self

    def __exit__(self, *a):
        self.lg.handlers[:], self.lg.propagate, self.lg.disabled = self.saved


def run_real(world, rend):
    """Compile and generate with tornado.template.  -> ("ok", bytes) |
    ("perr", filename, lineno, message) | ("exc", type name, text)"""
    from tornado import template
    tmpd = None
    try:
        return _run_real(world, rend)
    finally:
        tmpd = _TMPD.pop() if _TMPD else None
        if tmpd:
            import shutil
            shutil.rmtree(tmpd, ignore_errors=True)


_TMPD = []


def _run_real(world, rend):
    from tornado import template
    ns = make_ns(world.get("vals"), with_funcs=not world.get("lns"))
    srcs = {name: fs.src for name, fs in rend.items()}
    if world.get("bsrc"):       # template text given as UTF-8 bytes
        srcs = {name: s.encode("utf-8") for name, s in srcs.items()}
    try:
        if world["mode"] == "direct":
            t = template.Template(srcs[world["entry"]], **world["tkw"])
        elif world["mode"] == "both":
            lkw = dict(world["lkw"])
            if world.get("lns"):
                lkw["namespace"] = dict(FUNCS)
            loader = template.DictLoader(srcs, **lkw)
            t = template.Template(srcs[world["entry"]], name=world["entry"], loader=loader, **world["tkw"])
        else:
            lkw = dict(world["lkw"])
            if world.get("lns"):
                lkw["namespace"] = dict(FUNCS)
            if world.get("fsl"):
                # the same files on disk, read by the filesystem Loader
                import os
                import tempfile
                tmpd = tempfile.mkdtemp(prefix="verif-c19-")
                _TMPD.append(tmpd)
                for name, src in srcs.items():
                    path = os.path.join(tmpd, name)
                    os.makedirs(os.path.dirname(path), exist_ok=True)
                    with open(path, "wb") as f:
                        f.write(src if isinstance(src, bytes) else src.encode("utf-8"))
                loader = template.Loader(tmpd, **lkw)
            else:
                loader = template.DictLoader(srcs, **lkw)
            t = loader.load(world["entry"])
        out = t.generate(**ns)
        if not isinstance(out, bytes):
            return ("exc", "NotBytes", repr(type(out)))
        if world.get("regen"):
            # a Template object is cached by its loader and rendered many times: a call whose keyword arguments shadow
            # helper names for itself must not change what the next call renders
            shadow = {k: (lambda *a, **kw: a[0] if a else "") for k in
                      ("xhtml_escape", "escape", "url_escape", "json_encode", "squeeze", "linkify") + tuple(FUNCS)}
            try:
                t.generate(**dict(ns, **shadow))
            except Exception:
                pass
            ns2 = make_ns(world.get("vals"), with_funcs=not world.get("lns"))
            try:
                out2 = t.generate(**ns2)
            except Exception as e:
                return ("exc", "SecondRender:" + exc_name(e), str(e)[:200])
            if out2 != out:
                return ("exc", "SecondRenderDiffers", "first %r, after a call with shadowing kwargs %r" % (out[:80], out2[:80]))
        return ("ok", out)
    except template.ParseError as e:
        return ("perr", e.filename, e.lineno, e.message)
    except Exception as e:
        return ("exc", exc_name(e), str(e)[:200])


def real_filename(world, fname):
    if world["mode"] == "direct":
        return world["tkw"].get("name", "<string>")
    return fname


def judge(world, exp=None):
    """Run the real code on the world and compare with the reference.
    -> (verdict, exp, real); verdict None = agrees (or EITHER), else
    (category, message)."""
    exp = exp or expected(world)
    with _Quiet():
        real = run_real(world, exp["rend"])
        real_fs = None
        if (world["mode"] == "loader" and not world.get("fsl") and any("\r" in fs.src for fs in exp["rend"].values())
                and all(re.match(r"^[A-Za-z0-9_.-]+(/[A-Za-z0-9_.-]+)*$", n) for n in exp["rend"])):
            # carriage returns in the source: the filesystem Loader must hand the parser the same text as DictLoader
            real_fs = run_real(dict(world, fsl=True), exp["rend"])
            if real_fs[0] == "perr" and real[0] == "perr":
                real_fs = real          # (file names in the message may be spelled with the directory)
    if real_fs is not None and real_fs != real:
        return (("filesystem-loader-differs", "the same files loaded from disk give %r, from a DictLoader %r"
                 % (real_fs[:2] if real_fs[0] != "ok" else real_fs[1][:80], real[:2] if real[0] != "ok" else real[1][:80])),
                exp, real_fs)
    kind = exp["kind"]
    v = None
    if kind == "either":
        v = None
    elif kind == "perr":
        allowed = {(real_filename(world, f), ln): cls for (f, ln), cls in exp["allowed"].items()}
        classes = sorted(set(allowed.values()))
        cls = "+".join(classes)
        if real[0] != "perr":
            v = ("perr-missing:" + cls, "ill-formed template (%s) accepted: real %r" % (cls, real[:2]))
        elif (real[1], real[2]) not in allowed:
            if real[1] not in {f for f, _ in allowed}:
                v = ("perr-file:" + cls, "ParseError names file %r, expected %r" % (
                    real[1], sorted({f for f, _ in allowed})))
            else:
                v = ("perr-line:" + cls, "ParseError(%r) names line %r, the ill-formed tag is on line %r"
                     % (real[3], real[2], sorted(ln for _, ln in allowed)))
    elif kind == "ok":
        if real[0] == "ok":
            if real[1] not in exp["outs"]:
                strip = lambda b: bytes(c for c in b if c not in b" \t\n\r")
                cat = "output-ws" if strip(real[1]) in {strip(o) for o in exp["outs"]} else "output"
                v = (cat, "output %r, the template defines %r" % (real[1], sorted(exp["outs"])))
        elif real[0] == "perr":
            v = ("unexpected-perr:" + re.sub(r"[^A-Za-z ]", "", real[3])[:30].strip().replace(" ", "-"),
                 "well-formed template rejected: %r" % (real,))
        else:
            v = ("unexpected-exc:" + real[1], "template raised %r, defines output %r"
                 % (real[1:], sorted(exp["outs"])))
    elif kind == "exc":
        if real[0] != "exc" or real[1] != exp["exc"]:
            v = ("exc-mismatch:" + exp["exc"], "real %r, the template defines exception %s"
                 % (real[:2], exp["exc"]))
    return v, exp, real


def name_violation(world, category, judge_fn=None):
    """Shrink the world while the same category persists; -> (sig, world)."""
    judge_fn = judge_fn or judge

    def still_bad(w2):
        v = judge_fn(w2)[0]
        return v is not None and v[0] == category
    small = shrink_world(world, still_bad)
    return category + ":" + world_skeleton(small), small


def describe(world, exp=None):
    exp = exp or expected(world)
    lines = []
    for name, fs in exp["rend"].items():
        lines.append("--- file %r%s" % (name, " (entry)" if name == world["entry"] else ""))
        lines.append(repr(fs.src))
    lines.append("mode=%s lkw=%r tkw=%r vals=%r" % (world["mode"], world["lkw"], world["tkw"],
                                                    world.get("vals")))
    return "\n".join(lines)


# --------------------------------------------------------------------------
# enumeration

def weak_compositions(total, parts):
    if parts == 1:
        yield (total,)
        return
    for k in range(total + 1):
        for rest in weak_compositions(total - k, parts - 1):
            yield (k,) + rest


class Grammar:
    """leaves: nodes allowed anywhere; loop_leaves: additionally inside loops;
    heads: list of (kind, maker(body, clauses), patterns, body_loop) where a
    pattern is a tuple of clause prefixes (clause without its body) and
    body_loop is True for for/while, False for apply, None otherwise."""

    def __init__(self, leaves, loop_leaves, heads, maxdepth):
        self.leaves = list(leaves)
        self.loop_leaves = list(loop_leaves)
        self.heads = heads
        self.maxdepth = maxdepth
        self._n = {}
        self._b = {}

    def nodes(self, size, depth=None, inloop=False):
        """All nodes of exactly this size."""
        depth = self.maxdepth if depth is None else depth
        key = (size, depth, inloop)
        if key in self._n:
            return self._n[key]
        out = []
        if size == 1:
            out.extend(self.leaves)
            if inloop:
                out.extend(self.loop_leaves)
        if depth > 0:
            for kind, maker, patterns, body_loop in self.heads:
                bl = inloop if body_loop is None else body_loop
                cl_loop = inloop
                for pat in patterns:
                    rem = size - 1 - len(pat)
                    if rem < 0:
                        continue
                    for comp in weak_compositions(rem, 1 + len(pat)):
                        lists = [self.bodies(comp[0], depth - 1, bl)]
                        for c in comp[1:]:
                            lists.append(self.bodies(c, depth - 1, cl_loop))
                        for combo in itertools.product(*lists):
                            cls = tuple(pre + (b,) for pre, b in zip(pat, combo[1:]))
                            out.append(maker(combo[0], cls))
        self._n[key] = out
        return out

    def bodies(self, size, depth=None, inloop=False):
        """All bodies (tuples of nodes, no two adjacent text nodes) of exactly
        this total size."""
        depth = self.maxdepth if depth is None else depth
        key = (size, depth, inloop)
        if key in self._b:
            return self._b[key]
        out = []
        if size == 0:
            out.append(())
        else:
            for k in range(1, size + 1):
                firsts = self.nodes(k, depth, inloop)
                if not firsts:
                    continue
                for rest in self.bodies(size - k, depth, inloop):
                    for f in firsts:
                        if f[0] == "text" and rest and rest[0][0] == "text":
                            continue
                        out.append((f,) + rest)
        self._b[key] = out
        return out

    def bodies_upto(self, size, depth=None, inloop=False):
        for s in range(size + 1):
            yield from self.bodies(s, depth, inloop)


def std_heads(conds=("n", "z"), seqs=("xs", "e0"), elifs=("n",), excepts=("", "KeyError"),
              applies=("wrap",), blocks=("b1",), loop_else=True, try_full=True, whiles=True):
    heads = []
    for c in conds:
        pats = [(), (("else",),)]
        for e in elifs:
            pats.append((("elif", e),))
            pats.append((("elif", e), ("else",)))
        heads.append(("if", (lambda c: lambda b, cl: ("if", c, b, cl))(c), pats, None))
    for s in seqs:
        pats = [()] + ([(("else",),)] if loop_else else [])
        heads.append(("for", (lambda s: lambda b, cl: ("for", "i", s, b, cl))(s), pats, True))
    if whiles:
        pats = [()] + ([(("else",),)] if loop_else else [])
        heads.append(("while", lambda b, cl: ("while", "c.tick()", b, cl), pats, True))
    pats = []
    for x in excepts:
        pats.append((("except", x),))
        if try_full:
            pats.append((("except", x), ("else",)))
            pats.append((("except", x), ("finally",)))
    pats.append((("finally",),))
    if try_full:
        pats.append((("except", excepts[0]), ("else",), ("finally",)))
    heads.append(("try", lambda b, cl: ("try", b, cl), pats, None))
    for a in applies:
        heads.append(("apply", (lambda a: lambda b, cl: ("apply", a, b))(a), [()], False))
    for bn in blocks:
        heads.append(("block", (lambda bn: lambda b, cl: ("block", bn, b))(bn), [()], None))
    return heads


# -- multi-file structures (family M of C19, family MA of C20)

def m_file_grammar(i, names, profile="ws"):
    letter = "EPG"[i]
    if profile == "ws":
        leaves = [("text", letter + " \n\t "), ("expr", "s", " ")]
        kw = dict(conds=("n",))
    else:     # "esc": expressions and raw tags only
        leaves = [("expr", "s", " "), ("raw", "s")]
        kw = dict(conds=())
    for j in range(i + 1, len(names)):
        leaves.append(("include", names[j]))
    heads = std_heads(seqs=("xs",), elifs=(), excepts=(), try_full=False,
                      loop_else=False, whiles=False, blocks=("b1", "b2"), **kw)
    heads = [hd for hd in heads if hd[0] != "try"]
    return Grammar(leaves, [], heads, 2)


def m_structures(total, nfiles, profile="ws", stems=("e", "p", "g")):
    """All (names-independent) structures: tuple of per-file (extends index or
    None, body) with every file after the first referenced by an earlier one
    and sum of body sizes <= total."""
    names = ["%s%d" % (stems[i], i) for i in range(nfiles)]    # placeholders
    grams = [m_file_grammar(i, names, profile) for i in range(nfiles)]
    for sizes in itertools.product(range(total + 1), repeat=nfiles):
        if sum(sizes) > total:
            continue
        ext_opts = []
        for i in range(nfiles):
            ext_opts.append([None] + list(range(i + 1, nfiles)))
        for exts in itertools.product(*ext_opts):
            lists = [grams[i].bodies(sizes[i]) for i in range(nfiles)]
            for bodies in itertools.product(*lists):
                # every later file must be referenced from an earlier reachable one
                ok = True
                reach = {0}
                for i in range(nfiles):
                    if i not in reach:
                        ok = False
                        break
                    if exts[i] is not None:
                        reach.add(exts[i])
                    for j in range(i + 1, nfiles):
                        if _includes(bodies[i], names[j]):
                            reach.add(j)
                if not ok or len(reach) != nfiles:
                    continue
                yield names, exts, bodies


def _includes(body, name):
    found = []

    def visit(node, path):
        if node[0] == "include" and node[1] == name:
            found.append(1)
    _walk(body, visit)
    return bool(found)


def m_world(names, exts, bodies, file_exts, lkw, pre=None, post=None):
    real = {names[i]: "%s.%s" % (names[i][0], file_exts[i]) for i in range(len(names))}

    def ren(body):
        out = []
        for node in body:
            if node[0] == "include":
                out.append(("include", real[node[1]]))
            elif node[0] in CONTAINERS:
                b, cls = parts_of(node)
                out.append(rebuild(node, ren(b), tuple(c[:-1] + (ren(c[-1]),) for c in cls)))
            else:
                out.append(node)
        return tuple(out)
    files = {}
    for i, n in enumerate(names):
        body = ren(bodies[i])
        if exts[i] is not None:
            body = (("extends", real[names[exts[i]]]),) + body
        if pre and pre[i]:
            body = tuple(pre[i]) + body
        if post and post[i]:
            body = body + tuple(post[i])
        files[real[n]] = body
    return {"entry": real[names[0]], "files": files, "lkw": dict(lkw)}



# -- shrinking (used only when a violation was found, to name it structurally)

def shrink_candidates_body(body):
    """Bodies obtained from `body` by one simplification step."""
    for i, node in enumerate(body):
        rest_l, rest_r = body[:i], body[i + 1:]
        # drop the node
        cand = rest_l + rest_r
        yield _merge_text(cand)
        k = node[0]
        if k == "text" and len(node[1]) > 1:
            s = node[1]
            for j in range(len(s)):
                t = s[:j] + s[j + 1:]
                if "{{" in t or "{%" in t or "{#" in t:
                    continue
                yield rest_l + (("text", t),) + rest_r
        if k == "noend":
            yield rest_l + (node[1],) + rest_r
            continue
        if k in CONTAINERS:
            b, cls = parts_of(node)
            # replace by its body
            yield _merge_text(rest_l + b + rest_r)
            for ci in range(len(cls)):
                yield _merge_text(rest_l + cls[ci][-1] + rest_r)
                yield rest_l + (rebuild(node, b, cls[:ci] + cls[ci + 1:]),) + rest_r
            for nb in shrink_candidates_body(b):
                yield rest_l + (rebuild(node, nb, cls),) + rest_r
            for ci, cl in enumerate(cls):
                for nb in shrink_candidates_body(cl[-1]):
                    ncl = cls[:ci] + (cl[:-1] + (nb,),) + cls[ci + 1:]
                    yield rest_l + (rebuild(node, b, ncl),) + rest_r


def _merge_text(body):
    out = []
    for n in body:
        if n[0] == "text" and out and out[-1][0] == "text":
            t = out[-1][1] + n[1]
            if "{{" in t or "{%" in t or "{#" in t:
                out.append(n)      # cannot merge; stays non canonical -> EITHER
            else:
                out[-1] = ("text", t)
        else:
            out.append(n)
    return tuple(out)


def shrink_world(world, still_bad, budget=400):
    """Greedy one-step-at-a-time minimisation; still_bad(world) -> bool."""
    world = norm_world(world)
    changed = True
    while changed and budget > 0:
        changed = False
        for fname in list(world["files"]):
            if len(world["files"]) > 1:
                w2 = dict(world)
                w2["files"] = {fname: world["files"][fname]}
                w2["entry"] = fname
                budget -= 1
                try:
                    ok = still_bad(w2)
                except Exception:
                    ok = False
                if ok:
                    world = w2
                    changed = True
                    break
        if changed:
            continue
        for fname in list(world["files"]):
            for nb in shrink_candidates_body(world["files"][fname]):
                budget -= 1
                if budget <= 0:
                    break
                w2 = dict(world)
                w2["files"] = dict(world["files"])
                w2["files"][fname] = nb
                try:
                    ok = still_bad(w2)
                except Exception:
                    ok = False
                if ok:
                    world = w2
                    changed = True
                    break
            if changed or budget <= 0:
                break
        if not changed:
            for key in ("lkw", "tkw"):
                for opt in list(world[key]):
                    w2 = dict(world)
                    w2[key] = {k: v for k, v in world[key].items() if k != opt}
                    try:
                        ok = still_bad(w2)
                    except Exception:
                        ok = False
                    if ok:
                        world = w2
                        changed = True
                        break
                if changed:
                    break
    return world


def _paths(body, prefix, out):
    for node in body:
        k = node[0]
        if k == "text":
            out.add(prefix + "T")
        elif k == "bad":
            out.add(prefix + "bad:" + node[1])
        elif k == "noend":
            out.add(prefix + "noend:" + node[1][0])
            _paths((node[1],), prefix, out)
        elif k in CONTAINERS:
            name = k + ("()" if k in ("apply", "block") and not node[1] else "")
            b, cls = parts_of(node)
            if not b:
                out.add(prefix + name)
            _paths(b, prefix + name + ">", out)
            for cl in cls:
                out.add(prefix + k + "-" + cl[0])
                _paths(cl[-1], prefix + k + "-" + cl[0] + ">", out)
        elif k == "set" and not node[1]:
            out.add(prefix + "set()")
        elif k in ("include", "extends") and not node[1]:
            out.add(prefix + k + "()")
        else:
            out.add(prefix + k)


def file_roles(world):
    """file -> "entry" | "parent" (reached through extends) | "inc"."""
    roles = {world["entry"]: "entry"}
    cur = world["entry"]
    while True:
        ext = [n[1] for n in world["files"].get(cur, ()) if n[0] == "extends" and n[1]]
        if not ext or ext[0] in roles or ext[0] not in world["files"]:
            break
        roles[ext[0]] = "parent"
        cur = ext[0]
    for f in world["files"]:
        roles.setdefault(f, "inc")
    return roles


def world_skeleton(world):
    """Structural key of a (shrunk) world: per file role the *set* of node
    paths; literal text, names, positions and multiplicities are dropped so
    that one defect maps to few keys."""
    roles = file_roles(world)
    parts = []
    for name in sorted(world["files"], key=lambda n: (["entry", "parent", "inc"].index(roles[n]), n)):
        out = set()
        _paths(world["files"][name], "", out)
        if out or roles[name] == "entry":
            parts.append("%s{%s}" % (roles[name], ",".join(sorted(out))))
    s = ";".join(parts)
    opts = []
    for key in ("lkw", "tkw"):
        for k in sorted(world[key]):
            opts.append("%s.%s" % (key, k))
    if opts:
        s += ";" + ",".join(opts)
    return s


# ------------------------------------------------------------------ one loader, several directories
def two_directory_cases():
    """-> list of (label, files, [entry names]).  Two directories whose templates include / extend a sibling by the
    same relative name; the loader cache must keep them apart whatever the order of loading."""
    cases = []
    for rel, how in (("part.txt", "include"), ("base.txt", "extends"), ("row.html", "include")):
        if how == "include":
            page = '{%% include "%s" %%}' % rel
        else:
            page = '{%% extends "%s" %%}{%% block b %%}{{ v }}{%% end %%}' % rel
        ext = rel.rsplit(".", 1)[1]
        files = {"a/index." + ext: page, "b/index." + ext: page}
        if how == "include":
            files["a/" + rel] = "{% autoescape None %}A[{{ v }}]"
            files["b/" + rel] = "B[{{ v }}]\r\n  x"
        else:
            files["a/" + rel] = "{% autoescape None %}A<{% block b %}{% end %}>"
            files["b/" + rel] = "B<{% block b %}{% end %}>"
        cases.append(("%s:%s" % (how, rel), files, ["a/index." + ext, "b/index." + ext]))
    return cases


def run_two_directories():
    """-> list of (sig, msg): every order of loading on one shared loader must render what a fresh loader renders."""
    import itertools
    from tornado import template
    bad = []
    n = 0
    for label, files, entries in two_directory_cases():
        fresh = {}
        for e in entries:
            fresh[e] = template.DictLoader(dict(files)).load(e).generate(v="<&>")
        for order in itertools.permutations(entries):
            for again in (False, True):
                loader = template.DictLoader(dict(files))
                seq = list(order) + (list(order) if again else [])
                for e in seq:
                    n += 1
                    out = loader.load(e).generate(v="<&>")
                    if out != fresh[e]:
                        bad.append(("shared-loader:%s" % label.split(":")[0],
                                    "%s: %r loaded after %r on one loader renders %r, on a fresh loader %r"
                                    % (label, e, seq[:seq.index(e)], out, fresh[e])))
                        break
    return bad, n
