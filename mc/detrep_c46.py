"""Seed-independent representative case per violation signature (used by C46, C48).

mc.core keeps, per signature, the first-seen case of minimal JSON length, so
with equal lengths the kept replay depends on partition arrival order.  This
helper additionally records (via Stats.setmax, whose merge is order
independent) the candidate that is shortest and then lexicographically
greatest, and `finalize` installs it as the reported case.  Counts and the set
of signatures are untouched."""
import json

from mc.core import jsonable

_P = "_rep:"


def report(st, sig, msg, case):
    st.violation(sig, msg, case)
    js = json.dumps(jsonable(case), sort_keys=True)
    st.setmax(_P + sig, [-len(js), js, msg])


def finalize(st):
    for key in [k for k in st.extra if k.startswith(_P)]:
        _, js, msg = st.extra.pop(key)
        sig = key[len(_P):]
        if sig in st.violations:
            st.violations[sig] = (msg, json.loads(js), st.violations[sig][2])
