"""ThreadSched: a controlled scheduler for real Python threads (baton passing).

Exactly one registered thread runs at a time.  At every scheduling point the
chooser picks the next thread among the enabled ones (canonical order: the
running thread first if still enabled, then ascending ids).  Choosing another
thread while the running one is still enabled is a preemption (a counted
deviation); switching away from a blocked or finished thread is free.

Blocking operations carry a wake predicate.  'No enabled thread while some
thread is unfinished' is a deadlock.  On deadlock or horizon every blocked
thread is released with Abort so that no OS thread outlives the execution."""
import threading as _rt


class Deadlock(Exception):
    pass


class Abort(BaseException):
    """Raised inside controlled threads to unwind them when an execution is abandoned."""


class Horizon(Exception):
    pass


class T:
    def __init__(self, name, idx):
        self.name = name
        self.idx = idx
        self.gate = _rt.Semaphore(0)
        self.pred = None        # wake predicate while blocked
        self.done = False
        self.exc = None
        self.thread = None
        self.waiting_label = None


class Sched:
    def __init__(self, chooser, horizon=4000):
        self.ch = chooser
        self.threads = []
        self.cur = None
        self.trace = []
        self.steps = 0
        self.horizon = horizon
        self.aborting = False
        self.deadlock = None
        self.main = None

    # ---- thread management --------------------------------------------------
    def register_main(self, name="loop"):
        t = T(name, 0)
        t.thread = _rt.current_thread()
        self.threads.append(t)
        self.cur = t
        self.main = t
        return t

    def spawn(self, name, fn):
        t = T(name, len(self.threads))
        self.threads.append(t)

        def body():
            t.gate.acquire()
            try:
                if not self.aborting:
                    fn()
            except Abort:
                pass
            except BaseException as e:     # noqa
                t.exc = e
            finally:
                t.done = True
                if not self.aborting:
                    try:
                        self._handoff(t, finished=True)
                    except (Abort, Deadlock, Horizon):
                        pass
        th = _rt.Thread(target=body, daemon=True, name="mc-" + name)
        t.thread = th
        th.start()
        return t

    def me(self):
        return self.cur

    def enabled(self):
        out = []
        for t in self.threads:
            if t.done:
                continue
            if t.pred is None:
                out.append(t)
            else:
                try:
                    if t.pred():
                        out.append(t)
                except Exception:
                    out.append(t)
        return out

    # ---- core ------------------------------------------------------------------
    def _handoff(self, me, finished=False):
        if self.aborting:
            raise Abort()
        self.steps += 1
        if self.steps > self.horizon:
            self._abort_all(me)
            raise Horizon("step horizon exceeded")
        en = self.enabled()
        if not en:
            if all(t.done for t in self.threads):
                return
            self.deadlock = [(t.name, t.waiting_label) for t in self.threads if not t.done]
            self._abort_all(me)
            if me is self.main and not finished:
                raise Deadlock("no enabled thread: %r" % (self.deadlock,))
            raise Abort()
        me_enabled = (not finished) and me in en
        if me_enabled:
            en.remove(me)
            en.insert(0, me)
        else:
            en.sort(key=lambda t: t.idx)
        idx = self.ch.choose(len(en), "sched", free=not me_enabled) if len(en) > 1 else 0
        nxt = en[idx]
        self.trace.append((me.name, nxt.name))
        if nxt is me:
            return
        self.cur = nxt
        nxt.gate.release()
        if not finished:
            me.gate.acquire()
            if self.aborting:
                if me is self.main and self.deadlock is not None:
                    raise Deadlock("no enabled thread: %r" % (self.deadlock,))
                raise Abort()

    def _abort_all(self, me):
        self.aborting = True
        for t in self.threads:
            if t is not me and not t.done:
                t.gate.release()

    def point(self, label=""):
        """A scheduling point: any enabled thread may run next."""
        me = self.cur
        me.waiting_label = label
        self._handoff(me)

    def block_until(self, pred, label=""):
        """Block the calling thread until pred() holds (evaluated by the scheduler)."""
        me = self.cur
        me.pred = pred
        me.waiting_label = label
        try:
            self._handoff(me)
        finally:
            me.pred = None

    def finish(self):
        """Called by the main thread at the end: let every other thread run to completion."""
        me = self.main
        others = [t for t in self.threads if t is not me]
        if others:
            self.block_until(lambda: all(t.done for t in others), "finish")

    def cleanup(self):
        """Release anything still blocked (after a failure) and join the OS threads."""
        self.aborting = True
        for t in self.threads:
            if t is not self.main and not t.done:
                t.gate.release()
        for t in self.threads:
            if t is not self.main and t.thread is not None:
                t.thread.join(timeout=2.0)


# ------------------------------------------------------------------ shims
class ShimCondition:
    """threading.Condition() with its own (non-reentrant use) lock."""

    def __init__(self, sched):
        self.s = sched
        self.owner = None
        self.waiters = []

    def acquire(self):
        s = self.s
        s.point("cond.acquire")
        if self.owner is not None:
            s.block_until(lambda: self.owner is None, "lock")
        self.owner = s.cur
        return True

    def release(self):
        if self.owner is not self.s.cur:
            raise RuntimeError("cannot release un-acquired lock")
        self.owner = None
        self.s.point("cond.release")

    def __enter__(self):
        self.acquire()
        return self

    def __exit__(self, *a):
        self.release()

    def wait(self, timeout=None):
        if self.owner is not self.s.cur:
            raise RuntimeError("cannot wait on un-acquired lock")
        me = self.s.cur
        tok = [False]
        self.waiters.append(tok)
        self.owner = None
        self.s.block_until(lambda: tok[0] and self.owner is None, "cond.wait")
        self.owner = me
        return True

    def notify(self, n=1):
        if self.owner is not self.s.cur:
            raise RuntimeError("cannot notify on un-acquired lock")
        for tok in self.waiters[:n]:
            tok[0] = True
        del self.waiters[:n]

    def notify_all(self):
        self.notify(len(self.waiters))


class ShimThread:
    def __init__(self, sched, group=None, target=None, name=None, args=(), kwargs=None, daemon=None):
        self.s = sched
        self.name = name or "thread"
        self.target = target
        self.args = args
        self.kwargs = kwargs or {}
        self.daemon = daemon
        self.t = None

    def start(self):
        self.t = self.s.spawn(self.name, lambda: self.target(*self.args, **self.kwargs))
        self.s.point("thread.start")

    def join(self, timeout=None):
        if self.t is None:
            raise RuntimeError("cannot join thread before it is started")
        if timeout is not None:
            # a bounded wait may always run out (the other thread can be arbitrarily slow): the caller carries on
            self.s.point("join:timeout-elapsed")
            return
        self.s.block_until(lambda: self.t.done, "join")

    def is_alive(self):
        return self.t is not None and not self.t.done


class ShimModule:
    """Stands in for a module: explicit attributes first, then the real module."""

    def __init__(self, real, **attrs):
        self.__dict__["_real"] = real
        self.__dict__.update(attrs)

    def __getattr__(self, name):
        return getattr(self._real, name)
