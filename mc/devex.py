"""DevEx: stateless deviation-bounded explorer (CHESS style) and HistBFS."""
import collections


class ReplayDivergence(Exception):
    pass


class Chooser:
    """Replays `prefix`, then answers 0 (the default environment answer)."""

    def __init__(self, prefix=()):
        self.prefix = list(prefix)
        self.trace = []      # (n, chosen, label, free)

    def choose(self, n, label="", free=False):
        if n <= 0:
            raise ValueError("choose(0)")
        i = len(self.trace)
        c = self.prefix[i] if i < len(self.prefix) else 0
        if c >= n:
            raise ReplayDivergence("choice %d: %d >= %d (%s)" % (i, c, n, label))
        self.trace.append((n, c, label, free))
        return c

    def choices(self):
        return [t[1] for t in self.trace]

    def labels(self):
        return [(t[2], t[1]) for t in self.trace]


def explore(run, bound=None, on_exec=None, start=(), max_execs=None):
    """Enumerate every execution of run(chooser) whose number of non-default,
    non-free choices is <= bound (None = unbounded = exhaustive).
    `start` pins an initial prefix (used for partitioning; its labels are
    still verified by the harness being deterministic).
    Returns (executions, choice_edges, capped)."""
    stack = [list(start)]
    n_exec = 0
    edges = 0
    capped = False
    while stack:
        prefix = stack.pop()
        ch = Chooser(prefix)
        obs = run(ch)
        n_exec += 1
        if len(ch.trace) < len(prefix):
            raise ReplayDivergence("execution ended before prefix was consumed: %r" % (prefix,))
        if on_exec is not None:
            on_exec(ch, obs)
        if max_execs is not None and n_exec >= max_execs:
            capped = bool(stack)
            break
        devs = sum(1 for (n, c, l, free) in ch.trace[:len(prefix)] if c and not free)
        base = [t[1] for t in ch.trace]
        for i in range(len(ch.trace) - 1, len(prefix) - 1, -1):
            n, c, label, free = ch.trace[i]
            if n <= 1:
                continue
            if bound is not None and not free and devs + 1 > bound:
                continue
            for alt in range(n - 1, 0, -1):
                stack.append(base[:i] + [alt])
                edges += 1
    return n_exec, edges + n_exec, capped


def first_level(run, depth=1):
    """Prefixes that partition the tree at the first `depth` choice points
    (for handing sub-trees to workers).  Exhaustive only."""
    out = []
    frontier = [[]]
    for _ in range(depth):
        nxt = []
        for p in frontier:
            ch = Chooser(p)
            run(ch)
            if len(ch.trace) <= len(p):
                out.append(p)      # execution ends here: a leaf partition
                continue
            n = ch.trace[len(p)][0]
            for a in range(n):
                nxt.append(p + [a])
        frontier = nxt
    return out + frontier


def check_determinism(run, prefix, summarize=repr):
    """Replay one schedule twice and compare observations."""
    a = summarize(run(Chooser(prefix)))
    b = summarize(run(Chooser(prefix)))
    return a == b, a, b


def hist_bfs(ops, apply_hist, canon, depth, on_state=None, enabled=None):
    """Explicit-state BFS over operation histories.
    apply_hist(hist) -> state object (fresh real object with hist replayed,
    comparisons with the reference done inside; may raise StopBranch to prune)
    canon(state) -> hashable.  Returns (n_states, n_transitions, max_depth)."""
    seen = set()
    s0 = apply_hist(())
    seen.add(canon(s0))
    frontier = collections.deque([()])
    trans = 0
    maxd = 0
    while frontier:
        hist = frontier.popleft()
        if len(hist) >= depth:
            continue
        for op in (ops if enabled is None else enabled(hist)):
            nh = hist + (op,)
            try:
                s = apply_hist(nh)
            except StopBranch:
                trans += 1
                continue
            trans += 1
            k = canon(s)
            if on_state is not None:
                on_state(nh, s)
            if k not in seen:
                seen.add(k)
                frontier.append(nh)
                maxd = max(maxd, len(nh))
    return len(seen), trans, maxd


class StopBranch(Exception):
    pass
