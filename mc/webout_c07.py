"""Helpers shared by checks C07 and C25 (application data -> response header
block): a frozen wall clock inside tornado.web, a one-connection driver on
the in-memory server harness, and reference code written from RFC 9110 /
RFC 6265 (never calls Tornado's own serialisers or validators)."""
import contextlib
import datetime as _dt
import re
import types
import warnings

from mc.httph import ServerConn, read_responses
from mc.vloop import EPOCH, World

TOKEN_STR = re.compile(r"^[!#$%&'*+\-.^_`|~0-9A-Za-z]+$")
# RFC 6265 4.1.1 cookie-octet
COOKIE_OCTETS = re.compile(r"^[\x21\x23-\x2b\x2d-\x3a\x3c-\x5b\x5d-\x7e]*$")
WSP = b" \t"


# --------------------------------------------------------------- wall clock
class _Meta(type):
    def __instancecheck__(cls, obj):
        return isinstance(obj, _dt.datetime)


class _FrozenDateTime(_dt.datetime, metaclass=_Meta):
    @classmethod
    def now(cls, tz=None):
        return _dt.datetime.fromtimestamp(EPOCH, tz)

    @classmethod
    def utcnow(cls):
        return _dt.datetime.fromtimestamp(EPOCH, _dt.timezone.utc).replace(tzinfo=None)


@contextlib.contextmanager
def frozen_web_clock():
    """tornado.web computes cookie expiry from datetime.datetime.now(), which
    World's time.time patch does not reach: replace the `datetime` module
    attribute of tornado.web by a shim whose now() is EPOCH (restored on
    exit).  Also silences the DeprecationWarning of legacy set_cookie
    kwargs."""
    import tornado.web
    shim = types.ModuleType("datetime")
    shim.__dict__.update({k: v for k, v in _dt.__dict__.items() if not k.startswith("__")})
    shim.datetime = _FrozenDateTime
    old = tornado.web.datetime
    tornado.web.datetime = shim
    try:
        with warnings.catch_warnings():
            warnings.simplefilter("ignore")
            yield
    finally:
        tornado.web.datetime = old


def http_date(ts):
    """IMF-fixdate (RFC 9110 5.6.7) of a POSIX timestamp, computed without
    email.utils / tornado."""
    d = _dt.datetime.fromtimestamp(int(ts), _dt.timezone.utc)
    return "%s, %02d %s %04d %02d:%02d:%02d GMT" % (
        ("Mon", "Tue", "Wed", "Thu", "Fri", "Sat", "Sun")[d.weekday()], d.day,
        ("Jan", "Feb", "Mar", "Apr", "May", "Jun", "Jul", "Aug", "Sep", "Oct", "Nov",
         "Dec")[d.month - 1], d.year, d.hour, d.minute, d.second)


# ------------------------------------------------------------------ driver
def request(path, extra=b""):
    return b"GET " + path + b" HTTP/1.1\r\nHost: x\r\n" + extra + b"\r\n"


class Conn:
    """One keep-alive connection to `app`; every send() returns the bytes the
    server wrote in reaction (never fires timers: an unanswered request
    stays unanswered)."""

    def __init__(self, world, app):
        self.w = world
        self.c = ServerConn(world, app)
        self.seen = 0

    def send(self, data):
        self.c.send(data)
        out = self.c.output
        new = out[self.seen:]
        self.seen = len(out)
        return new

    @property
    def closed(self):
        return self.c.closed

    def errors(self):
        """(logger, exception type) of every ERROR record so far."""
        return [(r[0], r[3]) for r in self.w.logs.records if r[1] == "ERROR"]


def exchange(app, reqs):
    """Send reqs one after the other on one connection.
    -> (list of per-request output bytes, closed, error log summary)."""
    with World() as w:
        c = Conn(w, app)
        outs = [c.send(r) for r in reqs]
        return outs, c.closed, c.errors()


# --------------------------------------------------------------- reference
def enc_options(x):
    """Byte strings an application string may legitimately become on the
    wire: bytes as given; str as latin-1 (Tornado's documented header
    encoding) or UTF-8 (status line, redirect) -- the statement does not fix
    the charset, so both are accepted."""
    if isinstance(x, (bytes, bytearray)):
        return {bytes(x)}
    out = {x.encode("utf-8", "surrogatepass")}
    try:
        out.add(x.encode("latin-1"))
    except UnicodeEncodeError:
        pass
    return out


def trimmed(options):
    return {o.strip(WSP) for o in options}


def ua_parse_set_cookie(value):
    """RFC 6265 5.2 user-agent view of one Set-Cookie field value (bytes):
    -> (name, value, [(attr-name lowercased, attr-value or None)])."""
    parts = value.split(b";")
    nv = parts[0]
    if b"=" in nv:
        name, val = nv.split(b"=", 1)
    else:
        name, val = b"", nv
    attrs = []
    for p in parts[1:]:
        k, sep, a = p.partition(b"=")
        attrs.append((k.strip(WSP).lower(), a.strip(WSP) if sep else None))
    return name.strip(WSP), val.strip(WSP), attrs


def classify_problem(p):
    """Structural symptom of one read_responses() problem string."""
    if p.startswith("missing response") or p.startswith("incomplete header block"):
        return "no-response" if p.startswith("missing") else "truncated-header-block"
    if p.startswith("bare CR/LF/NUL"):
        return "ctl-on-wire"
    if p.startswith("bad header line"):
        return "malformed-header-line"
    if p.startswith("bad header value"):
        return "bad-field-value"
    if p.startswith("bad status line"):
        return "malformed-status-line"
    if "unexpected bytes" in p:
        return "extra-bytes-after-response"
    return "framing-broken"


def worst_problem(problems):
    order = ["ctl-on-wire", "malformed-status-line", "malformed-header-line", "bad-field-value",
             "extra-bytes-after-response", "truncated-header-block", "framing-broken",
             "no-response"]
    syms = {classify_problem(p) for p in problems}
    for o in order:
        if o in syms:
            return o
    return sorted(syms)[0]


__all__ = ["Conn", "exchange", "request", "frozen_web_clock", "http_date", "enc_options",
           "trimmed", "ua_parse_set_cookie", "classify_problem", "worst_problem",
           "read_responses", "TOKEN_STR", "COOKIE_OCTETS", "World"]
