CONSTANTS
  Cap = 2
  MaxOps = 3
SPECIFICATION Spec
INVARIANTS TypeOK StartSelectAssert NoCrash OneOutstanding ClosedMeansDone
PROPERTIES Dispatched CloseCompletes
