------------------------------ MODULE SelectorThread ------------------------------
(* Model of tornado.platform.asyncio.SelectorThread (the select-in-a-thread     *)
(* handshake), one atomic action per stretch of code between two                *)
(* synchronisation operations (condition acquire/release/wait, waker send/recv, *)
(* select enter/return, call_soon_threadsafe, thread start/join).  Critical     *)
(* sections of `with self._select_cond` contain no other synchronisation        *)
(* operation and are therefore single actions.                                  *)
(*                                                                              *)
(* Loop thread = `l`, selector thread = `s`.  One user file descriptor f1       *)
(* (reader) plus the waker.  The loop thread performs at most MaxOps            *)
(* user-level operations (add_reader, remove_reader, readiness event, close of  *)
(* the removed fd) in any order, runs queued callbacks at any time, and may     *)
(* call close() at any time.                                                    *)
(* The model is bound to the code by mc-side conformance checks (see            *)
(* checks/c40_model.py): every edge of the reachable graph is replayed on the   *)
(* real code and every explored real schedule is simulated in this graph.       *)
EXTENDS Naturals, Sequences

CONSTANTS Cap, MaxOps

VARIABLES lpc, spc, args, closing, waker, queue, reg, ready, fclosed,
          sargs, srs, cur, tok, ops, isclosed

vars == <<lpc, spc, args, closing, waker, queue, reg, ready, fclosed,
          sargs, srs, cur, tok, ops, isclosed>>

Snap == IF reg THEN "wf" ELSE "w"                       \* list(self._readers.keys())
Send(w) == IF w < Cap THEN w + 1 ELSE w                 \* BlockingIOError swallowed when full
HasF(a) == a = "wf"
\* what select() would report for snapshot a
RdW == waker > 0
RdF(a) == HasF(a) /\ ready
Rs(a) == IF RdW /\ RdF(a) THEN "wf" ELSE IF RdW THEN "w" ELSE IF RdF(a) THEN "f" ELSE "none"
Bad(a) == HasF(a) /\ fclosed                            \* EBADF

Init == /\ lpc = "init_send" /\ spc = "none" /\ args = "none" /\ closing = FALSE
        /\ waker = 0 /\ queue = <<"tm">> /\ reg = FALSE /\ ready = FALSE /\ fclosed = FALSE
        /\ sargs = "none" /\ srs = "none" /\ cur = "none" /\ tok = FALSE /\ ops = 0
        /\ isclosed = FALSE

-----------------------------------------------------------------------------
(* loop thread *)
L_InitSend == /\ lpc = "init_send" /\ waker' = Send(waker) /\ lpc' = "idle"
              /\ UNCHANGED <<spc, args, closing, queue, reg, ready, fclosed, sargs, srs, cur, tok, ops, isclosed>>

\* run the thread-manager callback: Thread.start()
L_RunTm == /\ lpc = "idle" /\ ~isclosed /\ queue # <<>> /\ Head(queue) = "tm"
           /\ queue' = Tail(queue) /\ spc' = "start" /\ lpc' = "tm_started"
           /\ UNCHANGED <<args, closing, waker, reg, ready, fclosed, sargs, srs, cur, tok, ops, isclosed>>

L_TmStarted == /\ lpc = "tm_started" /\ lpc' = "ss_acq"
               /\ UNCHANGED <<spc, args, closing, waker, queue, reg, ready, fclosed, sargs, srs, cur, tok, ops, isclosed>>

\* run a queued _handle_select(rs): up to the first synchronisation operation
Dispatch(has) == IF has /\ reg THEN FALSE ELSE ready    \* the fd callback consumes the event
L_RunHs == /\ lpc = "idle" /\ ~isclosed /\ queue # <<>> /\ Head(queue) # "tm"
           /\ queue' = Tail(queue)
           /\ LET rs == Head(queue) IN
              IF rs \in {"hs_w", "hs_wf"}
              THEN /\ lpc' = "hs_recv" /\ cur' = rs /\ ready' = ready
              ELSE /\ lpc' = "ss_acq" /\ cur' = "none" /\ ready' = Dispatch(rs = "hs_f")
           /\ UNCHANGED <<spc, args, closing, waker, reg, fclosed, sargs, srs, tok, ops, isclosed>>

L_HsRecv == /\ lpc = "hs_recv" /\ waker' = 0 /\ ready' = Dispatch(cur = "hs_wf")
            /\ cur' = "none" /\ lpc' = "ss_acq"
            /\ UNCHANGED <<spc, args, closing, queue, reg, fclosed, sargs, srs, tok, ops, isclosed>>

\* _start_select: the whole critical section
L_SsAcq == /\ lpc = "ss_acq" /\ args' = Snap /\ tok' = (IF spc = "wait" THEN TRUE ELSE tok)
           /\ lpc' = "ss_rel"
           /\ UNCHANGED <<spc, closing, waker, queue, reg, ready, fclosed, sargs, srs, cur, ops, isclosed>>

L_SsRel == /\ lpc = "ss_rel" /\ lpc' = "idle"
           /\ UNCHANGED <<spc, args, closing, waker, queue, reg, ready, fclosed, sargs, srs, cur, tok, ops, isclosed>>

L_AddReader == /\ lpc = "idle" /\ ~isclosed /\ ops < MaxOps /\ ~fclosed
               /\ reg' = TRUE /\ ops' = ops + 1 /\ lpc' = "op_send"
               /\ UNCHANGED <<spc, args, closing, waker, queue, ready, fclosed, sargs, srs, cur, tok, isclosed>>

L_RemoveReader == /\ lpc = "idle" /\ ~isclosed /\ ops < MaxOps /\ reg
                  /\ reg' = FALSE /\ ops' = ops + 1 /\ lpc' = "op_send"
                  /\ UNCHANGED <<spc, args, closing, waker, queue, ready, fclosed, sargs, srs, cur, tok, isclosed>>

L_OpSend == /\ lpc = "op_send" /\ waker' = Send(waker) /\ lpc' = "idle"
            /\ UNCHANGED <<spc, args, closing, queue, reg, ready, fclosed, sargs, srs, cur, tok, ops, isclosed>>

L_Ready == /\ lpc = "idle" /\ ~isclosed /\ ops < MaxOps /\ ~ready /\ ~fclosed
           /\ ready' = TRUE /\ ops' = ops + 1
           /\ UNCHANGED <<lpc, spc, args, closing, waker, queue, reg, fclosed, sargs, srs, cur, tok, isclosed>>

\* the application closes the fd after removing it
L_CloseFd == /\ lpc = "idle" /\ ~isclosed /\ ops < MaxOps /\ ~reg /\ ~fclosed
             /\ fclosed' = TRUE /\ ready' = FALSE /\ ops' = ops + 1
             /\ UNCHANGED <<lpc, spc, args, closing, waker, queue, reg, sargs, srs, cur, tok, isclosed>>

L_Close == /\ lpc = "idle" /\ ~isclosed /\ lpc' = "cl_acq"
           /\ UNCHANGED <<spc, args, closing, waker, queue, reg, ready, fclosed, sargs, srs, cur, tok, ops, isclosed>>

L_ClAcq == /\ lpc = "cl_acq" /\ closing' = TRUE /\ tok' = (IF spc = "wait" THEN TRUE ELSE tok)
           /\ lpc' = "cl_rel"
           /\ UNCHANGED <<spc, args, waker, queue, reg, ready, fclosed, sargs, srs, cur, ops, isclosed>>

L_ClRel == /\ lpc = "cl_rel" /\ lpc' = "cl_send"
           /\ UNCHANGED <<spc, args, closing, waker, queue, reg, ready, fclosed, sargs, srs, cur, tok, ops, isclosed>>

\* _wake_selector, then join() (skipped when the thread was never started)
L_ClSend == /\ lpc = "cl_send" /\ waker' = Send(waker)
            /\ lpc' = (IF spc = "none" THEN "cl_send2" ELSE "cl_join")
            /\ UNCHANGED <<spc, args, closing, queue, reg, ready, fclosed, sargs, srs, cur, tok, ops, isclosed>>

L_ClJoin == /\ lpc = "cl_join" /\ spc = "done" /\ lpc' = "cl_send2"
            /\ UNCHANGED <<spc, args, closing, waker, queue, reg, ready, fclosed, sargs, srs, cur, tok, ops, isclosed>>

\* remove_reader(waker) -> _wake_selector; close both sockets; _closed = True
L_ClSend2 == /\ lpc = "cl_send2" /\ waker' = Send(waker) /\ isclosed' = TRUE /\ lpc' = "idle"
             /\ UNCHANGED <<spc, args, closing, queue, reg, ready, fclosed, sargs, srs, cur, tok, ops>>

-----------------------------------------------------------------------------
(* selector thread *)
\* the `with self._select_cond:` block of _run_select, entered or resumed
Critical == IF args = "none" /\ ~closing
            THEN /\ spc' = "wait" /\ tok' = FALSE /\ UNCHANGED <<args, sargs>>
            ELSE IF closing
            THEN /\ spc' = "relx" /\ UNCHANGED <<args, sargs, tok>>
            ELSE /\ spc' = "rel" /\ sargs' = args /\ args' = "none" /\ UNCHANGED tok

S_Start == /\ spc = "start" /\ spc' = "acq"
           /\ UNCHANGED <<lpc, args, closing, waker, queue, reg, ready, fclosed, sargs, srs, cur, tok, ops, isclosed>>

S_Acq == /\ spc = "acq" /\ Critical
         /\ UNCHANGED <<lpc, closing, waker, queue, reg, ready, fclosed, srs, cur, ops, isclosed>>

S_Wake == /\ spc = "wait" /\ tok /\ Critical
          /\ UNCHANGED <<lpc, closing, waker, queue, reg, ready, fclosed, srs, cur, ops, isclosed>>

S_Relx == /\ spc = "relx" /\ spc' = "done"
          /\ UNCHANGED <<lpc, args, closing, waker, queue, reg, ready, fclosed, sargs, srs, cur, tok, ops, isclosed>>

S_Rel == /\ spc = "rel" /\ spc' = "sel"
         /\ UNCHANGED <<lpc, args, closing, waker, queue, reg, ready, fclosed, sargs, srs, cur, tok, ops, isclosed>>

Select == IF Bad(sargs) THEN /\ spc' = "sel2" /\ srs' = srs
          ELSE /\ spc' = "rep" /\ srs' = Rs(sargs)

\* entering select(): EBADF is raised at once, otherwise the thread waits for readiness (one more scheduling point)
S_Sel == /\ spc = "sel"
         /\ spc' = (IF Bad(sargs) THEN "sel2" ELSE "insel") /\ srs' = srs
         /\ UNCHANGED <<lpc, args, closing, waker, queue, reg, ready, fclosed, sargs, cur, tok, ops, isclosed>>

S_InSel == /\ spc = "insel" /\ (Bad(sargs) \/ Rs(sargs) # "none") /\ Select
           /\ UNCHANGED <<lpc, args, closing, waker, queue, reg, ready, fclosed, sargs, cur, tok, ops, isclosed>>

\* EBADF: poll the waker alone; if it is not readable the error is re-raised (thread dies)
S_Sel2 == /\ spc = "sel2"
          /\ IF RdW THEN (spc' = "rep" /\ srs' = "none") ELSE (spc' = "crashed" /\ srs' = srs)
          /\ UNCHANGED <<lpc, args, closing, waker, queue, reg, ready, fclosed, sargs, cur, tok, ops, isclosed>>

S_Rep == /\ spc = "rep" /\ queue' = Append(queue, IF srs = "none" THEN "hs_" ELSE "hs_" \o srs)
         /\ spc' = "acq"
         /\ UNCHANGED <<lpc, args, closing, waker, reg, ready, fclosed, sargs, srs, cur, tok, ops, isclosed>>

-----------------------------------------------------------------------------
LoopOps == L_AddReader \/ L_RemoveReader \/ L_Ready \/ L_CloseFd \/ L_Close
LoopProgress == L_InitSend \/ L_RunTm \/ L_TmStarted \/ L_RunHs \/ L_HsRecv \/ L_SsAcq \/ L_SsRel
                \/ L_OpSend \/ L_ClAcq \/ L_ClRel \/ L_ClSend \/ L_ClJoin \/ L_ClSend2
SelNext == S_Start \/ S_Acq \/ S_Wake \/ S_Relx \/ S_Rel \/ S_Sel \/ S_InSel \/ S_Sel2 \/ S_Rep
Terminated == isclosed /\ UNCHANGED vars

Next == LoopOps \/ LoopProgress \/ SelNext \/ Terminated

Spec == Init /\ [][Next]_vars /\ WF_vars(LoopProgress) /\ WF_vars(SelNext)

-----------------------------------------------------------------------------
TypeOK == /\ lpc \in {"init_send", "idle", "tm_started", "hs_recv", "ss_acq", "ss_rel", "op_send",
                      "cl_acq", "cl_rel", "cl_send", "cl_join", "cl_send2"}
          /\ spc \in {"none", "start", "acq", "wait", "rel", "relx", "sel", "insel", "sel2", "rep", "done", "crashed"}
          /\ args \in {"none", "w", "wf"} /\ sargs \in {"none", "w", "wf"}
          /\ waker \in 0..Cap /\ ops \in 0..MaxOps

\* the assertion `assert self._select_args is None` in _start_select never fails
StartSelectAssert == lpc = "ss_acq" => args = "none"
\* the selector thread never dies with an exception
NoCrash == spc # "crashed"
\* at most one _handle_select is outstanding (one select result per handed argument set)
OneOutstanding == Len(SelectSeq(queue, LAMBDA x : x # "tm")) <= 1
\* close() returned => the selector thread is finished (or was never started)
ClosedMeansDone == isclosed => spc \in {"done", "none"}
\* a callback is only dispatched for a registered fd: readiness is never consumed otherwise (by construction)

\* every readiness of a still-registered fd is eventually dispatched (or the fd is removed / the selector closed)
Dispatched == (reg /\ ready /\ ~closing) ~> (~ready \/ ~reg \/ closing)
\* close() always completes
CloseCompletes == (lpc = "cl_acq") ~> isclosed
=============================================================================
