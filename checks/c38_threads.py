"""C38 (c): IOLoop.add_callback from foreign threads against the loop thread,
every interleaving up to a preemption bound (mc.tsched).  The loop thread runs
the same wait / drain cycle as BaseEventLoop._run_once over the VirtualLoop's
ready queue and self-pipe; scheduling points sit before every add_callback,
inside call_soon (before the handle is queued) and inside _write_to_self."""
from mc.core import h
from mc import devex
from mc.tsched import Sched, ShimThread, Deadlock, Horizon
from mc.vloop import World


def run(ch, nthreads, ncb, floop=False):
    with World() as w:
        sched = Sched(ch)
        sched.register_main("loop")
        loop, io = w.loop, w.ioloop
        pipe = [0]
        log = []
        orig_call_soon = loop._call_soon

        def _call_soon(callback, args, context):
            sched.point("call_soon")
            return orig_call_soon(callback, args, context)

        def _write_to_self():
            sched.point("write_to_self")
            pipe[0] += 1
        loop._call_soon = _call_soon
        loop._write_to_self = _write_to_self

        def worker(tid):
            if floop and tid == 0:
                # this foreign thread is itself inside a running (other) event loop, e.g. asyncio.run() in a thread
                import asyncio
                from asyncio import events
                other = asyncio.BaseEventLoop()
                events._set_running_loop(other)
            for k in range(ncb):
                sched.point("before-add_callback")
                io.add_callback(lambda tid=tid, k=k: log.append((tid, k, sched.cur.name)))
        total = nthreads * ncb
        result = {"deadlock": None, "horizon": False}
        try:
            for i in range(nthreads):
                ShimThread(sched, target=worker, args=(i,), name="w%d" % i).start()
            # one more callback from the loop thread itself
            io.add_callback(lambda: log.append(("loop", 0, sched.cur.name)))
            total += 1
            while len(log) < total:
                sched.point("loop:check-ready")
                if not loop._ready:
                    sched.block_until(lambda: pipe[0] > 0, "loop:select")   # the loop sleeps in select()
                pipe[0] = 0                                                 # _read_from_self drains the pipe
                n = len(loop._ready)
                for _ in range(n):
                    hd = loop._ready.popleft()
                    if not hd._cancelled:
                        hd._run()
                    sched.point("loop:after-handle")
            sched.finish()
        except Deadlock as e:
            result["deadlock"] = str(e)
        except Horizon:
            result["horizon"] = True
        finally:
            sched.cleanup()
        result["log"] = list(log)
        result["thread_errors"] = [(t.name, repr(t.exc)) for t in sched.threads if t.exc is not None]
        result["errlogs"] = [(r[1], r[2][:60]) for r in w.logs.records if r[1] in ("ERROR", "CRITICAL")]
        return result


def judge(nthreads, ncb, o):
    bad = []
    if o["deadlock"]:
        bad.append(("deadlock-lost-wakeup", "the loop thread sleeps forever: %s; ran %r" % (o["deadlock"], o["log"])))
        return bad
    if o["horizon"]:
        bad.append(("livelock", "step horizon exceeded"))
        return bad
    want = {(t, k) for t in range(nthreads) for k in range(ncb)} | {("loop", 0)}
    got = [(t, k) for t, k, _ in o["log"]]
    if sorted(map(repr, got)) != sorted(map(repr, want)):
        bad.append(("callbacks-not-once-each", "ran %r, expected each of %r once" % (got, sorted(map(repr, want)))))
    for t in range(nthreads):
        ks = [k for tt, k, _ in o["log"] if tt == t]
        if ks != sorted(ks):
            bad.append(("per-thread-order", "thread %d callbacks ran in order %r" % (t, ks)))
    wrong = [x for x in o["log"] if x[2] != "loop"]
    if wrong:
        bad.append(("callback-on-foreign-thread", "ran on %r" % wrong))
    if o["thread_errors"]:
        bad.append(("thread-raised", repr(o["thread_errors"])))
    if o["errlogs"]:
        bad.append(("error-log", repr(o["errlogs"][:1])))
    return bad


def run_bound(bound, st, nthreads=2, ncb=2, floop=False):
    def on_exec(ch, o):
        st.ev()
        st.transitions += len(ch.trace)
        key = h(("threads", nthreads, ncb, floop, tuple(ch.choices())))
        st.states.add(key)
        if any(c for c in ch.choices()):
            st.nontrivial.add(key)
        st.outcome(h(tuple((t, k) for t, k, _ in o["log"])))
        for sig, msg in judge(nthreads, ncb, o):
            st.violation("threads:" + sig, "%d threads x %d callbacks%s, schedule %r: %s" % (nthreads, ncb, " (thread 0 inside another running event loop)" if floop else "", ch.choices(), msg),
                         {"kind": "threads", "nthreads": nthreads, "ncb": ncb, "floop": floop, "choices": ch.choices()})
    # exactly `bound` preemptions are explored by the partition (bound b covers everything <= b; partitions overlap
    # on purpose so that each partition is self-contained)
    n, edges, capped = devex.explore(lambda ch: run(ch, nthreads, ncb, floop), bound=bound, on_exec=on_exec, max_execs=150000)
    if capped:
        st.note("cap_hit")
    st.setmax("preemption_bound_completed", bound)
    if len(st.samples) < 1:
        st.sample({"threads": nthreads, "callbacks_per_thread": ncb, "preemption_bound": bound, "schedules": n})


def replay(case):
    o = run(devex.Chooser(case["choices"]), case["nthreads"], case["ncb"], case.get("floop", False))
    return "%r\nverdict %r" % (o, judge(case["nthreads"], case["ncb"], o))
