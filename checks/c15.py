"""C15 WebSocket peers that violate the protocol are cut off without bad data.
Shape I: valid base sequences with one violating frame inserted at every
position (followed by further valid messages that must never be delivered),
for both roles, with and without permessage-deflate, delivered in one segment
or frame by frame; plus size-limit boundary messages."""
import itertools
import struct

from mc.core import Check, h
from mc.vloop import World
from mc import wsh

LIMIT = 64


def padded_deflate(data, minlen):
    """A valid RFC 7692 message payload of at least minlen bytes that inflates to `data`."""
    import zlib
    c = zlib.compressobj(6, zlib.DEFLATED, -15)
    out = c.compress(data) + c.flush(zlib.Z_SYNC_FLUSH)
    while len(out) - 4 < minlen:
        out += b"\x00\x00\x00\xff\xff"          # empty stored block
    assert out.endswith(b"\x00\x00\xff\xff")
    d = zlib.decompressobj(-15)
    assert d.decompress(out) == data
    return out[:-4]


def short_deflate(data):
    """A payload that inflates to `data` and whose last byte is the one that completes the output: zlib's own
    sync-flush output minus its final (zero) byte, so no input is left when the last output byte appears.  (It leaves
    the inflater inside a block header, so it is only used for messages after which the connection has to be aborted
    anyway, never for messages that must be delivered.)"""
    import zlib
    c = zlib.compressobj(6, zlib.DEFLATED, -15)
    full = c.compress(data) + c.flush(zlib.Z_SYNC_FLUSH)
    q = full[:-5]
    assert zlib.decompressobj(-15).decompress(q + b"\x00\x00\xff\xff") == data
    return q


def violations(deflate):
    """name -> function(session) -> bytes of the violating frame(s)."""
    deflate = deflate is True
    v = {}
    v["rsv2"] = lambda s: s.frame(True, 1, b"x", rsv=0x20)
    v["rsv3"] = lambda s: s.frame(True, 2, b"x", rsv=0x10)
    v["rsv2-on-ping"] = lambda s: s.frame(True, 9, b"", rsv=0x20)
    v["rsv1-on-ping"] = lambda s: s.frame(True, 9, b"p", rsv=0x40)
    v["rsv1-on-close"] = lambda s: s.frame(True, 8, b"", rsv=0x40)
    if not deflate:
        v["rsv1-without-extension"] = lambda s: s.frame(True, 1, b"x", rsv=0x40)
    else:
        v["rsv1-on-continuation"] = lambda s: s.frame(False, 1, b"ab") + s.frame(True, 0, b"cd", rsv=0x40)
        v["corrupt-deflate"] = lambda s: s.frame(True, 2, b"\xff\xff\xff\xff\xff", rsv=0x40)
        v["corrupt-deflate-fragmented"] = lambda s: s.frame(False, 1, b"\xff\xfe", rsv=0x40) + s.frame(True, 0, b"\xfd\xfc\xfb")
        v["inflates-over-limit"] = lambda s: s.frame(True, 2, wsh.Deflate().compress(b"z" * (LIMIT + 1)), rsv=0x40)
        # larger than the limit on the wire (padded with empty stored blocks) although it inflates to 10 bytes
        v["compressed-wire-over-limit"] = lambda s: s.frame(True, 2, padded_deflate(b"z" * 10, LIMIT + 40), rsv=0x40)
        for extra in (1, 2, 5):
            v["inflates-over-limit-short-encoding:+%d" % extra] = (lambda n: lambda s: s.frame(
                True, 2, short_deflate(b"z" * n), rsv=0x40))(LIMIT + extra)
        v["inflates-far-over-limit"] = lambda s: s.frame(True, 2, wsh.Deflate().compress(b"z" * 100000), rsv=0x40)
    v["fragmented-ping"] = lambda s: s.frame(False, 9, b"a")
    v["fragmented-close"] = lambda s: s.frame(False, 8, b"")
    v["ping-126"] = lambda s: s.frame(True, 9, b"p" * 126)
    v["pong-126"] = lambda s: s.frame(True, 10, b"p" * 126)
    v["close-126"] = lambda s: s.frame(True, 8, struct.pack("!H", 1000) + b"r" * 124)
    v["ping-125-as-16bit"] = None   # placeholder (non-minimal encoding is EITHER) -- removed below
    del v["ping-125-as-16bit"]
    v["orphan-continuation"] = lambda s: s.frame(True, 0, b"x")
    v["orphan-continuation-nonfinal"] = lambda s: s.frame(False, 0, b"x")
    v["data-inside-fragmented"] = lambda s: s.frame(False, 1, b"ab") + s.frame(True, 1, b"cd")
    # a control frame between the fragments changes nothing: the message is still open
    v["data-inside-fragmented-after-ping"] = lambda s: s.frame(False, 1, b"ab") + s.frame(True, 9, b"p") + s.frame(True, 1, b"cd")
    v["data-inside-fragmented-after-pong"] = lambda s: s.frame(False, 2, b"ab") + s.frame(True, 10, b"") + s.frame(True, 2, b"cd")
    v["data-inside-empty-fragmented"] = lambda s: s.frame(False, 1, b"") + s.frame(True, 1, b"cd")
    v["data-inside-empty-fragmented-then-continuation"] = lambda s: (s.frame(False, 2, b"") + s.frame(True, 2, b"cd")
                                                                    + s.frame(True, 0, b"ef"))
    v["binary-inside-fragmented"] = lambda s: s.frame(False, 2, b"ab") + s.frame(False, 2, b"cd")
    v["invalid-utf8"] = lambda s: s.frame(True, 1, b"ab\xff")
    v["invalid-utf8-truncated-char"] = lambda s: s.frame(True, 1, b"ab\xc3")
    v["invalid-utf8-across-fragments"] = lambda s: s.frame(False, 1, b"ab\xc3") + s.frame(True, 0, b"\x28cd")
    v["invalid-utf8-surrogate"] = lambda s: s.frame(True, 1, b"\xed\xa0\x80")
    for op in (3, 4, 5, 6, 7):
        v["opcode-%d" % op] = (lambda op: lambda s: s.frame(True, op, b"x"))(op)
    v["opcode-3-fragmented"] = lambda s: s.frame(False, 3, b"x") + s.frame(True, 0, b"y")
    for op in (0xB, 0xC, 0xD, 0xE, 0xF):
        v["opcode-%d" % op] = (lambda op: lambda s: s.frame(True, op, b""))(op)
    v["over-limit-single"] = lambda s: s.frame(True, 2, b"m" * (LIMIT + 1))
    v["over-limit-fragments"] = lambda s: s.frame(False, 2, b"m" * 40) + s.frame(True, 0, b"n" * (LIMIT + 1 - 40))
    v["over-limit-three-fragments"] = lambda s: (s.frame(False, 1, b"m" * 30) + s.frame(False, 0, b"n" * 30)
                                                 + s.frame(True, 0, b"o" * 5))
    v["far-over-limit-declared"] = lambda s: struct.pack("!BBQ", 0x82, (0x80 if s.mask else 0) | 127, 1 << 40) + (s.mask or b"")
    return v


def boundaries(deflate):
    """Messages exactly at the limit: must be delivered."""
    deflate = deflate is True
    b = {}
    b["limit-single"] = (lambda s: s.frame(True, 2, b"m" * LIMIT), b"m" * LIMIT)
    b["limit-fragments"] = (lambda s: s.frame(False, 2, b"m" * 40) + s.frame(True, 0, b"n" * (LIMIT - 40)), b"m" * 40 + b"n" * (LIMIT - 40))
    if deflate:
        b["limit-inflated"] = (lambda s: s.frame(True, 2, s.deflate.compress(b"z" * LIMIT), rsv=0x40), b"z" * LIMIT)
    return b


def valid_message(s, i, deflate):
    text = "msg%d-é" % i
    payload = text.encode()
    wire, rsv = (s.deflate.compress(payload), 0x40) if deflate is True else (payload, 0)
    if i % 2 == 1:
        # every second valid message is fragmented: the per-connection fragment state has been used (and reset) before
        # the violating frame arrives
        return s.frame(False, 1, wire[:3], rsv=rsv) + s.frame(False, 0, wire[3:5]) + s.frame(True, 0, wire[5:]), text
    return s.frame(True, 1, wire, rsv=rsv), text


def open_session(w, role, deflate, limit=LIMIT):
    if role == "server":
        return wsh.ServerSession(w, offer="permessage-deflate" if deflate is True else None,
                                 compression_options={} if deflate else None,
                                 settings={"websocket_max_message_size": limit})
    if deflate == "unoffered":
        # the client did not enable compression and offered nothing; the peer answers with permessage-deflate anyway
        return wsh.ClientSession(w, compression_options=None, response_ext="permessage-deflate",
                                 connect_kwargs={"max_message_size": limit})
    return wsh.ClientSession(w, compression_options={} if deflate else None,
                             response_ext="permessage-deflate" if deflate is True else None,
                             connect_kwargs={"max_message_size": limit})


def run_case(role, deflate, vname, nbefore, nafter, separately, boundary=False, cut=None):
    with World() as w:
        # over-long control frames must be refused because they are control frames, not because they
        # exceed max_message_size: run them with a generous message limit
        big = (not boundary) and vname.endswith("-126")
        s = open_session(w, role, deflate, 4096 if big else LIMIT)
        if role == "client" and not hasattr(s, "mask"):
            s.mask = None
        try:
            if not s.ok:
                return {"handshake_failed": True}
            chunks = []
            want = []
            for i in range(nbefore):
                fr, text = valid_message(s, i, deflate)
                chunks.append(fr)
                want.append(text)
            if boundary:
                fn, value = boundaries(deflate)[vname]
                chunks.append(fn(s))
                want.append(value)
            else:
                chunks.append(violations(deflate)[vname](s))
            for i in range(nafter):
                fr, text = valid_message(s, 100 + i, deflate)
                chunks.append(fr)
                if boundary:
                    want.append(text)
            if separately:
                for ci, c in enumerate(chunks):
                    if s.closed:
                        break
                    if cut is not None and ci == nbefore and 0 < cut < len(c):
                        s.feed(c[:cut])          # the violating frame itself arrives in two TCP segments
                        if s.closed:
                            break
                        s.feed(c[cut:])
                    else:
                        s.feed(c)
            else:
                s.feed(b"".join(chunks))
            w.pump()
            # let the closing timeout elapse: an aborted connection must be closed by now anyway
            closed_now = s.closed
            w.run_all_timers(10)
            w.pump()
            received = list(s.rec["messages"])
            if role == "server":
                ncloses = len(s.rec["closes"])
            else:
                ncloses = received.count(None)
                received = [m for m in received if m is not None]
            frames = s.take_frames()
            return {"received": received, "want": want, "closed_now": closed_now, "closed": s.closed, "ncloses": ncloses,
                    "sent_ops": [f["opcode"] for f in frames],
                    "logs": [(r[0], r[1], r[2][:70], r[3]) for r in w.logs.records if r[1] in ("ERROR", "CRITICAL")],
                    "errs": [str(c.get("message"))[:100] for c in w.loop_errors()]}
        finally:
            if role == "client":
                s.restore()


def judge(o, boundary):
    bad = []
    if o.get("handshake_failed"):
        return [("handshake-failed", "")]
    if boundary:
        if o["received"] != o["want"]:
            bad.append(("at-limit-not-delivered", "received %r, expected %r" % ([repr(x)[:20] for x in o["received"]], [repr(x)[:20] for x in o["want"]])))
        if o["closed_now"]:
            bad.append(("at-limit-closed", "connection closed for a message exactly at the limit"))
    else:
        if not o["closed"]:
            bad.append(("not-aborted", "connection still open after the violating frame (and 10 timers)"))
        elif not o["closed_now"]:
            bad.append(("aborted-only-after-timeout", "connection stayed open until a timer fired"))
        if o["received"] != o["want"]:
            n, m = len(o["received"]), len(o["want"])
            kind = "later-message-delivered" if n > m else "earlier-message-lost" if n < m else "message-altered"
            bad.append((kind, "application received %r, expected exactly %r" % ([repr(x)[:24] for x in o["received"]], o["want"])))
        if o["ncloses"] != 1:
            bad.append(("close-notification-%d-times" % o["ncloses"], "close notification fired %d times" % o["ncloses"]))
    if o["errs"]:
        bad.append(("loop-exception", repr(o["errs"][:1])))
    for l in o["logs"]:
        bad.append(("error-log:%s" % (l[3] or l[2][:24]), repr(l)))
        break
    return bad


class C15(Check):
    id = "C15"
    level = "model_checking"
    rule = ("for each role {real server side, real client side} x {no extension, permessage-deflate, compression enabled locally but not negotiated}: ~45 violating frames "
            "(reserved bits on data/control frames, RSV1 without extension / on a continuation, fragmented or 126-byte "
            "control frames, orphan continuations, a data frame inside a fragmented message, invalid UTF-8 whole / "
            "truncated / across fragments / surrogate, opcodes 3-7 and 0xB-0xF, messages over max_message_size as one "
            "frame / summed fragments / after inflation / declared 2^40, corrupt deflate data) inserted after 0..2 (thorough 0..3) valid "
            "messages and followed by 0..2 valid messages, delivered in one segment or frame by frame (thorough: also with the "
            "violating frame split at every byte offset 1..14 into two segments); plus messages "
            "exactly at the limit (must be delivered); state = one session; non-trivial = all violating sessions")
    claim = ("After the violating frame the connection is aborted without waiting for a timer, the application has "
             "received exactly the messages completed before it and nothing from it or after it, the close notification "
             "fires exactly once, nothing is logged at ERROR and no exception escapes into the loop; messages exactly at "
             "max_message_size are delivered.")
    technique = "exhaustive single-violation insertion at every position of valid sequences on the real code, both roles"
    assumptions = ["unmasked client frames / masked server frames and non-minimal length encodings are not in the statement's list (not injected)"]

    def partitions(self, tier):
        # d = "unoffered": the client offered no extension, the handshake response names permessage-deflate
        # d = "local": compression enabled on the Tornado side but the extension was not negotiated with this peer
        return ([(role, d, i, 8) for role in ("server", "client") for d in (False, True, "local") for i in range(8)]
                + [("client", "unoffered", 0, 1)])

    def run_partition(self, part, tier, st):
        role, deflate, sl, nsl = part
        names = sorted(violations(deflate))
        if deflate == "unoffered":
            names = ["rsv1-without-extension", "rsv2", "orphan-continuation"]
        k = 0
        for vname in names:
            for nbefore in (0, 1, 2, 3) if tier == "thorough" else (0, 1, 2):
                for nafter in (0, 1, 2) if tier == "thorough" else (0, 2):
                    for sep in (False, True):
                        k += 1
                        if k % nsl != sl:
                            continue
                        self.one(role, deflate, vname, nbefore, nafter, sep, False, st)
                        if tier == "thorough" and sep and nbefore in (0, 1) and nafter in (0, 2):
                            for cut in range(1, 15):
                                self.one(role, deflate, vname, nbefore, nafter, sep, False, st, cut)
        for bname in sorted(boundaries(deflate)):
            for nbefore in (0, 1):
                for sep in (False, True):
                    k += 1
                    if k % nsl != sl:
                        continue
                    self.one(role, deflate, bname, nbefore, 1, sep, True, st)

    def one(self, role, deflate, vname, nbefore, nafter, sep, boundary, st, cut=None):
        try:
            o = run_case(role, deflate, vname, nbefore, nafter, sep, boundary, cut)
        except Exception as e:
            import traceback
            tb = traceback.extract_tb(e.__traceback__)[-1]
            st.violation("%s:exception-escaped:%s:%s" % (role, type(e).__name__, vname),
                         "%s at %s:%s" % (e, tb.filename.rsplit("/", 1)[-1], tb.name),
                         {"role": role, "deflate": deflate, "v": vname, "before": nbefore, "after": nafter, "sep": sep, "boundary": boundary})
            return
        if deflate == "unoffered" and o.get("handshake_failed"):
            o = {"handshake_failed": False, "refused": True}      # refusing the handshake is the right answer
        st.ev()
        st.transitions += nbefore + nafter + 1
        key = h((role, deflate, vname, nbefore, nafter, sep, cut))
        st.states.add(key)
        if not boundary:
            st.nontrivial.add(key)
        st.outcome(h((role, vname, o.get("closed"), len(o.get("received", [])))))
        if len(st.samples) < 2 and nbefore == 1:
            st.sample({"role": role, "deflate": deflate, "violation": vname, "valid_before": nbefore, "valid_after": nafter,
                       "frame_by_frame": sep, "received": [repr(x)[:20] for x in o.get("received", [])], "closed": o.get("closed")})
        for sig, msg in ([] if o.get("refused") else judge(o, boundary)):
            st.violation("%s:%s:%s" % (role, vname, sig),
                         "role=%s deflate=%r violation=%s after %d valid, before %d valid, frame_by_frame=%r: %s"
                         % (role, deflate, vname, nbefore, nafter, sep, msg),
                         {"role": role, "deflate": deflate, "v": vname, "before": nbefore, "after": nafter, "sep": sep, "boundary": boundary,
                          "cut": cut})

    def replay(self, case):
        o = run_case(case["role"], case["deflate"], case["v"], case["before"], case["after"], case["sep"], case["boundary"],
                     case.get("cut"))
        return "%r\nverdict %r" % (o, judge(o, case["boundary"]))


CHECK = C15()
