"""C04 Server size limits bound what a peer can make the application buffer.
Shapes I x S: header-block and body sizes around the limits x body framing
(Content-Length, chunked with every split into <= 3 chunks, gzip) x limit
configuration (server-wide, per-request override) x segmentations, on the real
HTTPServer/Application stack."""
import gzip
import io
import itertools

from mc.core import Check, h
from mc import enum as en
from mc.httph import ServerConn, read_responses
from mc.vloop import World

REC = {}


def make_app():
    from tornado import web

    @web.stream_request_body
    class S(web.RequestHandler):
        def prepare(self):
            REC["chunks"] = []
            REC["prepared"] = True
            m = self.request.headers.get("X-Max")
            if m:
                self.request.connection.set_max_body_size(int(m))

        def data_received(self, chunk):
            REC["chunks"].append(chunk)

        def post(self):
            REC["done"] = True
            self.write("ok")

        def on_connection_close(self):
            REC["conn_closed"] = True

    class B(web.RequestHandler):
        def post(self):
            REC["chunks"] = [self.request.body]
            REC["done"] = True
            self.write("ok")

        def get(self):
            REC["done"] = True
            self.write("ok")

    return web.Application([("/s", S), ("/b", B)])


def gz(data):
    buf = io.BytesIO()
    with gzip.GzipFile(fileobj=buf, mode="wb", mtime=0, compresslevel=9) as f:
        f.write(data)
    return buf.getvalue()


def pattern(n):
    return bytes((65 + (i % 23)) for i in range(n))


def body_request(path, framing, payload, override=None, gzipped=False, chunks=None):
    hdr = "POST %s HTTP/1.1\r\nHost: h\r\n" % path
    if override is not None:
        hdr += "X-Max: %d\r\n" % override
    if gzipped:
        hdr += "Content-Encoding: gzip\r\n"
    if framing == "cl":
        return (hdr + "Content-Length: %d\r\n\r\n" % len(payload)).encode() + payload
    if framing == "cl-dup":         # the same length on two field lines / as a list: legal, one effective value
        return (hdr + "Content-Length: %d\r\nContent-Length: %d\r\n\r\n" % (len(payload), len(payload))).encode() + payload
    if framing == "cl-list":
        return (hdr + "Content-Length: %d, %d\r\n\r\n" % (len(payload), len(payload))).encode() + payload
    out = (hdr + "Transfer-Encoding: chunked\r\n\r\n").encode()
    p = 0
    for n in chunks:
        out += b"%x\r\n" % n + payload[p:p + n] + b"\r\n"
        p += n
    return out + b"0\r\n\r\n"


def execute(app, data, segs, server_kwargs):
    REC.clear()
    server_kwargs = dict(server_kwargs)
    start_override = server_kwargs.pop("start_override", None)
    if start_override is not None:
        from tornado import httputil
        inner = app

        class Wrap(httputil.HTTPServerConnectionDelegate):
            """a connection delegate that sets the body limit of each request when the request starts"""
            def start_request(self, server_conn, request_conn):
                request_conn.set_max_body_size(start_override)
                return inner.start_request(server_conn, request_conn)
        app = Wrap()
    with World() as w:
        c = ServerConn(w, app, **server_kwargs)
        c.send_segments(segs)
        w.pump()
        out, closed = c.output, c.closed
        rec = dict(REC)
        logs = [(r[0], r[1], r[2][:70], r[3]) for r in w.logs.records
                if r[0] != "tornado.access" and (r[1] in ("ERROR", "CRITICAL") or r[3])]
        c.eof()
        w.pump()
    return out, closed, rec, logs


def judge_body(obs, payload_plain, wire_len, limit, must):
    """must: 'accept' | 'refuse'."""
    out, closed, rec, logs = obs
    bad = []
    delivered = b"".join(rec.get("chunks", []))
    if len(delivered) > limit:
        bad.append(("delivered-more-than-limit", "application was handed %d body bytes, limit %d" % (len(delivered), limit)))
    rs, probs = read_responses(out, ["POST"], closed)
    if must == "refuse":
        if rec.get("done"):
            bad.append(("oversize-accepted", "body over the limit (%d > %d) was accepted" % (len(payload_plain), limit)))
        if not closed:
            bad.append(("oversize-not-closed", "connection not closed after refusing"))
        if not payload_plain.startswith(delivered):
            bad.append(("delivered-not-a-prefix", "delivered %r.." % delivered[:20]))
    else:
        if not rec.get("done") or delivered != payload_plain:
            bad.append(("within-limit-refused-or-altered",
                        "body within the limit (%d <= %d): done=%r delivered %d bytes, response %r"
                        % (len(payload_plain), limit, rec.get("done"), len(delivered), out[:40])))
        elif not rs or rs[0].code != 200:
            bad.append(("within-limit-no-200", "response %r" % out[:60]))
    for l in logs:
        bad.append(("error-log:%s" % (l[3] or l[2][:24]), "log %r" % (l,)))
        break
    return bad


class C04(Check):
    id = "C04"
    level = "model_checking"
    rule = ("(a) header blocks of every size L-8..L+8 and 10L for max_header_size L=128, alone and after a "
            "previous request; (b) max_body_size L=16 (and L=0 with bodies of 0, 1, 5 bytes), chunk_size 4: Content-Length bodies of L-1, L, L+1, 100L (L, L+1 also with the length repeated on two lines and as 'N, N'); "
            "chunked bodies = all compositions of totals {L-1, L, L+1, 2L} into <= 3 chunks; streaming and "
            "buffered handlers; per-request override {L/2, 2L} set in prepare(); (c) L=300 with "
            "decompress_request: gzip bodies inflating to L-1, L, L+1, 3L, 100L, also with overrides {L/2, 2L, 200L}; "
            "every case unsegmented, with every single cut (quick: every 3rd position for long streams) and "
            "byte-at-a-time; state = (case, segmentation) execution; non-trivial = cases at or above a limit")
    claim = ("For every case the application is never handed more than the effective limit, oversize messages are "
             "refused and the connection closed, messages within the limits are delivered intact and answered 200, "
             "and no error is logged.")
    technique = "exhaustive enumeration of boundary sizes x framings x limit configurations x segmentations on the real code"
    assumptions = ["header blocks of size in (L-4, L] are EITHER (terminator window)",
                   "the effective limit for a gzip body applies to both the encoded and the decoded length"]

    def cases(self, tier):
        out = []
        L = 128
        base = "GET /b HTTP/1.1\r\nHost: h\r\nX-Pad: "
        for H in list(range(L - 8, L + 9)) + [10 * L]:
            pad = H - len(base) - 4
            req = (base + "p" * pad + "\r\n\r\n").encode()
            assert len(req) == H
            out.append(("hdr", H, None, req))
            first = b"GET /b HTTP/1.1\r\nHost: h\r\n\r\n"
            out.append(("hdr2", H, None, first + req))
        # a header block well inside max_header_size followed by a body longer than max_header_size (one segment, every
        # cut): the header limit applies to the header block, not to whatever else is buffered behind it
        for path in ("/s", "/b"):
            for n in (200, 1000):
                out.append(("bigbody", path, None, n, None))
        # a per-request override larger than the stream's max_buffer_size (256): a streaming handler may raise the body
        # limit beyond what the stream buffers at once
        for n in (600, 1000, 1001):
            out.append(("cl-smallbuf", "/s", 1000, n, None))
            out.append(("chunked-smallbuf", "/s", 1000, n, (n // 2, n - n // 2)))
        for sov in (8, 32):                  # the override is set in HTTPServerConnectionDelegate.start_request
            for n in (sov - 1, sov, sov + 1):
                out.append(("cl-startreq", "/b", sov, n, None))
                out.append(("chunked-startreq", "/s", sov, n, (n,)))
        L = 16
        for path in ("/s", "/b"):
            for n in (L - 1, L, L + 1, 100 * L):
                out.append(("cl", path, None, n, None))
            for n in (L, L + 1):
                out.append(("cl-dup", path, None, n, None))
                out.append(("cl-list", path, None, n, None))
            for total in (L - 1, L, L + 1, 2 * L):
                for comp in en.compositions(total, 3):
                    out.append(("chunked", path, None, total, comp))
        for ov in (L // 2, 2 * L):
            for n in sorted({ov - 1, ov, ov + 1, L - 1, L, L + 1}):
                out.append(("cl", "/s", ov, n, None))
                if n in (ov, ov + 1):
                    out.append(("cl-list", "/s", ov, n, None))
                out.append(("chunked", "/s", ov, n, (n,)))
                if n > 3:
                    out.append(("chunked", "/s", ov, n, (1, n - 2, 1)))
        for path in ("/s", "/b"):          # a configured limit of 0 is a limit (no body at all), not "unset"
            for n in (0, 1, 5):
                out.append(("cl@0", path, None, n, None))
                if n:
                    out.append(("chunked@0", path, None, n, (n,)))
        for n in (0, 1):
            out.append(("cl", "/s", 0, n, None))
        G = 300
        for n in (G - 1, G, G + 1, 3 * G, 100 * G):
            out.append(("gzip", "/s", None, n, None))
            out.append(("gzip", "/b", None, n, None))
            out.append(("gzipchunked", "/s", None, n, None))
        for ov in (G // 2, 2 * G, 200 * G):
            for n in sorted({ov - 1, ov, ov + 1, G - 1, G, G + 1}):
                if n <= 100 * G:
                    out.append(("gzip", "/s", ov, n, None))
        return out

    def partitions(self, tier):
        n = len(self.cases(tier))
        return [(i, 32) for i in range(32)]

    def run_partition(self, part, tier, st):
        s, nsl = part
        app = make_app()
        for i, case in enumerate(self.cases(tier)):
            if i % nsl == s:
                self.run_case(app, case, tier, st)

    def run_case(self, app, case, tier, st):
        kind = case[0]
        if kind in ("hdr", "hdr2"):
            _, H, _, data = case
            kw = dict(max_header_size=128)
            L = 128
            must = "refuse" if H > L else "accept" if H <= L - 4 else "either"
            nreq = 2 if kind == "hdr2" else 1

            def judge(obs):
                out, closed, rec, logs = obs
                rs, probs = read_responses(out, ["GET"] * nreq, closed)
                ok200 = len([r for r in rs if r.code == 200])
                bad = []
                if must == "refuse" and ok200 == nreq:
                    bad.append(("oversize-header-accepted", "header block of %d bytes accepted (limit %d)" % (H, L)))
                if must == "refuse" and not closed:
                    bad.append(("oversize-header-not-closed", "connection open after %d-byte header block" % H))
                if must == "accept" and ok200 != nreq:
                    bad.append(("header-within-limit-refused", "header block of %d bytes refused (limit %d): %r" % (H, L, out[:50])))
                for l in logs:
                    bad.append(("error-log:%s" % (l[3] or l[2][:24]), "log %r" % (l,)))
                    break
                return bad
            nontrivial = H > L - 4
        else:
            _, path, ov, n, comp = case
            if kind.startswith("gzip"):
                L = 300
                kw = dict(max_body_size=L, chunk_size=16, decompress_request=True)
                plain = pattern(7) * (n // 7) + pattern(n % 7)
                plain = (b"A" * n)
                wire = gz(plain)
                if kind == "gzip":
                    data = body_request(path, "cl", wire, ov, gzipped=True)
                else:
                    k = max(1, len(wire) // 2)
                    data = body_request(path, "chunked", wire, ov, gzipped=True, chunks=(k, len(wire) - k))
                limit = ov if ov is not None else L
                must = "accept" if (n <= limit and len(wire) <= limit) else "refuse"
            elif kind == "bigbody":
                kw = dict(max_header_size=128)
                plain = pattern(n)
                wire = plain
                data = body_request(path, "cl", wire, ov)
                assert data.index(b"\r\n\r\n") + 4 < 100
                limit, must = 10 ** 9, "accept"
            else:
                L = 0 if kind.endswith("@0") else 16
                kw = dict(max_body_size=L, chunk_size=4)
                if kind.endswith("-smallbuf"):
                    kw = dict(max_body_size=L, chunk_size=64, max_buffer_size=256)
                sov = None
                if kind.endswith("-startreq"):
                    kw["start_override"] = sov = ov
                    ov = None
                plain = pattern(n)
                wire = plain
                data = body_request(path, kind.split("@")[0].replace("-smallbuf", "").replace("-startreq", "") if kind.startswith("cl") else "chunked", wire, ov, chunks=comp)
                limit = ov if ov is not None else (sov if sov is not None else L)
                must = "accept" if n <= limit else "refuse"

            def judge(obs):
                return judge_body(obs, plain, len(wire), limit, must)
            nontrivial = n >= limit
        # segmentations
        segs_list = [[data]]
        step = 1 if (tier == "thorough" or len(data) <= 60) else 5
        if len(data) <= 700:
            segs_list += [en.segments(data, (c,)) for c in range(1, len(data), step)]
            segs_list.append([data[i:i + 1] for i in range(len(data))])
        else:
            segs_list += [en.segments(data, (c,)) for c in range(1, len(data), 97)]
        for segs in segs_list:
            obs = execute(app, data, segs, kw)
            st.ev()
            st.transitions += len(segs)
            key = h((case[:3], case[3] if kind[:3] != "hdr" else None, comp if kind[:3] != "hdr" else H,
                     tuple(len(x) for x in segs)))
            st.states.add(key)
            if nontrivial:
                st.nontrivial.add(key)
            st.outcome(h((kind, must, obs[1], bool(obs[2].get("done")))))
            if must == "either":
                st.note("either:header-terminator-window")
            for sig, msg in judge(obs):
                st.violation("%s:%s%s" % (kind, sig, ":override" if (kind[:3] != "hdr" and ov is not None) else ""),
                             "case %r segmentation %r: %s" % (case[:3] + (case[3] if kind[:3] != "hdr" else H,) + ((case[4],) if kind[:3] != "hdr" else ()),
                                                             [len(x) for x in segs][:8], msg),
                             {"case": list(case[:5]) if kind[:3] != "hdr" else [kind, H], "segs": [len(x) for x in segs]})
        if len(st.samples) < 3 and nontrivial:
            st.sample({"case": repr(case[:3]) + repr(case[3] if kind[:3] != "hdr" else H), "request_prefix": data[:100].decode("latin1"),
                       "verdict": must})

    def replay(self, case):
        app = make_app()
        c = case["case"]
        if c[0] in ("hdr", "hdr2"):
            full = [x for x in self.cases("quick") if x[0] == c[0] and x[1] == c[1]][0]
        else:
            full = [x for x in self.cases("quick") if list(x[:5]) == [c[0], c[1], c[2], c[3], tuple(c[4]) if c[4] else None]][0]
        st = __import__("mc.core", fromlist=["Stats"]).Stats()
        self.run_case(app, full, "quick", st)
        return "case %r\nviolations: %r" % (c, {k: v[0] for k, v in st.violations.items()})


CHECK = C04()
