"""C33 Locks and semaphores never over-grant, lose wakeups or skip the queue.
Shapes H x S: explicit-state BFS over operation histories (acquire with and
without timeout, release, cancellation of the k-th pending future, clock
advance) on the real tornado.locks objects over a virtual loop, compared step
by step with the sequential reference mc.syncmodel.RefSem."""
from mc.core import Check
from mc import syncmodel

OPS = [("acq", None), ("acq", "td"), ("acq", "abs"), ("acq", "zero"), ("acq_ctx",), ("rel",), ("cancel", 0), ("cancel", 1),
       ("cancel", -1), ("adv",)]
SPECS = [("sem", 0), ("sem", 1), ("sem", 2), ("bsem", 1), ("bsem", 2), ("lock",), ("bsem", 0)]


def gc_history(kind, live_at=()):
    """> 100 timed-out waiters: exercises the timeout garbage collector; live_at: after how many timeouts a waiter
    without timeout joins the queue (so live waiters sit before, between and behind the dead ones when it runs)."""
    hist = []
    for k in range(103):
        if k in live_at:
            hist.append((kind, None))
        hist += [(kind, "td"), ("adv",), ("adv",)]
    return hist


class C33(Check):
    id = "C33"
    level = "model_checking"
    rule = ("BFS over all histories up to the depth bound of {acquire(no timeout | timedelta | absolute "
            "deadline | zero), a task entering 'async with', release, cancel k-th pending future (first, second, newest), advance clock 0.5 s} "
            "on Semaphore(0|1|2), BoundedSemaphore(1|2), Lock; state = (value, waiter deque done-flags, "
            "gc counter, remaining times of pending futures, loop timers); after every op the state of every "
            "future, the op's result/raise and the reference invariants are compared; plus one long "
            "history with 103 timed-out waiters behind three live ones; non-trivial = states with a pending waiter or reached "
            "through a cancel/advance")
    claim = ("Every operation history within the bound is executed on the real objects; agreement with a "
             "sequential reference model implies no over-grant, FIFO service among live waiters, no lost "
             "wake-up, no grant to dead waiters, and the documented raises.")
    technique = "explicit-state model checking of operation histories on the real code against a sequential reference model"
    assumptions = ["timeouts are 1 s, clock advances in 0.5 s steps (all relative placements of two "
                   "deadlines and operations are reachable)",
                   "future resolution is observed after the loop is drained"]

    def depth(self, tier):
        return 6 if tier == "quick" else 8

    def partitions(self, tier):
        parts = [(spec, i) for spec in SPECS for i in range(len(OPS))]
        parts.append(("gc", 0))
        parts += [(spec, "burst") for spec in SPECS]      # several operations within one loop iteration
        return parts

    def run_partition(self, part, tier, st):
        spec, i = part
        if spec == "gc":
            for sp in (("sem", 0), ("lock",)):
                pre = [("acq", None)] if sp[0] == "lock" else []
                # three live waiters are queued while the collector prunes the timed-out ones: service stays FIFO
                pre += [("acq", None), ("acq", None), ("acq", None)]
                tail = [("rel",), ("acq", None), ("rel",), ("acq", "td"), ("rel",), ("rel",), ("rel",), ("rel",), ("rel",), ("rel",)]
                for live_at in ((), (40, 100), (1, 99, 100), (100,), (50, 101)):
                    hist = pre + gc_history("acq", live_at) + tail
                    st.ev()
                    st.transitions += len(hist)
                    try:
                        canon, nf = syncmodel.run_history(sp, tuple(hist))
                        st.state(("gc", sp, live_at, canon))
                        st.note("gc_history_futures", nf)
                    except syncmodel.Mismatch as m:
                        st.violation("gc:%s:%s" % (sp[0], m.what.split(" ")[0]),
                                     "%r gc history (live waiters joining after %r timeouts): %s" % (sp, live_at, m),
                                     {"spec": sp, "hist": hist})
            return
        if i == "burst":
            # (no 'async with' task in front of a burst with cancellations: cancelling a task only takes effect when the loop runs)
            syncmodel.burst_family(spec, [o for o in OPS if o[0] != "acq_ctx"],
                                   [("acq", None), ("rel",), ("acq", "zero"), ("acq", "td"), ("cancel", 0), ("cancel", -1)],
                                   5 if tier == "quick" else 6, st)
            return
        syncmodel.bfs(spec, OPS, [OPS[i]], self.depth(tier), st)
        st.setmax("depth", self.depth(tier))

    def replay(self, case):
        spec = tuple(case["spec"])
        hist = tuple(tuple(o) if o[0] != "burst" else ("burst", tuple(tuple(x) for x in o[1])) for o in case["hist"])
        try:
            canon, nf = syncmodel.run_history(spec, hist)
            return "history agrees with the reference; state %r" % (canon,)
        except syncmodel.Mismatch as m:
            return "MISMATCH %s" % m


CHECK = C33()
