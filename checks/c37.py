"""C37 Decorated generator coroutines behave like native coroutines.
Shapes I x S: every coroutine body from a bounded statement grammar is emitted
twice - as @gen.coroutine source (yield) and as async def source (await) -
and both are run on fresh virtual loops for every assignment of outcomes to
the awaited futures and every completion order (including futures already done
before the call); side-effect traces and final outcomes must be identical."""
import asyncio
import collections.abc
import contextvars
import itertools

from mc.core import Check, h
from mc.vloop import World

YIELDABLES = ["F0", "F1", "LIST", "DICT", "NONE", "NATIVE", "SUB", "F0AGAIN", "CF", "AW", "LISTN", "DICTM"]
SIMPLE = [("log",)] + [("y", e) for e in YIELDABLES] + [("ret",), ("raise",), ("ifret",), ("cvset",), ("ifretgen",)]


class Aw:
    """An awaitable that is neither a coroutine object nor a Future (a class with __await__)."""

    def __init__(self, f):
        self.f = f

    def __await__(self):
        return self.f.__await__()
CV = contextvars.ContextVar("c37", default="unset")


class Err(Exception):
    pass


def emit(stmts, gen_form, indent=1, counter=None):
    """-> list of source lines."""
    counter = counter if counter is not None else [0]
    pad = "    " * indent
    out = []
    Y = "yield" if gen_form else "await"
    for s in stmts:
        counter[0] += 1
        k = counter[0]
        if s[0] == "log":
            out.append(pad + "log(('s%d', CV.get()))" % k)
        elif s[0] == "cvset":
            out.append(pad + "CV.set('inner%d')" % k)
        elif s[0] == "y":
            e = s[1]
            if e in ("F0", "F1", "F0AGAIN"):
                expr = "F[%s]" % ("0" if e != "F1" else "1")
            elif e == "LIST":
                expr = "[F[0], F[1]]" if gen_form else "ref_multi([F[0], F[1]])"
            elif e == "DICT":
                expr = "{'a': F[1], 'b': F[0]}" if gen_form else "ref_multi({'a': F[1], 'b': F[0]})"
            elif e == "LISTN":
                # None as a child of a yielded container (an optional hook that returns a future or None)
                expr = "[None, F[0]]" if gen_form else "ref_multi([asyncio.sleep(0), F[0]])"
            elif e == "DICTM":
                # a dict the rest of the program goes on using: its entries are removed as the operations finish
                expr = "DM(F)" if gen_form else "ref_multi(DM(F))"
            elif e == "NONE":
                expr = "None" if gen_form else "asyncio.sleep(0)"
            elif e == "CF":
                # a concurrent.futures.Future (settled together with F[2]); natively it is awaited through asyncio
                expr = "CF" if gen_form else "asyncio.wrap_future(CF)"
            elif e == "AW":
                expr = "Aw(F[2])"
            elif e == "NATIVE":
                expr = "native(F[2])"
            else:
                expr = "sub(F[2])"
            out.append(pad + "v%d = %s %s" % (k, Y, expr))
            out.append(pad + "log(('got%d', v%d, CV.get()))" % (k, k))
        elif s[0] == "ret":
            out.append(pad + "return ('ret', %d)" % k)
        elif s[0] == "raise":
            out.append(pad + "raise Err('raised%d')" % k)
        elif s[0] == "ifret":
            out.append(pad + "if flag:")
            out.append(pad + "    return ('early', %d)" % k)
        elif s[0] == "ifretgen":
            # the legacy spelling of an early return in a decorated generator
            out.append(pad + "if flag:")
            out.append(pad + ("    raise gen.Return(('early', %d))" if gen_form else "    return ('early', %d)") % k)
        elif s[0] == "try":
            _, body, variant, handler = s
            out.append(pad + "try:")
            out += emit(body, gen_form, indent + 1, counter)
            if variant in ("except", "both"):
                out.append(pad + "except Err as e:")
                out.append(pad + "    log(('caught%d', str(e), CV.get()))" % k)
                out += emit(handler, gen_form, indent + 1, counter)
            if variant in ("finally", "both"):
                out.append(pad + "finally:")
                out.append(pad + "    log(('fin%d', CV.get()))" % k)
    return out


def DM(F):
    """{'a': F[1], 'b': F[0]} whose entries delete themselves when their future completes"""
    d = {"a": F[1], "b": F[0]}
    for k, f in list(d.items()):
        f.add_done_callback(lambda _f, k=k: d.pop(k, None))
    return d


class GenProxy(collections.abc.Generator):
    """A generator-protocol object that is not a builtin generator (what a tracing decorator puts around a body)."""

    def __init__(self, g):
        self.g = g

    def send(self, v):
        return self.g.send(v)

    def throw(self, *a):
        return self.g.throw(*a)

    def close(self):
        return self.g.close()


def proxied(fn):
    import functools

    @functools.wraps(fn)
    def w(*a, **k):
        return GenProxy(fn(*a, **k))
    return w


async def ref_multi(children):
    """The documented meaning of yielding a list / dict of awaitables, written with plain awaits: wait for every
    child; the result keeps list / key order; if any child failed, the first failure in list / key order is raised."""
    keys = list(children.keys()) if isinstance(children, dict) else None
    fs = list(children.values()) if keys is not None else list(children)
    res, first = [], None
    for f in fs:
        try:
            res.append(await f)
        except Exception as e:
            if first is None:
                first = e
    if first is not None:
        raise first
    return dict(zip(keys, res)) if keys is not None else res


def compile_pair(stmts, proxy=False):
    src = {}
    fns = {}
    for gen_form in (True, False):
        head = (("@gen.coroutine\n@proxied\ndef prog(F, log, native, sub, flag, CF):" if proxy else
                 "@gen.coroutine\ndef prog(F, log, native, sub, flag, CF):") if gen_form
                else "async def prog(F, log, native, sub, flag, CF):")
        lines = [head, "    log(('cv', CV.get()))"] + emit(stmts, gen_form) + ["    log('end')"]
        code = "\n".join(lines) + "\n"
        ns = {}
        from tornado import gen
        exec(compile(code, "<c37-%s>" % ("gen" if gen_form else "native"), "exec"),
             {"gen": gen, "asyncio": asyncio, "Err": Err, "CV": CV, "ref_multi": ref_multi, "Aw": Aw, "DM": DM,
              "proxied": proxied}, ns)
        fns[gen_form] = ns["prog"]
        src[gen_form] = code
    return fns, src


def run_one(fn, gen_form, outcomes, order, npre, flag):
    from tornado import gen
    with World() as w:
        F = [asyncio.Future() for _ in range(3)]
        log = []

        async def native(f):
            r = await f
            log.append(("native-got", r))
            return ("n", r)

        @gen.coroutine
        def sub(f):
            r = yield f
            log.append(("sub-got", r))
            return ("s", r)

        import concurrent.futures
        CF = concurrent.futures.Future()

        def settle(i):
            if outcomes[i] == "r":
                F[i].set_result("val%d" % i)
                if i == 2:
                    CF.set_result("cf-val")
            else:
                F[i].set_exception(Err("F%d failed" % i))
                if i == 2:
                    CF.set_exception(Err("CF failed"))
            # nothing may have run inside the completing call itself: resumption happens on a later loop iteration
            log.append(("settled", i))
        for i in order[:npre]:
            settle(i)
        tok = CV.set("outer")
        try:
            try:
                if gen_form:
                    fut = fn(F, log.append, native, sub, flag, CF)
                else:
                    fut = asyncio.ensure_future(fn(F, log.append, native, sub, flag, CF))
            except Exception as e:
                return (list(log), ("sync-raise", type(e).__name__, str(e)))
        finally:
            caller_cv = CV.get()
            CV.reset(tok)
        w.pump()
        for i in order[npre:]:
            settle(i)
            w.pump()
        w.pump()
        for f in F:
            if f.done() and not f.cancelled():
                f.exception()
        if not fut.done():
            out = ("pending",)
        elif fut.cancelled():
            out = ("cancelled",)
        elif fut.exception() is not None:
            out = ("exc", type(fut.exception()).__name__, str(fut.exception()))
        else:
            out = ("ok", fut.result())
        return (list(log), out, caller_cv)


def programs(tier):
    simple = SIMPLE
    progs = []
    for n in ((1, 2, 3) if tier == "quick" else (1, 2, 3, 4)):
        for p in itertools.product(simple, repeat=n):
            if n == 3 and tier == "quick" and sum(1 for s in p if s[0] == "y") < 2:
                continue
            if n == 4 and sum(1 for s in p if s[0] == "y") < 2:
                continue
            progs.append(list(p))
    inner_stmts = [s for s in simple if s[0] not in ("ifret", "ifretgen")]
    inners = [[a] for a in inner_stmts] + [[a, b] for a in inner_stmts for b in inner_stmts
                                           if a[0] == "y" or b[0] in ("raise", "ret")]
    handlers = [[], [("y", "F1")], [("ret",)], [("raise",)]]
    pres = [[], [("y", "F0")]]
    posts = [[], [("y", "F1")], [("log",)]]
    for inner in inners:
        for variant in ("except", "finally", "both"):
            for hd in (handlers if variant != "finally" else [[]]):
                for pre in pres:
                    for post in posts:
                        progs.append(pre + [("try", inner, variant, hd)] + post)
    if tier == "thorough":
        # nested try inside a try body
        for inner in inners[:40]:
            for variant in ("except", "both"):
                nested = ("try", inner, variant, [])
                for outer_variant in ("except", "finally", "both"):
                    progs.append([("try", [nested, ("y", "F1")], outer_variant, [("y", "F0")])])
                    progs.append([("try", [("y", "F0"), nested], outer_variant, [])])
    return progs


SCHEDULES = [(order, npre) for order in itertools.permutations(range(3)) for npre in range(4)]


class C37(Check):
    id = "C37"
    level = "model_checking"
    rule = ("all coroutine bodies from the grammar {log, v = yield F0|F1|[F0,F1]|{a:F1,b:F0}|None|native(F2)|gen-sub(F2)|concurrent.futures.Future| "
            "F0 again, return, raise, if flag: return, set the context variable, try/except/finally (except / finally / both, handler empty or "
            "yielding / returning / raising)} as sequences of <= 3 (thorough: <= 4 with >= 2 yields) simple statements and try blocks with <= 2 inner "
            "statements plus optional pre/post statements (thorough: nested try), each compiled as @gen.coroutine and as "
            "async def; x outcomes {result, exception} for each of 3 futures x every completion order x number of "
            "futures already done before the call (0..3) x flag; state = (program, outcomes, schedule) pair of runs; "
            "non-trivial = runs where a future fails or completes after the call")
    claim = ("For every program and schedule the side-effect trace (including the caller's context variable seen inside) "
             "and the final result/exception of the decorated generator coroutine equal those of the native coroutine.")
    technique = "exhaustive enumeration of a program grammar x outcome assignments x completion schedules; differential oracle between two forms"
    assumptions = ["cancellation and BaseExceptions are outside the grammar",
                   "'yield None' corresponds to 'await asyncio.sleep(0)'; a yielded list/dict corresponds to awaiting the "
                   "children one after the other, collecting results in list/key order and raising the first failure in "
                   "that order (the documented meaning; tornado.gen.multi is not used on the reference side)",
                   "every logged side effect carries the context variable's current value, so a resumption in the wrong "
                   "context is a trace difference"]

    def partitions(self, tier):
        return [(i, 64) for i in range(64)]

    def run_partition(self, part, tier, st):
        s, nsl = part
        for pi, stmts in enumerate(programs(tier)):
            if pi % nsl != s:
                continue
            try:
                fns, src = compile_pair(stmts)
            except SyntaxError as e:
                st.error("generated program does not compile: %r %s" % (stmts, e))
                continue
            uses = src[True]
            nf = [("F[0]" in uses), ("F[1]" in uses), ("F[2]" in uses or "CF" in uses.split("def prog", 1)[1].split(":", 1)[1])]
            outcome_sets = itertools.product(*[("r", "e") if u else ("r",) for u in nf])
            for outcomes in outcome_sets:
                for order, npre in SCHEDULES:
                    # skip schedules that only permute unused futures
                    if any(not nf[i] for i in order[:1]) and not all(nf):
                        if order != tuple(sorted(order, key=lambda i: (not nf[i], i))):
                            continue
                    for flag in ((False, True) if "flag" in uses.split("def prog")[1].split(":", 1)[1] and "if flag" in uses else (False,)):
                        a = run_one(fns[True], True, outcomes, order, npre, flag)
                        b = run_one(fns[False], False, outcomes, order, npre, flag)
                        st.ev(2)
                        st.transitions += 2 * (4 - npre)
                        key = h((pi, outcomes, order, npre, flag))
                        st.states.add(key)
                        if "e" in outcomes or npre < 3:
                            st.nontrivial.add(key)
                        st.outcome(h(a[1][:2]))
                        if a != b:
                            what = "trace" if a[0] != b[0] else "outcome"
                            kinds = sorted({x[0] if x[0] != "y" else "y:" + x[1] for x in flatten(stmts)})
                            st.violation("differs:%s:%s" % (what, a[1][0] + "-vs-" + b[1][0]),
                                         "program\n%s\noutcomes %r order %r pre-done %d flag %r:\n gen.coroutine -> %r\n async def   -> %r"
                                         % (src[True], outcomes, order, npre, flag, a, b),
                                         {"stmts": stmts, "outcomes": outcomes, "order": order, "npre": npre, "flag": flag})
            if any(x[0] == "y" for x in flatten(stmts)):
                # the same body behind a generator proxy (not a builtin generator object): one schedule per program
                fp, srcp = compile_pair(stmts, proxy=True)
                a = run_one(fp[True], True, ("r", "r", "r"), (0, 1, 2), 1, False)
                b = run_one(fns[False], False, ("r", "r", "r"), (0, 1, 2), 1, False)
                st.ev(2)
                if a != b:
                    st.violation("differs:generator-proxy:%s" % (a[1][0] + "-vs-" + b[1][0]),
                                 "program behind a collections.abc.Generator proxy\n%s\n gen.coroutine -> %r\n async def   -> %r"
                                 % (srcp[True], a, b),
                                 {"stmts": stmts, "outcomes": ("r", "r", "r"), "order": (0, 1, 2), "npre": 1, "flag": False, "proxy": True})
            if len(st.samples) < 2 and any(x[0] == "try" for x in stmts):
                st.sample({"gen_source": src[True], "native_source": src[False]})

    def replay(self, case):
        stmts = tuplify(case["stmts"])
        fns, src = compile_pair(stmts, proxy=case.get("proxy", False))
        a = run_one(fns[True], True, tuple(case["outcomes"]), tuple(case["order"]), case["npre"], case["flag"])
        b = run_one(fns[False], False, tuple(case["outcomes"]), tuple(case["order"]), case["npre"], case["flag"])
        return "%s\n%s\ngen.coroutine -> %r\nasync def   -> %r\nequal: %r" % (src[True], src[False], a, b, a == b)


def flatten(stmts):
    for s in stmts:
        yield s
        if s[0] == "try":
            yield from flatten(s[1])
            yield from flatten(s[3])


def tuplify(x):
    if isinstance(x, list):
        return [tuplify_stmt(s) for s in x]
    return x


def tuplify_stmt(s):
    if s[0] == "try":
        return ("try", tuplify(s[1]), s[2], tuplify(s[3]))
    return tuple(s)


CHECK = C37()
