"""C22 linkify output is escaped text plus safe links only.
Shape I: bounded exhaustive enumeration of (text, options).  Two designed
families of texts:
  A  every concatenation of <= k tokens from a URL/entity/quote/protocol
     token set (k = 3 quick, 4 thorough);
  B  an offset sweep  proto + host(h) [+ "/" + segment(m)] + special + tail
     that puts every special character / entity at every offset around the
     shortening thresholds (30 / 45 characters, 8-character path clip);
each under every combination of shorten / require_protocol /
permitted_protocols / extra_params.  The real linkify output is scanned with a
strict scanner written here and, independently, with the stdlib HTMLParser
("what a browser sees"); nothing is computed with tornado.escape."""
import html
import itertools
import re
from html.parser import HTMLParser

from mc.core import Check, h

F25 = "abcdefghijklmnopqrstuvwxy"
F28 = F25 + "zab"
F31 = F28 + "cde"
TOK = ["http://", "https://", "ftp://", "javascript:", "www.", "a.com", "/p", "/abcdefgh",
       "/abcdefghijkl", "?q=1&r=2", '"', "'", "<", ">", "&", "&amp;", "(", ")", ".", " ",
       "\u00e9", F25, F28, F31, "HTTPS://", "http\u017f://"]

PERMITTED = [None, ["http", "https", "ftp"], ["http", "https", "javascript"], ["http"], []]   # None = default;
# the last one makes "https" a scheme that merely *starts with* a permitted one
EXTRA = ["", ' rel="nofollow" ', "callable"]
EXTRA_OUT = ["", ' rel="nofollow"', ' class="c"']
EXTRA_ATTRS = [[], [("rel", "nofollow")], [("class", "c")]]
OPTS_ALL = list(itertools.product((False, True), (False, True), tuple(range(len(PERMITTED))), (0, 1, 2)))
OPTS_NOEXTRA = [o for o in OPTS_ALL if o[3] == 0]

B_PROTO = ["http://", "https://", "www.", "ftp://"]
B_SPECIAL = ["&", '"', "'", "&amp;", "?", ".", "<", "\u00e9", "&b&", "&&", '"&', "&'x&"]
B_TAIL = ["", "x", "x" * 20, "/yy", ".z"]
B_SEG = [None] + list(range(0, 10))
LETTERS = "abcdefghijklmnopqrstuvwxyz" * 3


def b_text(proto, hl, m, special, tail):
    s = proto + LETTERS[:hl]
    if m is not None:
        s += "/" + LETTERS[:m]
    return s + special + tail


# ----------------------------------------------------------------- references
ENT = {"&amp;": "&", "&lt;": "<", "&gt;": ">", "&quot;": '"', "&#x27;": "'", "&#39;": "'"}
_ENT_ONE = re.compile(r"&(?:amp|lt|gt|quot|#x27|#39);")
_ENT_ALL = re.compile(r"(?:&(?:amp|lt|gt|quot|#x27|#39);|[^&<>\"'])*", re.S)


def ent_decode(e):
    """Tokenise into (one of the five entities | one non-special character)*.
    Returns the decoded text, or None when a raw special or a stray/split '&'
    occurs."""
    if _ENT_ALL.fullmatch(e) is None:
        return None
    return _ENT_ONE.sub(lambda m: ENT[m.group(0)], e)


class Malformed(Exception):
    pass


def scan(out):
    """Strict scanner: output = (text | <a href="H"P>L</a>)*, text/L free of
    '<' and '>'.  Returns list of ("text", s) / ("link", href, params, label)."""
    items = []
    pos = 0
    n = len(out)
    while pos < n:
        lt = out.find("<", pos)
        chunk = out[pos:] if lt == -1 else out[pos:lt]
        if ">" in chunk:
            raise Malformed("raw '>' in text")
        if chunk:
            items.append(("text", chunk))
        if lt == -1:
            break
        if not out.startswith('<a href="', lt):
            raise Malformed("'<' that does not open an inserted anchor")
        q = out.find('"', lt + 9)
        if q == -1:
            raise Malformed("unterminated href")
        href = out[lt + 9:q]
        gt = out.find(">", q + 1)
        if gt == -1:
            raise Malformed("unterminated start tag")
        params = out[q + 1:gt]
        end = out.find("</a>", gt + 1)
        if end == -1:
            raise Malformed("anchor not closed")
        label = out[gt + 1:end]
        if "<" in label or ">" in label or "<" in href or "<" in params:
            raise Malformed("angle bracket inside anchor")
        items.append(("link", href, params, label))
        pos = end + 4
    return items


class _Browser(HTMLParser):
    def __init__(self):
        HTMLParser.__init__(self, convert_charrefs=True)
        self.tags = []
        self.text = []
        self.depth = 0
        self.bad = None

    def handle_starttag(self, tag, attrs):
        self.tags.append((tag, attrs))
        self.depth += 1
        if self.depth > 1:
            self.bad = "nested tag"

    def handle_endtag(self, tag):
        self.depth -= 1
        if tag != "a" or self.depth < 0:
            self.bad = "unexpected end tag %r" % tag

    def handle_startendtag(self, tag, attrs):
        self.bad = "self-closing tag"

    def handle_data(self, data):
        self.text.append(data)

    def handle_comment(self, data):
        self.bad = "comment"

    def handle_decl(self, decl):
        self.bad = "declaration"

    def handle_pi(self, data):
        self.bad = "processing instruction"

    def unknown_decl(self, data):
        self.bad = "unknown declaration"


def browser_view(out):
    p = _Browser()
    p.feed(out)
    p.close()
    return p.tags, "".join(p.text), p.bad or (None if p.depth == 0 else "unbalanced")


_SIMPLE_URL = re.compile(r"(?:(https?|ftp)://|www\.)[a-z0-9]+(?:\.[a-z0-9]+)+(?:/[a-z0-9]+)*\Z")


def evaluate(E, text, opts, st, obs=None):
    """Run the real linkify on one (text, options) case; return [(sig, msg)]."""
    shorten, require, pi, xi = opts
    kwargs = {"shorten": shorten, "require_protocol": require}
    if PERMITTED[pi] is not None:
        kwargs["permitted_protocols"] = list(PERMITTED[pi])
    permitted = PERMITTED[pi] if PERMITTED[pi] is not None else ["http", "https"]     # [] permits nothing
    calls = []
    if EXTRA[xi] == "callable":
        def cb(href):
            calls.append(href)
            return ' class="c" '
        kwargs["extra_params"] = cb
    elif EXTRA[xi]:
        kwargs["extra_params"] = EXTRA[xi]
    st.ev()
    try:
        out = E.linkify(text, **kwargs)
    except Exception as e:
        return [("linkify:raised:" + type(e).__name__, "linkify(%r, %r) raised %r" % (text, opts, e))]
    desc = "linkify(%r, shorten=%r, require_protocol=%r, permitted=%r, extra=%r) = %r" % (
        text, shorten, require, permitted, EXTRA[xi], out)
    if obs is not None:
        obs.append(desc)
    if not isinstance(out, str):
        return [("linkify:non-str-result", desc)]
    bad = []
    try:
        items = scan(out)
    except Malformed as e:
        return [("structure:" + str(e), desc)]
    rebuilt = []
    links = []
    shape = []
    for it in items:
        if it[0] == "text":
            rebuilt.append(it[1])
            continue
        _, href, params, label = it
        # -- which source text does this link stand for? -----------------------
        cands = [href]
        if href.startswith("http://www."):
            cands.append(href[7:])
        url = None
        short = False
        for c in cands:
            if label == c:
                url = c
                break
        if url is None:
            for c in cands:
                if label.endswith("...") and len(label) - 3 < len(c) and c.startswith(label[:-3]) \
                        and len(label) > 3:
                    url, short = c, True
                    break
        if obs is not None:
            obs.append("  link href=%r params=%r label=%r -> stands for %r%s"
                       % (href, params, label, url, " (shortened)" if short else ""))
        if url is None:
            bad.append(("label:not-url-nor-prefix-plus-dots",
                        "label %r is neither the URL nor a proper prefix of %r + '...'; %s"
                        % (label, href, desc)))
            rebuilt.append(href)
            continue
        rebuilt.append(url)
        if short and not shorten:
            bad.append(("label:shortened-although-shorten-false", desc))
        # -- href safety -----------------------------------------------------------
        if any(ch in href for ch in "<>'\"") or ent_decode(href) is None:
            bad.append(("href:raw-special-or-stray-ampersand", "href %r; %s" % (href, desc)))
        protoless = url != href
        if protoless:
            if require:
                bad.append(("require_protocol:protocol-less-link-made", desc))
        else:
            scheme = href.split(":", 1)[0] if ":" in href else None
            if scheme not in permitted:
                bad.append(("href:protocol-not-permitted",
                            "href %r has scheme %r, permitted %r; %s" % (href, scheme, permitted, desc)))
        # -- attributes --------------------------------------------------------------
        title = ' title="%s"' % href
        if params == EXTRA_OUT[xi]:
            has_title = False
        elif params == EXTRA_OUT[xi] + title:
            has_title = True
        else:
            has_title = None
            bad.append(("structure:unexpected-attributes", "attributes %r; %s" % (params, desc)))
        # -- entity integrity of the visible label -----------------------------------
        vis = label[:-3] if short else label
        if ent_decode(vis) is None:
            bad.append(("shorten:entity-split" if short else "label:entity-split",
                        "label %r ends inside a character entity (URL %r); %s" % (label, url, desc)))
        links.append((href, has_title))
        shape.append((short, protoless, "&" in url, has_title, min(len(label), 50)))
    # -- the text outside / under the links is exactly the escaped input ------------
    rb = "".join(rebuilt)
    dec = ent_decode(rb)
    if obs is not None:
        obs.append("  output with anchors replaced by their URLs: %r\n  decodes (reference) to %r, "
                   "input %r" % (rb, dec, text))
    if dec is None:
        bad.append(("remainder:raw-special-or-stray-ampersand", "%r; %s" % (rb, desc)))
    elif dec != text:
        bad.append(("remainder:not-the-escaped-input", "%r decodes to %r; %s" % (rb, dec, desc)))
    # -- extra_params callable is consulted once per link with its href ---------------
    if EXTRA[xi] == "callable" and calls != [l[0] for l in links]:
        bad.append(("extra_params:callable-not-called-with-href", "calls %r; %s" % (calls, desc)))
    # -- what a browser's tokenizer sees ---------------------------------------------
    if links:
        tags, seen, perr = browser_view(out)
        want = []
        for href, has_title in links:
            a = [("href", html.unescape(href))] + EXTRA_ATTRS[xi]
            if has_title:
                a.append(("title", html.unescape(href)))
            want.append(("a", a))
        if perr:
            bad.append(("browser:" + perr, desc))
        elif tags != want and all(l[1] is not None for l in links):
            bad.append(("browser:tags-or-attributes-differ",
                        "HTML tokenizer saw %r, expected %r; %s" % (tags, want, desc)))
        if not any(s[0] for s in shape) and not bad and seen != text:
            bad.append(("browser:visible-text-differs-from-input",
                        "visible text %r; %s" % (seen, desc)))
        st.nontriv((text, opts))
    # -- liveness on the unambiguous cases (docstring example) ------------------------
    m = _SIMPLE_URL.match(text)
    if m:
        proto = m.group(1)
        should = (proto in permitted) if proto else not require
        if should and not (len(links) == 1 and len(items) == 1
                           and links[0][0] == (text if proto else "http://" + text)):
            bad.append(("liveness:plain-url-not-linked", desc))
        if not should and links:
            bad.append(("liveness:excluded-url-linked", desc))
    st.outcome((tuple(shape), len(items)))
    return bad


# ----------------------------------------------------------------------- check
class C22(Check):
    id = "C22"
    level = "exploration"
    design_ref = "DESIGN.md §2 C22"
    rule = ("family A: every concatenation of <= 3 (quick) / <= 4 (thorough) tokens from {http://, "
            "https://, HTTPS://, http + U+017F (long s) + ://, ftp://, javascript:, www., a.com, /p, /abcdefgh, /abcdefghijkl, ?q=1&r=2, "
            "\" ' < > & &amp; ( ) . SP e-acute, 25/28/31-char fillers}; family B: proto{http,https,"
            "www.,ftp} + host of 1..40 letters [+ '/' + 0..9 letters] + special{& \" ' &amp; ? . < "
            "e-acute} + tail{'', x, 20 x, /yy, .z}; each x shorten x require_protocol x permitted{"
            "default,+ftp,+javascript} x extra_params{none,str,callable} (family B quick: "
            "extra_params none only).  Non-trivial = (text, options) for which linkify inserted "
            "at least one anchor")
    claim = ("Within the bounds, for every enumerated text and option combination the real "
             "linkify output consists of escaped text and well-formed <a href> anchors only; with "
             "each anchor replaced by its URL it decodes to exactly the input; each label is the "
             "URL or (only when shorten) a proper prefix + '...' that does not end inside a "
             "character entity; each href has a permitted scheme or is 'http://' + a 'www.' link "
             "(never when require_protocol); hrefs hold no raw quote/angle bracket; attributes are "
             "exactly href + extra_params (+ title=href); the stdlib HTML tokenizer sees the same "
             "tags/attributes and, unshortened, the input as visible text.")
    technique = ("bounded exhaustive enumeration of token concatenations and an offset sweep under "
                 "all option combinations on the real tornado.escape.linkify, output checked by a "
                 "strict scanner + entity tokenizer and cross-checked with html.parser")
    assumptions = [
        "whether a title attribute accompanies a shortened label is EITHER (when present it must "
        "equal the href)",
        "which substrings count as URLs is not asserted except for plain scheme://host.tld/path "
        "and www.host.tld texts (must be linked iff permitted / protocol not required)",
    ]

    def partitions(self, tier):
        parts = [("A", -1, -1)]
        n = len(TOK)
        parts += [("A", i, -1) for i in range(n)]
        parts += [("A", i, j) for i in range(n) for j in range(n)]
        hmax = 40
        parts += [("B", p, hl) for p in range(len(B_PROTO)) for hl in range(1, hmax + 1)]
        return parts

    def run_partition(self, part, tier, st):
        from tornado import escape as E
        fam, i, j = part
        if fam == "A":
            k = 3 if tier == "quick" else 4
            st.setmax("max_tokens", k)
            if i == -1:
                texts = [""]
            elif j == -1:
                texts = [TOK[i]]
            else:
                texts = (TOK[i] + TOK[j] + "".join(t) for n in range(0, k - 1)
                         for t in itertools.product(TOK, repeat=n))
            for text in texts:
                for opts in OPTS_ALL:
                    self._one(E, "A", text, opts, st)
                if j == -1:
                    self._bytes_form(E, text, st)
        else:
            opts_list = OPTS_NOEXTRA if tier == "quick" else OPTS_ALL
            for m in B_SEG:
                for sp in B_SPECIAL:
                    for tail in B_TAIL:
                        text = b_text(B_PROTO[i], j, m, sp, tail)
                        for opts in opts_list:
                            self._one(E, "B", text, opts, st)

    def _one(self, E, fam, text, opts, st):
        for sig, msg in evaluate(E, text, opts, st):
            st.violation(sig, msg, {"fam": fam, "text": text, "opts": list(opts)})
        if len(st.samples) < 1 and opts[0] and len(text) > 40 and h(text)[0] < 16:
            st.sample({"text": text, "opts": list(opts)})

    def _bytes_form(self, E, text, st):
        st.ev()
        try:
            a, b = E.linkify(text), E.linkify(text.encode("utf-8"))
        except Exception as e:
            st.violation("linkify:bytes-input-raised", "linkify(%r as bytes) raised %r" % (text, e),
                         {"fam": "A", "text": text, "opts": [False, False, 0, 0]})
            return
        if a != b:
            st.violation("linkify:bytes-input-differs", "linkify(%r) = %r but for its UTF-8 bytes %r"
                         % (text, a, b), {"fam": "A", "text": text, "opts": [False, False, 0, 0]})

    def replay(self, case):
        from tornado import escape as E
        from mc.core import Stats
        obs = []
        bad = evaluate(E, case["text"], tuple(case["opts"]), Stats(), obs)
        obs.append("verdict: %s" % ([b[0] for b in bad] or "no violation"))
        return "\n".join(obs)


CHECK = C22()
