"""C23 Signed values cannot be forged, replayed across names or crash the reader.

Shape I: bounded exhaustive enumeration of decode_signed_value inputs built
around real create_signed_value outputs ("seeds"): round trips over the age
window, wrong name / secret / key version, every single-byte edit, boundary
shifts between adjacent fields (raw and with recomputed length prefixes),
field swaps between two valid values, truncations / extensions / unsigned
forgeries, and all short strings over a delimiter alphabet (bare and behind
valid-looking prefixes).

Oracle (from the statement, HMAC being unforgeable without the secret): the
unmodified seed decoded with the same secret and name inside
[creation, creation + max_age_days] returns the original value; everything else
returns None; nothing raises.  The function under test is never used to compute
an expected value."""
import base64
import hashlib
import hmac
import itertools
import logging
import re

from mc.core import Check, h
from tornado import web as _web  # noqa: F401  (imported before the runner forks)
from mc import enum as E

EITHER = "<either>"

# ---------------------------------------------------------------- configuration
SECRETS = {
    "str": "secret-a",
    "bytes": b"\x00\xffkey-b",
    "str2": "secret-b",                       # near miss of "str"
    "dict": {0: "k-zero", 1: b"k-one"},
    "dict_swapped": {0: b"k-one", 1: "k-zero"},
    "dict_rotated": {1: b"k-one", 2: "k-two"},   # key 0 retired, key 1 kept
    "dict_only0": {0: "k-zero"},
    "dict_empty": {},
    "dict_of_str": {0: "secret-a"},           # key-versioned form of "str"
    "plain_k1": b"k-one",                     # plain form of dict[1]
    "empty": "",
}
# (secret id used for signing, key_version argument)
SIGNERS = [("str", None), ("bytes", None), ("dict", 0), ("dict", 1)]

NAMES = ["a", "ab", "abcde", "n|m", "é", "l\nf"]
VALUES = ["", "v", "a|b", b"\xff\xfe\x00", b"0123456789" * 4, "éĀ",
          b"abc\xd7\x6d\xf8",     # base64 'YWJj1234': digits adjacent to the timestamp
          b"ab>",                 # base64 'YWI+': '+' adjacent to the timestamp
          b"\xd7\x6d\xf8"]         # base64 '1234': a v1 value that looks like "version 1234|"
T0_QUICK = [1, 1300000000]
T0_THOROUGH = [1, 9, 1111, 1300000000, 1311111111, 2 ** 31]
AGES_QUICK = [31, 1, 0]
AGES_THOROUGH = [31, 1, 0.5, 40000, 0]

EDIT_ALPHA_QUICK = b"019aA|:=- \x00\x80"
ARB_ALPHA = "012|:a=-"
PREFIXES = ["2|1:0|", "2|1:0|10:1300000000|", "2|1:0|10:1300000000|1:a|",
            "2|1:0|10:1300000000|1:a|4:YWJj|", "YWJj|1300000000|", "YWJj|",
            "1|", "999|", "1000|", "2|1:1|", "2|1:7|1:5|1:a|0:|"]

# one defect = one signature: both directions of a v1 boundary shift are the same
# missing delimiter in the v1 signature input
SIG_FAMILY = {"shift:name->value": "shift:name<->value", "shift:value->name": "shift:name<->value"}
for _c in ("non-numeric", "leading-zero", "future", "expired", "plausible"):
    for _d in ("shift:value->timestamp", "shift:timestamp->value"):
        SIG_FAMILY["%s:%s-timestamp" % (_d, _c)] = "shift:value<->timestamp:%s-timestamp" % _c

LENGTH_RE = re.compile(rb"\A([0-9]{1,9}):")
VERSION_RE = re.compile(rb"\A([1-9][0-9]*)\|")      # format description: decimal, no leading zero


def b(x):
    return x if isinstance(x, bytes) else x.encode("utf-8")


def secret_kind(sid):
    return "dict-secret" if isinstance(SECRETS[sid], dict) else "plain-secret"


def shape(data):
    """Structural class of an input, from the format description only."""
    if data is None or len(data) == 0:
        return "empty"
    if not isinstance(data, bytes):
        data = data.encode("utf-8", "surrogatepass")
    m = VERSION_RE.match(data)
    if m and len(m.group(1)) <= 3 and m.group(1) != b"1":
        return "v2-shape" if m.group(1) == b"2" else "unknown-version"
    return "v1-shape"       # no version field (or an explicit 1): the legacy format


def reaches_verification(data):
    """Would a reader following the format description get as far as checking
    a signature?  v1: exactly three '|' separated parts; v2: four well formed
    length-prefixed fields."""
    if data is None:
        return False
    s = shape(data)
    if not isinstance(data, bytes):
        data = data.encode("utf-8", "surrogatepass")
    if s == "v1-shape":
        return data.count(b"|") == 2
    if s != "v2-shape":
        return False
    rest = data[2:]
    for _ in range(4):
        m = LENGTH_RE.match(rest)
        if not m:
            return False
        n = int(m.group(1))
        rest = rest[m.end():]
        if rest[n:n + 1] != b"|":
            return False
        rest = rest[n + 1:]
    return True


def field(x):
    x = b(x)
    return str(len(x)).encode() + b":" + x


class Seed:
    """One real create_signed_value output with the knowledge of what went in."""
    __slots__ = ("idx", "sid", "kv", "name", "value", "version", "t0", "data",
                 "payload", "v64", "ts", "sig", "structured")

    def __init__(self, web, idx, sid, kv, name, value, version, t0):
        self.idx, self.sid, self.kv, self.name, self.value = idx, sid, kv, name, value
        self.version, self.t0 = version, t0
        self.data = web.create_signed_value(SECRETS[sid], name, value, version=version,
                                            clock=lambda: t0, key_version=kv)
        self.payload = b(value)
        self.v64 = base64.b64encode(self.payload)
        self.ts = str(t0).encode()
        # locate the fields by construction (no parsing of the output)
        if version == 1:
            head = self.v64 + b"|" + self.ts + b"|"
        else:
            head = b"|".join([b"2", field(str(kv or 0)), field(self.ts), field(name),
                              field(self.v64), b""])
        self.structured = self.data.startswith(head)
        self.sig = self.data[len(head):] if self.structured else b""

    def descr(self):
        return {"signer": self.sid, "key_version": self.kv, "name": self.name,
                "value": self.value, "version": self.version, "t0": self.t0}


def seed_params(tier):
    t0s = T0_QUICK if tier == "quick" else T0_THOROUGH
    out = []
    for t0 in t0s:
        for sid, kv in SIGNERS:
            for version in (1, 2):
                if version == 1 and isinstance(SECRETS[sid], dict):
                    continue          # create_signed_value documents v1 as unsupported with key dicts
                for name in NAMES:
                    for vi in range(len(VALUES)):
                        out.append((sid, kv, name, vi, version, t0))
    return out


def make_seed(web, idx, p):
    sid, kv, name, vi, version, t0 = p
    return Seed(web, idx, sid, kv, name, VALUES[vi], version, t0)


# ------------------------------------------------------------------ evaluation
class Runner:
    def __init__(self, web, st):
        self.web = web
        self.st = st
        self.best = {}      # signature -> size of the smallest case handed to st.violation

    def violation(self, sig, msg_fn, c):
        """st.violation keeps the smallest case per signature but serialises every
        case to compare; with 10^5 cases of one defect only hand over improvements
        and count the rest."""
        size = len(repr(c["input"])) + len(c["name"])
        old = self.best.get(sig)
        if old is None or size < old:
            self.best[sig] = size
            self.st.violation(sig, msg_fn(), c)
        else:
            m, cc, n = self.st.violations[sig]
            self.st.violations[sig] = (m, cc, n + 1)

    def decode(self, case):
        data = case["input"]
        if case.get("as_str") and isinstance(data, bytes):
            # str form of the same value: the API's own convention is UTF-8
            # (escape.utf8); undecodable tampered bytes arrive as latin-1, the way
            # Cookie header values do
            try:
                data = data.decode("utf-8")
            except UnicodeDecodeError:
                data = data.decode("latin-1")
        now = case["now"]
        try:
            got = self.web.decode_signed_value(
                SECRETS[case["secret"]], case["name"], data,
                max_age_days=case["age"], clock=lambda: now, min_version=case["minv"])
            return ("ok", got)
        except Exception as e:
            # innermost tornado.web function on the stack: where the reader gave up
            where, tb = "?", e.__traceback__
            while tb is not None:
                if tb.tb_frame.f_code.co_filename.endswith("web.py"):
                    where = tb.tb_frame.f_code.co_name
                tb = tb.tb_next
            return ("exc", type(e).__name__, str(e)[:80], where)

    def case(self, fam, sid, name, data, now, want, age=31, minv=1, as_str=False,
             ver="v?", detail="", nt=None):
        st = self.st
        st.ev()
        c = {"family": fam, "secret": sid, "name": name, "input": data, "now": now,
             "age": age, "minv": minv, "as_str": as_str, "want": want, "ver": ver,
             "detail": detail}
        res = self.decode(c)
        sh = shape(data)
        kind = secret_kind(sid)
        if nt is not None and reaches_verification(data):
            st.nontriv((fam, ver, kind, nt))
        if res[0] == "exc":
            st.outcome("%s|%s|%s|exc:%s" % (fam, sh, kind, res[1]))
            sig = "raises:%s:%s:%s" % (res[1], res[3], kind)
            self.violation(sig, lambda: "decode_signed_value raised %s(%s) in %s for %s input %r "
                           "(name %r, %s)" % (res[1], res[2], res[3], fam, data, name, kind), c)
            return
        got = res[1]
        if want == EITHER:
            st.note("either:" + detail)
            st.outcome("%s|%s|%s|either:%s" % (fam, sh, kind, "None" if got is None else "value"))
            if got is not None and not isinstance(got, bytes):
                st.violation("type:%s" % type(got).__name__, "non-bytes result %r" % (got,), c)
            return
        if want is None:
            if got is None:
                st.outcome("%s|%s|%s|None" % (fam, sh, kind))
                return
            st.outcome("%s|%s|%s|FORGED" % (fam, sh, kind))
            self.violation("accepted:%s:%s" % (ver, SIG_FAMILY.get(fam, fam)),
                           lambda: "%s input %r decoded to %r under name %r (must be None: %s)"
                           % (fam, data, got, name, detail or fam), c)
            return
        # want = the original payload
        if got == want:
            st.outcome("%s|%s|%s|value" % (fam, sh, kind))
            return
        st.outcome("%s|%s|%s|LOST" % (fam, sh, kind))
        namecls = "ascii-name" if name.isascii() else "non-ascii-name"
        self.violation("roundtrip:%s:%s:%s" % (ver, "none" if got is None else "wrong-value", namecls),
                       lambda: "valid %s value %r for name %r decoded to %r, expected %r (%s)"
                       % (ver, data, name, got, want, detail), c)


# -------------------------------------------------------------------- families
def fam_roundtrip(R, s, tier):
    ages = AGES_QUICK if tier == "quick" else AGES_THOROUGH
    ver = "v%d" % s.version
    for age in ages:
        span = int(age * 86400)
        for minv in (1, 2):
            want_in = s.payload if s.version >= minv else None
            d = "min_version=%d" % minv
            for as_str in (False, True):
                for dt in ((0, 1, span // 2, span - 1, span) if span else (0,)):     # max_age_days=0: only the creation second
                    R.case("roundtrip", s.sid, s.name, s.data, s.t0 + dt, want_in, age, minv,
                           as_str, ver, "inside age window, " + d, nt=("in", age, minv))
                for dt in ((span + 1, span + 86400, 10 * span + 5) if span else (1, 5, 86400, 40 * 86400)):
                    R.case("expired", s.sid, s.name, s.data, s.t0 + dt, None, age, minv,
                           as_str, ver, "expired", nt=("exp", age, minv))
            # statement silent: reader's clock before the creation time; sub-second
            # position inside the last second of the window
            for dt in (-1, -32 * 86400):
                R.case("clock-skew", s.sid, s.name, s.data, s.t0 + dt, EITHER, age, minv,
                       False, ver, "decoded-before-creation")
            R.case("clock-skew", s.sid, s.name, s.data, s.t0 + span + 0.5, EITHER, age, minv,
                   False, ver, "sub-second-boundary")
    R.case("roundtrip", s.sid, s.name, s.data, s.t0, s.payload, 31, None,
           False, ver, "default min_version", nt=("default",))


def fam_wrong(R, s):
    ver = "v%d" % s.version
    now = s.t0
    names = [n for n in NAMES if n != s.name] + [s.name + "x", s.name[:-1], s.name.upper()
                                                  if s.name.upper() != s.name else "zz", "",
                                                  s.name + "|", "x" + s.name]
    for n in dict.fromkeys(names):
        if n == s.name:
            continue
        for as_str in (False, True):
            R.case("wrong-name", s.sid, n, s.data, now, None, as_str=as_str, ver=ver,
                   detail="different name", nt=("name", n))
    signer_is_dict = isinstance(SECRETS[s.sid], dict)
    for sid in SECRETS:
        if sid == s.sid:
            continue
        want, detail = None, "different secret / key version"
        if s.version == 1 and isinstance(SECRETS[sid], dict):
            detail = "v1 value read with a key-versioned secret dict"
        if signer_is_dict:
            key = SECRETS[s.sid][s.kv]
            other = SECRETS[sid]
            if isinstance(other, dict):
                if s.kv in other and b(other[s.kv]) == b(key):
                    want, detail = s.payload, "same key version and key after rotation"
            elif b(other) == b(key):
                want, detail = EITHER, "dict-signed-read-with-plain-key"
        else:
            other = SECRETS[sid]
            if isinstance(other, dict) and s.version == 2:
                if 0 in other and b(other[0]) == b(SECRETS[s.sid]):
                    want, detail = EITHER, "plain-signed-read-with-dict"
        R.case("wrong-secret", sid, s.name, s.data, now, want, ver=ver, detail=detail,
               nt=("secret", sid))


def region_of(s, pos):
    """Which field of the seed a byte offset falls into (for coverage keys)."""
    if not s.structured:
        return "?"
    if pos >= len(s.data) - len(s.sig):
        return "sig"
    if s.version == 1:
        return "value" if pos <= len(s.v64) else "ts"
    return "head%d" % s.data[:pos].count(b"|")


def fam_edits(R, s, tier):
    ver = "v%d" % s.version
    full = tier != "quick" and s.t0 in T0_QUICK      # T: all 256 byte values
    alpha = bytes(range(256)) if full else EDIT_ALPHA_QUICK
    # the same tampered bytes read by a deployment that uses a key dict
    other = "dict" if s.sid != "dict" else "str"
    for op, pos, a, data in E.edits1(s.data, alpha):
        reg = region_of(s, pos)
        R.case("edit1", s.sid, s.name, data, s.t0, None, ver=ver,
               detail="single byte %s at %d" % (op, pos), nt=(s.idx % 40, op, reg))
        if a is None or a in EDIT_ALPHA_QUICK:
            R.case("edit1", other, s.name, data, s.t0, None, ver=ver,
                   detail="single byte %s at %d, read with another secret form" % (op, pos),
                   nt=(s.idx % 40, op, reg))
        if tier != "quick" and a in (None, 0x31, 0x7c):
            R.case("edit1", s.sid, s.name, data, s.t0, None, as_str=True, ver=ver,
                   detail="single byte %s at %d (str input)" % (op, pos))


def fam_shift_v1(R, s, tier):
    if s.version != 1 or not s.structured:
        return
    ages = [31, 40000, 10 ** 9]      # (a huge max_age_days must not weaken the "timestamp from the future" check)
    nows = [s.t0, s.t0 + 86400]
    tail = b"|" + s.sig

    def go(fam, name, data, k):
        for age in ages:
            for now in nows:
                f = fam
                if fam in ("shift:value->timestamp", "shift:timestamp->value"):
                    # name what kind of timestamp the re-split value carries: the reader's
                    # sanity checks are meant for three of these classes, the fourth is
                    # indistinguishable from a genuine timestamp
                    ts2 = data.split(b"|")[1]
                    if not ts2.isdigit():
                        f += ":non-numeric-timestamp"
                    elif ts2.startswith(b"0"):
                        f += ":leading-zero-timestamp"
                    elif int(ts2) > now + 31 * 86400:
                        f += ":future-timestamp"
                    elif int(ts2) < now - age * 86400:
                        f += ":expired-timestamp"
                    else:
                        f += ":plausible-timestamp"
                R.case(f, s.sid, name, data, now, None, age=age, ver="v1",
                       detail="%d byte(s) moved across the field boundary; signature untouched" % k,
                       nt=(s.idx % 40, k, age))
        R.case(fam, "dict", name, data, s.t0, None, ver="v1", detail="read with key dict")

    nb = s.name  # names are str; shifting is done on characters, all ASCII here
    for k in range(1, 9):
        if nb.isascii():
            if k <= len(nb):
                go("shift:name->value", nb[:-k], nb[-k:].encode() + s.v64 + b"|" + s.ts + tail, k)
            if k <= len(s.v64):
                try:
                    moved = s.v64[:k].decode("ascii")
                except UnicodeDecodeError:      # pragma: no cover
                    moved = None
                if moved is not None:
                    go("shift:value->name", nb + moved, s.v64[k:] + b"|" + s.ts + tail, k)
        if k <= len(s.v64):
            go("shift:value->timestamp", s.name, s.v64[:-k] + b"|" + s.v64[-k:] + s.ts + tail, k)
        if k <= len(s.ts):
            go("shift:timestamp->value", s.name, s.v64 + s.ts[:k] + b"|" + s.ts[k:] + tail, k)
        if k <= len(s.sig):
            go("shift:signature->timestamp", s.name, s.v64 + b"|" + s.ts + s.sig[:k] + b"|" + s.sig[k:], k)
            if k <= len(s.ts):
                go("shift:timestamp->signature", s.name,
                   s.v64 + b"|" + s.ts[:-k] + b"|" + s.ts[-k:] + s.sig, k)


def fam_shift_v2(R, s, tier):
    if s.version != 2 or not s.structured:
        return
    head = s.data[:len(s.data) - len(s.sig)]
    # raw: move each delimiter ('|' or the ':' of a length prefix) by 1..8 bytes
    for p in range(len(head)):
        if head[p:p + 1] not in (b"|", b":"):
            continue
        ch = head[p:p + 1]
        without = s.data[:p] + s.data[p + 1:]
        for k in range(-8, 9):
            q = p + k
            if k == 0 or q < 0 or q > len(without):
                continue
            data = without[:q] + ch + without[q:]
            if data == s.data:
                continue
            R.case("shift:delimiter", s.sid, s.name, data, s.t0, None, ver="v2",
                   detail="delimiter %r at %d moved by %d" % (ch, p, k),
                   nt=(s.idx % 40, region_of(s, p), k))
    # re-framed: move k bytes between adjacent fields and recompute the length
    # prefixes (what an attacker who knows the format would send), old signature
    fields = [str(s.kv or 0).encode(), s.ts, b(s.name), s.v64]
    labels = ["keyver", "timestamp", "name", "value"]
    for i in range(3):
        for k in range(1, 9):
            for direction in (0, 1):
                f = list(fields)
                if direction == 0:
                    if k > len(f[i]):
                        continue
                    f[i], f[i + 1] = f[i][:-k], f[i][-k:] + f[i + 1]
                    fam = "reframe:%s->%s" % (labels[i], labels[i + 1])
                else:
                    if k > len(f[i + 1]):
                        continue
                    f[i], f[i + 1] = f[i] + f[i + 1][:k], f[i + 1][k:]
                    fam = "reframe:%s->%s" % (labels[i + 1], labels[i])
                data = b"|".join([b"2"] + [field(x) for x in f] + [b""]) + s.sig
                try:
                    name = f[2].decode("utf-8")
                except UnicodeDecodeError:
                    continue
                for nm in {name, s.name}:
                    R.case(fam, s.sid, nm, data, s.t0, None, ver="v2",
                           detail="%d byte(s) re-framed, signature untouched" % k,
                           nt=(s.idx % 40, k))


def fam_trunc(R, s, tier):
    ver = "v%d" % s.version
    d = s.data
    n = len(d)
    for i in range(n):
        R.case("truncate:prefix", s.sid, s.name, d[:i], s.t0, None, ver=ver,
               detail="first %d bytes" % i, nt=(s.idx % 40, region_of(s, i)))
    for i in range(1, n + 1):
        R.case("truncate:suffix", s.sid, s.name, d[i:], s.t0, None, ver=ver,
               detail="without first %d bytes" % i, nt=(s.idx % 40, region_of(s, i)))
    exts = [d + d, d + b"|" + d, d + b"\n", d + b"\r\n", b"\n" + d, d + b"|", b"|" + d,
            d + s.sig, d.upper() if d.upper() != d else d + b"0", d.lower() if d.lower() != d else d + b"1",
            b"2|" + d, b"1|" + d, b" " + d, d + b" ", d + b"\x00"]
    for x in exts:
        for as_str in (False, True):
            R.case("extend", s.sid, s.name, x, s.t0, None, as_str=as_str, ver=ver,
                   detail="extension / case change", nt=(s.idx % 40, len(x)))
    if not s.structured:
        return
    head = d[:n - len(s.sig)]
    hname = hashlib.sha1 if s.version == 1 else hashlib.sha256
    msg = (b(s.name) + s.v64 + s.ts) if s.version == 1 else head
    real_secret = SECRETS[s.sid][s.kv] if isinstance(SECRETS[s.sid], dict) else SECRETS[s.sid]
    forged = [b"", b"0" * len(s.sig), b"f" * len(s.sig), s.sig[:-1], s.sig + s.sig[-1:],
              s.sig[::-1],
              hmac.new(b"", msg, hname).hexdigest().encode(),
              hashlib.new(hname().name, msg).hexdigest().encode(),
              hashlib.new(hname().name, b(real_secret) + msg).hexdigest().encode()[:len(s.sig)],
              hmac.new(b(s.name), msg, hname).hexdigest().encode(),
              s.sig.upper() if s.sig.upper() != s.sig else s.sig[:-1] + b"g"]
    for i, f in enumerate(forged):
        if f == s.sig:
            continue
        R.case("forged-signature", s.sid, s.name, head + f, s.t0, None, ver=ver,
               detail="signature variant #%d computed without the secret" % i,
               nt=(s.idx % 40, i))
    if s.version == 2:
        # a key version no key dict knows, signed with keys anybody can guess
        for kvs in (b"7", b"-1", b"2", b"00", b"1_0"):
            head2 = b"|".join([b"2", field(kvs), field(s.ts), field(s.name), field(s.v64), b""])
            for gi, guess in enumerate((b"", b"None", kvs, b(s.name))):
                data = head2 + hmac.new(guess, head2, hashlib.sha256).hexdigest().encode()
                for sid in ("dict", "dict_empty", "dict_rotated"):
                    if kvs == b"2" and sid == "dict_rotated":
                        continue
                    R.case("forged-key-version", sid, s.name, data, s.t0, None, ver=ver,
                           detail="key version %r unknown to the key dict, signed with guessable key #%d"
                           % (kvs, gi), nt=(s.idx % 40, kvs, gi))


def fam_swap(R, a, b_, tier):
    """All field-wise mixtures of two valid values of the same format version."""
    if not (a.structured and b_.structured):
        return
    ver = "v%d" % a.version
    if a.version == 1:
        fa, fb = [a.v64, a.ts, a.sig], [b_.v64, b_.ts, b_.sig]
        labels = ["value", "ts", "sig"]

        def build(f):
            return b"|".join(f)
    else:
        fa = [str(a.kv or 0).encode(), a.ts, b(a.name), a.v64, a.sig]
        fb = [str(b_.kv or 0).encode(), b_.ts, b(b_.name), b_.v64, b_.sig]
        labels = ["keyver", "ts", "name", "value", "sig"]

        def build(f):
            return b"|".join([b"2"] + [field(x) for x in f[:4]] + [f[4]])
    n = len(fa)
    legit = {a.data, b_.data}
    seen = set()
    for mask in range(1, 2 ** n - 1):
        f = [fb[i] if mask >> i & 1 else fa[i] for i in range(n)]
        data = build(f)
        if data in legit or data in seen:
            continue
        seen.add(data)
        tag = "+".join(labels[i] for i in range(n) if mask >> i & 1)
        for sid, name, t0 in {(a.sid, a.name, a.t0), (b_.sid, b_.name, b_.t0),
                              (a.sid, b_.name, a.t0), (b_.sid, a.name, b_.t0)}:
            R.case("swap", sid, name, data, max(a.t0, b_.t0), None, ver=ver,
                   detail="fields {%s} taken from a second valid value" % tag,
                   nt=(tag, a.idx % 7, b_.idx % 7))


def differing(pa, pb):
    return sum(1 for x, y in zip(pa, pb) if x != y)


def fam_arbitrary(R, first, tier):
    """All strings first+rest over ARB_ALPHA up to the length bound, bare and
    behind valid-looking prefixes."""
    L = 5 if tier == "quick" else 6
    LP = 3 if tier == "quick" else 4
    for rest in E.strings(ARB_ALPHA, L - 1):
        sdata = first + "".join(rest)
        data = sdata.encode()
        for sid in ("str", "dict"):
            for minv in (1, 2):
                R.case("arbitrary", sid, "a", data, 1300000000, None, minv=minv,
                       detail="short string", nt=(shape(data), len(data), data.count(b"|")))
        R.case("arbitrary", "bytes", "a", sdata, 1300000000, None, detail="short str")
    for rest in E.strings(ARB_ALPHA, LP - 1):
        tail = first + "".join(rest)
        for pi, p in enumerate(PREFIXES):
            data = (p + tail).encode()
            for sid in ("str", "dict"):
                R.case("arbitrary:prefixed", sid, "a", data, 1300000000, None,
                       detail="valid-looking prefix #%d + short string" % pi,
                       nt=(pi, len(tail), tail.count("|"), tail.count(":")))


def fam_misc(R):
    for sid in ("str", "dict", "bytes"):
        for data in (None, "", b"", "Ā", "2|Ā", "Ā|1|a", "2|1:0|1:1|1:é|0:|",
                     "|", "||", "|||", "2|", "2||||", "0|", "02|1:0|", "2|0:|0:|0:|0:|",
                     "2|1:0|0:|1:a|0:|", "2|1:x|1:1|1:a|0:|", "2|-1:0|", "2|1:0|1_0:", "2|+1:0|1:1|1:a|0:|",
                     "2| 1:0|1:1|1:a|0:|", "2|1:0|99999999999999999999:1|", "2|" + "9" * 5000 + ":",
                     "9" * 5000 + "|x", "2|1:" + "9" * 5000 + "|1:1|1:a|0:|", "1" * 4 + "|1|x",
                     "a|" + "9" * 5000 + "|x", b"\xff|\xff|\xff", b"2|\xff", "2|1:0|1:1|1:a|0:|\n",
                     "2\n|", "2|1:0\n|"):
            for minv in (1, 2):
                R.case("misc", sid, "a", data, 1300000000, None, minv=minv,
                       detail="hand-picked degenerate input", nt=(repr(data)[:20],))


# ------------------------------------------------------------------ the check
class C23(Check):
    id = "C23"
    level = "exploration"
    design_ref = "DESIGN.md §2 C23"
    rule = ("seeds = every real create_signed_value output over secrets {str, bytes, {0:..,1:..} "
            "with key_version 0/1} x names {a, ab, abcde, n|m, é} x 9 values (empty, '|', "
            "high bytes, 40 bytes, non-ASCII str, base64 ending in digits / '+', base64 all digits) x "
            "versions {1,2} x "
            "creation times {1, 1300000000} (T: +4); per seed: round trip at 5 instants inside and "
            "3 outside the age window for max_age_days {31,1} (T: +0.5, 40000) x min_version {1,2} "
            "x bytes/str input; 10 wrong names; 10 other secrets / key dicts; every single-byte "
            "delete/replace/insert over 12 bytes (T: all 256 for the two quick creation times) read with the signing secret and with "
            "a key dict; 1..8 byte boundary shifts name|value|timestamp|signature (v1) and delimiter "
            "moves / re-framed length prefixes (v2); every prefix and suffix; 15 extensions; 11 "
            "signatures computable without the secret; all field-wise mixtures of seed pairs that "
            "differ in <=2 (T: <=3) of (signer, key version, name, value, creation time); all strings <=5 (T: 6) over {0,1,2,|,:,a,=,-} bare and "
            "<=3 (T: 4) behind 11 valid-looking prefixes.  non-trivial = distinct (family, version, "
            "secret kind, structural position) classes whose input gets as far as signature "
            "verification under the format description (3 parts for v1, 4 well-formed "
            "length-prefixed fields for v2)")
    claim = ("Within the bound, decode_signed_value returns the original value exactly for an "
             "untouched signed value inside its age window under the same secret/name, returns None "
             "for every enumerated tampering, replay under another name/secret/key version, expiry "
             "and min_version downgrade, and never raises.")
    technique = ("bounded exhaustive enumeration of decode_signed_value inputs derived from real "
                 "create_signed_value outputs, on the real code, against the statement's oracle "
                 "(identity on untouched values, None otherwise, no exception)")
    assumptions = [
        "HMAC-SHA1/SHA256 are unforgeable: any string other than an untouched create_signed_value "
        "output must decode to None",
        "inputs are bytes or well-formed str (no lone surrogates); the str form of a value is its "
        "UTF-8 decoding (latin-1 for tampered bytes that are not UTF-8, as Cookie headers arrive)",
        "EITHER: reader clock earlier than the creation time; instants inside the last second of the "
        "age window (timestamps have 1 s resolution); a value signed with dict[k] read with the "
        "plain key dict[k] or vice versa (key version 0)",
        "a key dict that still maps the value's key version to the same key (rotation) is 'the same "
        "secret'",
        "create_signed_value(version=1) with a key dict is a documented configuration error and "
        "not enumerated",
    ]

    # partitions: ("seeds", chunk) | ("swap", version, chunk) | ("arb", first char) | ("misc",)
    NCH = 32

    def partitions(self, tier):
        parts = [("seeds", i) for i in range(self.NCH)]
        parts += [("swap", v, i) for v in (1, 2) for i in range(16)]
        parts += [("arb", c) for c in ARB_ALPHA] + [("misc",)]
        return parts

    def run_partition(self, part, tier, st):
        from tornado import web
        lg = logging.getLogger("tornado.general")
        saved = (lg.handlers[:], lg.propagate, lg.level)
        lg.handlers[:] = [logging.NullHandler()]
        lg.propagate = False
        lg.setLevel(logging.CRITICAL)
        try:
            self._run(part, tier, st, web)
        finally:
            lg.handlers[:], lg.propagate = saved[0], saved[1]
            lg.setLevel(saved[2])

    def _run(self, part, tier, st, web):
        R = Runner(web, st)
        params = seed_params(tier)
        if part[0] == "seeds":
            for idx in range(part[1], len(params), self.NCH):
                s = make_seed(web, idx, params[idx])
                if not s.structured:
                    st.note("seed-layout-not-as-described")
                if len(st.samples) < 2:
                    st.sample({"seed": s.descr(), "signed": s.data})
                fam_roundtrip(R, s, tier)
                fam_wrong(R, s)
                fam_edits(R, s, tier)
                fam_shift_v1(R, s, tier)
                fam_shift_v2(R, s, tier)
                fam_trunc(R, s, tier)
        elif part[0] == "swap":
            _, version, chunk = part
            idxs = [i for i, p in enumerate(params) if p[4] == version]
            cache = {}
            n = 0
            for i, j in itertools.combinations(idxs, 2):
                if differing(params[i], params[j]) > (2 if tier == "quick" else 3):
                    continue
                n += 1
                if n % 16 != chunk:
                    continue
                for k in (i, j):
                    if k not in cache:
                        cache[k] = make_seed(web, k, params[k])
                fam_swap(R, cache[i], cache[j], tier)
        elif part[0] == "arb":
            fam_arbitrary(R, part[1], tier)
            if part[1] == ARB_ALPHA[0]:
                for sid in ("str", "dict"):
                    R.case("arbitrary", sid, "a", b"", 1300000000, None, detail="empty")
        elif part[0] == "misc":
            fam_misc(R)

    def replay(self, case):
        from tornado import web
        lg = logging.getLogger("tornado.general")
        lg.addHandler(logging.NullHandler())
        lg.propagate = False
        R = Runner(web, None)
        res = R.decode(case)
        want = case["want"]
        lines = [
            "family      : %s (%s) %s" % (case["family"], case["ver"], case["detail"]),
            "secret      : %r" % (SECRETS[case["secret"]],),
            "name        : %r" % case["name"],
            "input       : %r%s" % (case["input"], " (passed as str)" if case["as_str"] else ""),
            "clock       : %r   max_age_days=%r  min_version=%r" % (case["now"], case["age"], case["minv"]),
            "shape       : %s, reaches signature verification: %s"
            % (shape(case["input"]), reaches_verification(case["input"]) if case["input"] else False),
            "real result : %r" % (res,),
            "expected    : %s" % ("no exception (result unspecified)" if want == EITHER
                                  else "('ok', %r)" % (want,)),
        ]
        ok = res[0] == "ok" and (want == EITHER or res[1] == want)
        lines.append("verdict     : %s" % ("holds" if ok else "VIOLATED"))
        return "\n".join(lines)


CHECK = C23()
