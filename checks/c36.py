"""C36 Future combinators always settle and report the right outcome.
Shape S: every completion order x outcome (result / exception / cancel) x
pre-done flags x duplicate structure for multi, WaitIterator, with_timeout,
chain_future on the real code over VirtualLoop."""
import asyncio
import itertools

from mc.core import Check, h
from mc.vloop import World


class E(Exception):
    pass


def set_partitions_as_maps(n):
    """All maps position -> distinct-future index in canonical (restricted
    growth) form."""
    def rec(prefix, mx):
        if len(prefix) == n:
            yield tuple(prefix)
            return
        for v in range(mx + 2):
            yield from rec(prefix + [v], max(mx, v))
    if n == 0:
        yield ()
    else:
        yield from rec([], -1)


class FalsyE(E):
    """an exception whose truth value is False (a multi-error holding an empty list)"""
    def __len__(self):
        return 0


def settle(f, kind, tag):
    if kind == "z":
        f.set_exception(FalsyE(tag))
    elif kind == "r":
        f.set_result(("res", tag))
    elif kind == "e":
        f.set_exception(E(tag))
    elif kind == "x":
        # failed with CancelledError as its exception: how multi() reports a cancelled input
        f.set_exception(asyncio.CancelledError())
    else:
        f.cancel()


def fut_outcome(f):
    """(kind, payload) of a done future; destructive (marks retrieved)."""
    if not f.done():
        return ("pending",)
    if f.cancelled():
        return ("cancelled",)
    e = f.exception()
    if e is None:
        return ("ok", f.result())
    if isinstance(e, asyncio.CancelledError):
        return ("cancelled",)
    if isinstance(e, E):
        return ("E", e.args[0])
    return ("exc", type(e).__name__)


def want_of(kind, tag):
    return {"r": ("ok", ("res", tag)), "e": ("E", tag), "z": ("E", tag), "c": ("cancelled",), "x": ("cancelled",)}[kind]


# --------------------------------------------------------------------------
def run_multi(case):
    """case = (form, posmap, kinds, predone, order)"""
    from tornado import gen
    form, posmap, kinds, predone, order = case
    k = len(kinds)
    with World() as w:
        futs = [asyncio.Future() for _ in range(k)]
        for i in range(k):
            if predone[i]:
                settle(futs[i], kinds[i], i)
        if form == "tuple":
            m = gen.multi(tuple(futs[p] for p in posmap))      # any sequence, called directly
        elif form == "list":
            m = gen.multi([futs[p] for p in posmap])
        else:
            d = {"k%d" % j: futs[p] for j, p in enumerate(posmap)}
            m = gen.multi(d)
            if form == "dict-mut":
                # the caller goes on using its dict (drains it, refills it for the next batch): the call took a snapshot
                for key in list(d)[:1]:
                    d.pop(key)
                d["next-batch"] = None
                d["zz"] = None
        w.pump()
        early = None
        remaining = [i for i in range(k) if not predone[i]]
        for step, i in enumerate(order):
            if m.done() and remaining:
                early = step
            settle(futs[i], kinds[i], i)
            remaining.remove(i)
            w.pump()
        got = fut_outcome(m)
        for f in futs:           # retrieve, so GC does not log
            f.done() and not f.cancelled() and f.exception()
        errs = [str(c.get("message")) + ":" + type(c.get("exception")).__name__ for c in w.loop_errors()]
        # expected
        want = None
        for j, p in enumerate(posmap):
            if kinds[p] != "r":
                want = want_of(kinds[p], p)
                break
        if want is None:
            vals = [("res", p) for p in posmap]
            want = ("ok", vals if form in ("list", "tuple") else {"k%d" % j: v for j, v in enumerate(vals)})
        return got, want, early, errs


def cases_multi(n):
    for npos in range(0, n + 1):
        for posmap in set_partitions_as_maps(npos):
            k = (max(posmap) + 1) if posmap else 0
            for kinds in itertools.product("rec", repeat=k):
                for predone in itertools.product((0, 1), repeat=k):
                    pend = [i for i in range(k) if not predone[i]]
                    for order in itertools.permutations(pend):
                        for form in ("list", "dict", "dict-mut", "tuple"):
                            yield (form, posmap, kinds, predone, order)


# --------------------------------------------------------------------------
def run_wait_iter(case):
    """case = (form, kinds, predone, order, start_after)"""
    from tornado import gen
    form, kinds, predone, order, start_after = case[:5]
    k = len(kinds)
    with World() as w:
        if len(case) > 5 and case[5]:
            # another iterator, created earlier and given up before its inputs finished, is still alive
            stale = [asyncio.Future(), asyncio.Future()]
            abandoned = gen.WaitIterator(*stale)
        futs = [asyncio.Future() for _ in range(k)]
        for i in range(k):
            if predone[i]:
                settle(futs[i], kinds[i], i)
        if form == "args":
            wi = gen.WaitIterator(*futs)
            idx = lambda i: i
        else:
            wi = gen.WaitIterator(**{"k%d" % i: futs[i] for i in range(k)})
            idx = lambda i: "k%d" % i
        rec = []

        async def consumer():
            n = 0
            while not wi.done():
                n += 1
                if n > 3 * k + 3:
                    rec.append(("runaway",))
                    return
                try:
                    r = await wi.next()
                    rec.append((("ok", r), wi.current_index, wi.current_future is not None and futs.index(wi.current_future)))
                except asyncio.CancelledError:
                    rec.append((("cancelled",), wi.current_index, wi.current_future is not None and futs.index(wi.current_future)))
                except E as e:
                    rec.append((("E", e.args[0]), wi.current_index, wi.current_future is not None and futs.index(wi.current_future)))
            rec.append(("end",))
        task = None
        if start_after == 0:
            task = w.spawn(consumer())
        w.pump()
        for step, i in enumerate(order):
            settle(futs[i], kinds[i], i)
            w.pump()
            if step + 1 == start_after:
                task = w.spawn(consumer())
                w.pump()
        if task is None:
            task = w.spawn(consumer())
            w.pump()
        errs = [str(c.get("message")) + ":" + type(c.get("exception")).__name__ for c in w.loop_errors()]
        tdone = task.done()
        if tdone and not task.cancelled():
            te = task.exception()
            if te is not None:
                rec.append(("task-exc", type(te).__name__))
        completion = [i for i in range(k) if predone[i]] + list(order)
        want = [(want_of(kinds[i], i), idx(i), i) for i in completion] + [("end",)]
        return rec, want, tdone, errs


def run_wait_iter_cancel(case):
    """case = (kinds, order, cancel_at): the consumer gives up on the future it got from next() (e.g. a wait_for
    timing out) just before the cancel_at-th completion, and calls next() again afterwards."""
    from tornado import gen
    kinds, order, cancel_at = case
    k = len(kinds)
    with World() as w:
        futs = [asyncio.Future() for _ in range(k)]
        wi = gen.WaitIterator(*futs)
        rec = []
        box = {"nf": None}

        def pull():
            for _ in range(3 * k + 3):
                if box["nf"] is None:
                    if wi.done():
                        return
                    box["nf"] = wi.next()
                w.pump()
                nf = box["nf"]
                if not nf.done():
                    return
                rec.append((fut_outcome(nf), wi.current_index,
                            wi.current_future is not None and futs.index(wi.current_future)))
                box["nf"] = None
        pull()
        for step, i in enumerate(order):
            if step == cancel_at and box["nf"] is not None:
                box["nf"].cancel()
                box["nf"] = None
                w.pump()
            settle(futs[i], kinds[i], i)
            w.pump()
            pull()
        rec.append(("end",) if wi.done() else ("not-done",))
        errs = [str(c.get("message")) + ":" + type(c.get("exception")).__name__ for c in w.loop_errors()]
        want = [(want_of(kinds[i], i), i, i) for i in order] + [("end",)]
        return rec, want, True, errs


def cases_wait_iter_cancel(n):
    for k in range(1, min(n, 3) + 1):
        for kinds in itertools.product("rec", repeat=k):
            for order in itertools.permutations(range(k)):
                for cancel_at in range(k):
                    yield (kinds, order, cancel_at)


def cases_wait_iter(n):
    for k in range(0, n + 1):
        for kinds in itertools.product("rec", repeat=k):
            for predone in itertools.product((0, 1), repeat=k):
                pend = [i for i in range(k) if not predone[i]]
                for order in itertools.permutations(pend):
                    for start_after in range(0, len(order) + 1):
                        for form in ("args", "kwargs"):
                            yield (form, kinds, predone, order, start_after)
                            if form == "args" or k <= 2:
                                yield (form, kinds, predone, order, start_after, 1)


# --------------------------------------------------------------------------
def run_with_timeout(case):
    """case = (kind, when, tform): kind in r/e/c/n(ever); when in
    predone/before/after (relative to the deadline) / never"""
    import datetime
    from tornado import gen
    kind, when, tform = case
    with World() as w:
        f = asyncio.Future()
        if when == "predone":
            settle(f, kind, 0)
        if tform == "abs":
            t = w.ioloop.time() + 5
        elif tform == "delta":
            t = datetime.timedelta(seconds=5)
        elif tform == "abs-now":
            t = w.ioloop.time()
        elif tform == "abs-past":
            t = w.ioloop.time() - 1
        elif tform == "delta-zero":
            t = datetime.timedelta(0)
        elif tform == "delta-neg":
            t = datetime.timedelta(seconds=-1)
        res = gen.with_timeout(t, f)
        w.pump()
        mid = None
        if when == "before":
            w.advance(3)
            settle(f, kind, 0)
            w.pump()
            mid = fut_outcome(res)[0] != "pending"
            w.advance(10)
        elif when == "after":
            w.advance(10)
            mid = fut_outcome(res)[0] != "pending"
            settle(f, kind, 0)
            w.pump()
        else:
            w.advance(10)
        got = fut_outcome(res)
        timers_left = len(w.loop.timers())
        f.done() and not f.cancelled() and f.exception()
        errs = [str(c.get("message")) + ":" + type(c.get("exception")).__name__ for c in w.loop_errors()]
        if when in ("predone", "before"):
            want = want_of(kind, 0)
        else:
            want = ("exc", "TimeoutError")
        return got, want, mid, timers_left, errs


def cases_with_timeout():
    for tform in ("abs", "delta"):
        for kind in "rec":
            for when in ("predone", "before", "after"):
                yield (kind, when, tform)
        yield ("n", "never", tform)
    # a deadline that has already passed: an input that is already done still wins, a pending one times out at once
    for tform in ("abs-now", "abs-past", "delta-zero", "delta-neg"):
        for kind in "recx":
            yield (kind, "predone", tform)
        yield ("n", "never", tform)
    for tform in ("abs", "delta"):
        for when in ("predone", "before"):
            yield ("x", when, tform)


# --------------------------------------------------------------------------
def run_chain(case):
    """case = (akind, a_predone, bstate, bclass)"""
    from tornado.concurrent import chain_future
    import concurrent.futures
    akind, a_predone, bstate, bclass = case[:4]
    aclass = case[4] if len(case) > 4 else "asyncio"
    with World() as w:
        a = asyncio.Future() if aclass == "asyncio" else concurrent.futures.Future()
        b = asyncio.Future() if bclass == "asyncio" else concurrent.futures.Future()
        if a_predone:
            settle(a, akind, 0)
        if bstate == "done-before":
            b.set_result("B")
        elif bstate == "cancel-before":
            b.cancel()
        chain_future(a, b)
        w.pump()
        if bstate == "done-between":
            if not b.done():
                b.set_result("B")
        elif bstate == "cancel-between":
            b.cancel()
        if not a_predone:
            settle(a, akind, 0)
        w.pump()
        got = fut_outcome(b) if bclass == "asyncio" else cf_outcome(b)
        a.done() and not a.cancelled() and a.exception()
        errs = [str(c.get("message")) + ":" + type(c.get("exception")).__name__ for c in w.loop_errors()]
        b_first = bstate in ("done-before", "cancel-before") or (
            bstate in ("done-between", "cancel-between") and not a_predone)
        if b_first:
            want = ("ok", "B") if bstate.startswith("done") else ("cancelled",)
        else:
            want = want_of(akind, 0)
        return got, want, errs


def cf_outcome(f):
    if not f.done():
        return ("pending",)
    if f.cancelled():
        return ("cancelled",)
    e = f.exception()
    if e is None:
        return ("ok", f.result())
    if isinstance(e, asyncio.CancelledError):
        return ("cancelled",)
    if isinstance(e, E):
        return ("E", e.args[0])
    return ("exc", type(e).__name__)


def cases_chain():
    for akind in "recxz":
        for a_predone in (0, 1):
            for bstate in ("pending", "done-before", "cancel-before", "done-between", "cancel-between"):
                for bclass in ("asyncio", "cf"):
                    yield (akind, a_predone, bstate, bclass)
                    if akind != "x":
                        yield (akind, a_predone, bstate, bclass, "cf")    # the source is an executor's future


class SyncRaise(Exception):
    pass


def guarded(fn):
    def run(case):
        try:
            return fn(case)
        except BaseException as e:      # combinator raised synchronously (e.g. pre-done cancelled input)
            if isinstance(e, (KeyboardInterrupt, SystemExit, AssertionError)):
                raise
            return SyncRaise(type(e).__name__)
    return run


run_multi, run_wait_iter, run_with_timeout, run_chain, run_wait_iter_cancel = map(
    guarded, (run_multi, run_wait_iter, run_with_timeout, run_chain, run_wait_iter_cancel))

FAMILIES = {"multi": (cases_multi, run_multi), "wait_iter": (cases_wait_iter, run_wait_iter),
            "with_timeout": (cases_with_timeout, run_with_timeout), "chain": (cases_chain, run_chain),
            "wait_iter_cancel": (cases_wait_iter_cancel, run_wait_iter_cancel)}


def judge(fam, case, out):
    """Return list of (sig, msg)."""
    bad = []
    has_cancel = "c" in repr(case[1:4]) if fam != "with_timeout" else case[0] == "c"
    tag = "cancelled-input" if has_cancel else "no-cancel"
    if isinstance(out, SyncRaise):
        return [("%s:raised-synchronously:%s" % (fam, tag),
                 "%s%r raised %s synchronously" % (fam, case, out))]
    if fam == "multi":
        got, want, early, errs = out
        if got != want:
            bad.append(("multi:%s:%s" % (got[0], tag), "multi%r -> %r, want %r" % (case, got, want)))
        if early is not None:
            bad.append(("multi:resolved-before-all-inputs-done", "multi%r resolved at step %d" % (case, early)))
    elif fam in ("wait_iter", "wait_iter_cancel"):
        rec, want, tdone, errs = out
        if rec != want:
            kind = "pending" if not tdone else "order"
            bad.append(("wait_iter:%s:%s" % (kind, tag), "WaitIterator%r yielded %r, want %r" % (case, rec, want)))
    elif fam == "with_timeout":
        got, want, mid, timers_left, errs = out
        if got != want:
            bad.append(("with_timeout:%s:%s" % (got[0], tag), "with_timeout%r -> %r, want %r" % (case, got, want)))
        if mid is False:
            bad.append(("with_timeout:late:%s" % tag, "with_timeout%r not settled right after the deciding event" % (case,)))
    else:
        got, want, errs = out
        if got != want:
            bad.append(("chain:%s:%s" % (got[0], tag), "chain_future%r -> b is %r, want %r" % (case, got, want)))
    if errs:
        bad.append(("%s:callback-raised:%s" % (fam, tag), "%s%r: loop exception handler got %r" % (fam, case, errs)))
    return bad


class C36(Check):
    id = "C36"
    level = "model_checking"
    rule = ("every combination of duplicate structure (multi), outcome in {result, exception, cancel}, "
            "pre-done flag and completion order of up to N input futures (N=3 quick, 5 thorough) for "
            "gen.multi (list and dict), gen.WaitIterator (args/kwargs, consumer started after 0..n "
            "completions), gen.with_timeout (input before/after/at-start/never vs deadline; absolute "
            "and timedelta), concurrent.chain_future (b pending / done / cancelled before or between; "
            "asyncio and concurrent.futures targets and sources), multi on a dict the caller mutates afterwards, WaitIterator "
            "next to an abandoned earlier iterator; state = one execution; non-trivial = executions "
            "with >=1 failing or cancelled input or a reordering")
    claim = ("All schedules within the bound are executed on the real combinators over a virtual loop; "
             "each output must settle with exactly the outcome the statement defines, never stay "
             "pending, and no callback may raise into the loop.")
    technique = "exhaustive enumeration of completion orders/outcomes on the real code (stateless schedule exploration)"
    assumptions = ["futures are asyncio.Future completed on the loop thread",
                   "multi's 'Multiple exceptions' log is not an error"]

    def partitions(self, tier):
        n = 3 if tier == "quick" else 5
        parts = []
        for fam in FAMILIES:
            nslices = 16 if fam in ("multi", "wait_iter") else 1
            for s in range(nslices):
                parts.append((fam, n, s, nslices))
        return parts

    def run_partition(self, part, tier, st):
        fam, n, s, nslices = part
        gen_cases, run = FAMILIES[fam]
        it = gen_cases(n) if fam in ("multi", "wait_iter", "wait_iter_cancel") else gen_cases()
        for i, case in enumerate(it):
            if i % nslices != s:
                continue
            out = run(case)
            st.ev()
            st.state((fam, case))
            st.transitions += 1 + (len(case[-1]) if fam == "multi" else len(case[3]) if fam == "wait_iter" else 2)
            st.outcome((fam, repr(out if isinstance(out, SyncRaise) else out[0])[:60]))
            if any(c in repr(case) for c in ("'e'", "'c'")) :
                st.nontriv((fam, case))
            if i % 997 == 0:
                st.sample({"family": fam, "case": case, "observed": repr(out)[:200]})
            for sig, msg in judge(fam, case, out):
                st.violation(sig, msg, {"family": fam, "case": case})
        st.setmax("max_inputs", n)

    def replay(self, case):
        fam = case["family"]
        c = tuplify(case["case"])
        out = FAMILIES[fam][1](c)
        return "family=%s case=%r\nobserved=%r\nverdict=%r" % (fam, c, out, judge(fam, c, out))


def tuplify(x):
    if isinstance(x, list):
        return tuple(tuplify(v) for v in x)
    return x


CHECK = C36()
