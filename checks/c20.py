"""C20 Template autoescaping never emits unescaped data.

Shape I (programs).  Same AST generator / reference interpreter as C19
(mc/tmpl_c19.py); two exhaustively enumerated families:

  V   one tag (expression / raw / module) carrying an adversarial value of
      every kind (str, bytes, objects with hostile __str__, str/bytes/int
      subclasses, list, bytearray, non-UTF-8 bytes, raising __str__, None) in
      every position (top level, if/else, for, loop variable, while,
      try/except/finally, apply, block, set, included file, child block,
      parent block, after an include / an overridden block, include inside a
      child block, block inside an include) x every autoescape setting of the
      tag's file (none, None, xhtml_escape, escape, custom) x every setting of
      the other files x every loader / Template(autoescape=) setting
  MA  all <=3-file extends/include/block/apply/for structures up to T nodes
      whose leaves are expression and raw tags with unique marker values,
      under every per-file autoescape directive and every loader setting

Oracle 1 (the statement itself): a value whose every emission happens in a
file with an escaping function in effect must never occur in raw form in the
output, and must occur in escaped form exactly as often as it is emitted.
Oracle 2: byte equality with the reference interpreter (per-file scoping).
"""
import itertools

from mc.core import Check, h
from mc import tmpl_c19 as T

NPARTS = 32
KINDS3 = ("str", "obj", "bytes")


# ---------------------------------------------------------------- judging
def ref_escape(fn, data):
    if fn in ("xhtml_escape", "escape"):
        return T.ref_xhtml_escape(data.decode("utf-8")).encode("utf-8")
    return T._to_bytes(T.FUNCS[fn](data))


def judge20(world):
    world = dict(world, regen=True)      # render a second time on the same Template object after a call with other kwargs
    v, exp, real = T.judge(world)
    if exp["kind"] in ("ok", "exc") and real[0] == "ok" and exp.get("trace") is not None:
        out = real[1]
        by = {}
        for data, fname, fn, kind in exp["trace"]:
            by.setdefault(data, []).append((fname, fn, kind))
        for data, evs in sorted(by.items()):
            fns = {fn for _, fn, _ in evs}
            if None in fns or len(fns) != 1:
                continue
            (fn,) = fns
            try:
                esc = ref_escape(fn, data)
            except UnicodeDecodeError:
                esc = None
            if esc == data:
                continue                      # nothing to escape in this value
            files = sorted({f for f, _, _ in evs})
            if data in out:
                return (("raw-leak", "value %r emitted raw although %s is in effect for %r; output %r"
                         % (data, fn, files, out), files), exp, real)
            if esc is not None and exp["kind"] == "ok" and b"K" in data and out.count(esc) != len(evs):
                return (("escaped-count", "escaped form %r occurs %d times, emitted %d times; output %r"
                         % (esc, out.count(esc), len(evs), out), files), exp, real)
    return v, exp, real


# ---------------------------------------------------------------- family V
def v_positions(tag):
    """name -> (files, tag file): every position a tag can be in."""
    E = tag
    boom = ("expr", "1/0", " ")
    one = {
        "top": (E,),
        "if": (("if", "n", (E,), ()),),
        "else": (("if", "z", (), (("else", (E,)),)),),
        "elif": (("if", "z", (), (("elif", "n", (E,)),)),),
        "for": (("for", "i", "xs", (E,), ()),),
        "for-else": (("for", "i", "e0", (), (("else", (E,)),)),),
        "while": (("while", "c.tick()", (E,), ()),),
        "except": (("try", (boom,), (("except", "", (E,)),)),),
        "finally": (("try", (), (("finally", (E,)),)),),
        "apply": (("apply", "wrap", (E,)),),
        "apply-in-for": (("for", "i", "xs", (("apply", "wrap", (E,)),), ()),),
        "block": (("block", "b1", (E,)),),
        "block-in-apply": (("apply", "wrap", (("block", "b1", (E,)),)),),
    }
    out = {}
    for name, body in one.items():
        out[name] = ({"t.html": body}, "t.html")
    out["included"] = ({"e.html": (("include", "t.html"),), "t.html": (E,)}, "t.html")
    out["included-twice-nested"] = ({"e.html": (("include", "p.html"),),
                                     "p.html": (("include", "t.html"),), "t.html": (E,)}, "t.html")
    out["after-include"] = ({"e.html": (("include", "t.html"), E), "t.html": (("text", "x"),)}, "e.html")
    out["child-block"] = ({"e.html": (("extends", "p.html"), ("block", "b1", (E,))),
                           "p.html": (("block", "b1", ()),)}, "e.html")
    out["parent-block"] = ({"e.html": (("extends", "p.html"),),
                            "p.html": (("block", "b1", (E,)),)}, "p.html")
    out["parent-after-overridden-block"] = (
        {"e.html": (("extends", "p.html"), ("block", "b1", (("text", "x"),))),
         "p.html": (("block", "b1", ()), E)}, "p.html")
    out["parent-around-overridden-block"] = (
        {"e.html": (("extends", "p.html"), ("block", "b2", (("text", "x"),))),
         "p.html": (("block", "b1", (("block", "b2", ()), E)),)}, "p.html")
    out["grandchild-block"] = (
        {"e.html": (("extends", "p.html"), ("block", "b1", (E,))),
         "p.html": (("extends", "g.html"), ("block", "b1", (("text", "p"),))),
         "g.html": (("block", "b1", ()),)}, "e.html")
    out["middle-block"] = (
        {"e.html": (("extends", "p.html"),),
         "p.html": (("extends", "g.html"), ("block", "b1", (E,))),
         "g.html": (("block", "b1", ()),)}, "p.html")
    out["include-in-child-block"] = (
        {"e.html": (("extends", "p.html"), ("block", "b1", (("include", "t.html"),))),
         "p.html": (("block", "b1", ()),), "t.html": (E,)}, "t.html")
    out["child-block-after-include"] = (
        {"e.html": (("extends", "p.html"), ("block", "b1", (("include", "t.html"), E))),
         "p.html": (("block", "b1", ()),), "t.html": (("text", "x"),)}, "e.html")
    out["block-in-include"] = ({"e.html": (("include", "t.html"),),
                                "t.html": (("block", "b1", (E,)),)}, "t.html")
    return out


V_DIRECTIVES = [None, "None", "xhtml_escape", "escape", "esc2"]
V_OTHER = [None, "None", "esc2"]
V_LOADER = [{}, {"autoescape": None}, {"autoescape": "esc2"}, {"autoescape": "xhtml_escape"}]
V_DIRECT = [{}, {"autoescape": None}, {"autoescape": "esc2"}, {"autoescape": "xhtml_escape"}]


def v_tags(valname):
    return [("expr", valname, " "), ("expr", valname, ""), ("raw", valname),
            ("module", "M(%s)" % valname), ("expr", "[%s][0]" % valname, " "),
            # the source text begins with a call of an escape function and ends with ')', yet the value is not that call's
            ("expr", 'xhtml_escape("") if z else (%s)' % valname, " "),
            ("expr", 'esc2("") if z else (%s)' % valname, " ")]


def v_cases(tier, part):
    idx = 0
    for tag in v_tags("m0"):
        for pname, (files, tagfile) in v_positions(tag).items():
            for kind in T.VALUE_KINDS:
                idx += 1
                if idx % NPARTS != part:
                    continue
                for d in V_DIRECTIVES:
                    for o in (V_OTHER if len(files) > 1 else [None]):
                        fs = {}
                        for name, body in files.items():
                            if name == tagfile:
                                # at the END of the file: the setting is per file
                                fs[name] = body + ((("autoescape", d),) if d else ())
                            else:
                                fs[name] = ((("autoescape", o),) if o else ()) + body
                        for lkw in V_LOADER:
                            yield {"entry": "e.html" if "e.html" in fs else "t.html", "files": fs,
                                   "lkw": dict(lkw), "vals": {"m0": kind},
                                   "lns": lkw.get("autoescape") == "esc2"}
                            # Template(source, loader=that loader, autoescape=...) : the explicit argument wins
                            for ta in (None, "xhtml_escape"):
                                if ta != lkw.get("autoescape", "xhtml_escape") and (ta is None or not lkw.get("autoescape")):
                                    yield {"mode": "both", "entry": "e.html" if "e.html" in fs else "t.html", "files": fs,
                                           "lkw": dict(lkw), "tkw": {"autoescape": ta}, "vals": {"m0": kind},
                                           "lns": lkw.get("autoescape") == "esc2"}
                        if len(files) == 1:
                            for tkw in V_DIRECT:
                                yield {"mode": "direct", "entry": "t.html", "files": fs,
                                       "tkw": dict(tkw), "vals": {"m0": kind}}


# ---------------------------------------------------------------- family MA
MA_OPTS = [None, ("post", "None"), ("pre", "esc2"), ("post", "xhtml_escape")]
MA_LOADER = [{}, {"autoescape": None}, {"autoescape": "esc2"}]


def number_markers(world):
    """Give every expression / raw tag its own marker value m<k>."""
    k = [0]
    vals = {}

    def ren(body):
        out = []
        for node in body:
            if node[0] in ("expr", "raw") and node[1] == "s":
                name = "m%d" % k[0]
                vals[name] = KINDS3[k[0] % 3]
                k[0] += 1
                out.append((node[0], name) + node[2:])
            elif node[0] in T.CONTAINERS:
                b, cls = T.parts_of(node)
                out.append(T.rebuild(node, ren(b), tuple(c[:-1] + (ren(c[-1]),) for c in cls)))
            else:
                out.append(node)
        return tuple(out)
    world["files"] = {n: ren(b) for n, b in sorted(world["files"].items())}
    world["vals"] = vals
    return world


def ma_cases(tier, part):
    idx = 0
    plan = [(2, 3), (3, 2)] if tier == "quick" else [(2, 4), (3, 3)]
    for nfiles, total in plan:
        for names, exts, bodies in T.m_structures(total, nfiles, "esc"):
            idx += 1
            if idx % NPARTS != part:
                continue
            for opts in itertools.product(MA_OPTS, repeat=nfiles):
                pre = [((("autoescape", o[1]),) if o and o[0] == "pre" else ()) for o in opts]
                post = [((("autoescape", o[1]),) if o and o[0] == "post" else ()) for o in opts]
                for lkw in (MA_LOADER[:2] if tier == "quick" else MA_LOADER):
                    w = T.m_world(names, exts, bodies, ("html",) * nfiles, lkw, pre, post)
                    yield number_markers(w)


FAMILIES = {"V": v_cases, "MA": ma_cases}


class C20(Check):
    id = "C20"
    level = "exploration"
    design_ref = "DESIGN.md §2 C19 / C20"
    rule = ("family V: one tag x every value kind x every position x every autoescape setting of "
            "its file, of the other files and of the loader/Template; family MA: all <=3-file "
            "extends/include/block/apply/for structures with marker-valued expression and raw "
            "tags under every per-file autoescape directive and loader setting; non-trivial = "
            "distinct (sources, settings, value kinds) in which at least one value containing "
            "<&\"'> is emitted by an expression tag")
    claim = ("Within the bounds, whenever an escaping function is in effect for the file that "
             "lexically contains an expression tag (by default, loader, Template argument or "
             "directive), the tag's value reaches the output only in escaped form, for every "
             "value type and position including included, inherited and applied blocks; raw "
             "tags, modules and 'autoescape None' are the only unescaped emitters, and one "
             "file's setting never changes another file's output.")
    technique = ("bounded exhaustive enumeration of template ASTs and settings executed on the "
                 "real tornado.template, checked against the statement (raw form absent, escaped "
                 "form present) and an independent reference interpreter")
    assumptions = [
        "xhtml_escape reference written from the tornado.escape docstring (& < > \" ' ; ' -> &#x27;)",
        "non-UTF-8 bytes under an escaping function may raise instead of being escaped (never raw)",
        "EITHER classes as in C19 (duplicate block names, override through include, apply "
        "scoping, several autoescape directives in one file)",
        "the value pool is finite: 11 adversarial kinds; arbitrary strings are covered only via "
        "the five special characters and a marker",
    ]

    _named = {}

    def partitions(self, tier):
        return [(fam, p) for fam in FAMILIES for p in range(NPARTS)] + [("two-directories", 0)]

    def run_partition(self, part, tier, st):
        fam, p = part
        if fam == "two-directories":
            bad, n = T.run_two_directories()
            st.ev(n)
            st.nontriv(("two-directories", n))
            for sig, msg in bad:
                st.violation(sig, msg, {"two_directories": True})
            return
        for w in FAMILIES[fam](tier, p):
            self.one(T.norm_world(w), fam, st)

    def one(self, w, fam, st):
        v, exp, real = judge20(w)
        st.ev()
        kind = exp["kind"]
        if kind == "either":
            for c in exp["classes"]:
                st.note("either:" + c)
            st.outcome("either:" + real[0])
            return
        st.note("expect:" + kind)
        trace = exp.get("trace") or []
        esc_ev = [t for t in trace if t[2] is not None and any(c in t[0] for c in b"<&\"'>")]
        if esc_ev:
            st.nontriv((tuple(sorted((n, fs.src) for n, fs in exp["rend"].items())), w["mode"],
                        tuple(sorted(w["lkw"].items())), tuple(sorted(w["tkw"].items())),
                        tuple(sorted(w["vals"].items()))))
            st.note("escaped-emissions", len(esc_ev))
        st.note("raw-emissions", sum(1 for t in trace if t[2] is None))
        st.outcome(h((kind, real[1])) if v is None else "bad")
        if len(st.samples) < 2 and kind == "ok" and len(w["files"]) > 1 and len(real[1]) > 30:
            st.sample({"family": fam, "sources": {n: fs.src for n, fs in exp["rend"].items()},
                       "lkw": w["lkw"], "vals": w["vals"], "output": repr(real[1])})
        if v is not None:
            key = (v[0], T.world_skeleton(w))
            if key not in self._named:         # shrink once per structural class
                self._named[key] = T.name_violation(w, v[0], judge20)
            sig, small = self._named[key]
            v2, exp2, real2 = judge20(small)
            if v2 is not None and len(v2) > 2:
                # escaping verdicts: name them by the role and shape of the file
                # that contains the wrongly rendered tag only
                roles = T.file_roles(small)
                parts = []
                for f in v2[2]:
                    paths = set()
                    T._paths(small["files"][f], "", paths)
                    parts.append("%s{%s}" % (roles[f], ",".join(sorted(paths))))
                sig = v2[0] + ":" + ";".join(sorted(parts))
            msg = "%s | %s" % (v2[1] if v2 else v[1], T.describe(small, exp2).replace("\n", " "))
            st.violation(sig, msg[:700], {"world": small, "family": fam})

    def replay(self, case):
        if case.get("two_directories"):
            return repr(T.run_two_directories())
        w = T.norm_world(case["world"])
        v, exp, real = judge20(w)
        out = [T.describe(w, exp), "real:      %r" % (real,)]
        if exp["kind"] == "ok":
            out.append("reference: output %r" % sorted(exp["outs"]))
        elif exp["kind"] == "exc":
            out.append("reference: raises %s" % exp["exc"])
        else:
            out.append("reference: %s %r" % (exp["kind"], exp.get("classes") or exp.get("allowed")))
        for t in exp.get("trace") or []:
            out.append("  emission %r in %s, escape=%s (%s)" % t)
        out.append("verdict:   %s" % ("agree" if v is None else "%s -- %s" % v))
        return "\n".join(out)


CHECK = C20()
