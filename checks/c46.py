"""C46 Locale.friendly_number / Locale.format_date render numbers and dates
correctly.  Shape I: bounded exhaustive enumeration of inputs on the real code.

friendly_number: every integer of a contiguous range plus +-(10^k + {-1,0,1})
and +-(d repeated k times); oracle written from the statement: removing the
commas gives str(n); optional sign, 1-3 digits, then groups of exactly 3.

format_date: the clock is owned by replacing the ``datetime`` attribute of
``tornado.locale`` by a shim whose ``datetime.now()`` returns a fixed instant
(restored after every call).  Every offset of a designed list (past and
future, sub-second to two years) x input kind x gmt_offset x flags.  Oracle
from the statement and the docstring:
  * a date more than 60 s in the future is never rendered as a relative past
    phrase ("... ago", "yesterday"), and is rendered in the full format
    ("Month D, YYYY ...") as documented;
  * the number N of "N seconds|minutes|hours ago" is the elapsed time in that
    unit rounded to a nearest integer (ties either way; elapsed time may be
    taken at whole-second resolution), singular form iff N == 1;
  * words mean what they say: a weekday / month+day / year / clock time that
    appears in the output is the one of the (gmt_offset-shifted) date, and
    "yesterday" is only said of the previous calendar day.
"""
import datetime as _rdt
import re
import types

from mc.core import Check, h
from mc import detrep_c46 as detrep

# --------------------------------------------------------------------------
# friendly_number
# --------------------------------------------------------------------------
GROUPED = re.compile(r"^-?[0-9]{1,3}(,[0-9]{3})*$")
FN_CODES = ["en_US", "en"]


def fn_special():
    out = set()
    for k in range(0, 19):
        for d in (-1, 0, 1):
            out.add(10 ** k + d)
            out.add(-(10 ** k + d))
    for k in range(1, 20):
        for d in "1379":
            out.add(int(d * k))
            out.add(-int(d * k))
    out.add(2 ** 63)
    out.add(-2 ** 63)
    out.add(2 ** 64 - 1)
    return sorted(out)


def fn_judge(n, got):
    """Return None or (sig, text)."""
    if not isinstance(got, str):
        return ("friendly_number:not-a-str", "returned %r" % (got,))
    if got.replace(",", "") != str(n):
        return ("friendly_number:digits-changed",
                "%r does not read back as %d" % (got, n))
    if not GROUPED.match(got):
        if n < 0 and got.startswith("-,"):
            return ("friendly_number:negative-3k-digits",
                    "friendly_number(%d) = %r: comma directly after the sign" % (n, got))
        return ("friendly_number:bad-grouping-%s" % ("neg" if n < 0 else "pos"),
                "friendly_number(%d) = %r is not sign + 1-3 digits + groups of 3" % (n, got))
    return None


# --------------------------------------------------------------------------
# format_date
# --------------------------------------------------------------------------
UTC = _rdt.timezone.utc
NOWS = [
    _rdt.datetime(2026, 3, 15, 14, 23, 7, 250000, UTC),   # mid-day, sub-second now
    _rdt.datetime(2024, 3, 1, 0, 0, 20, 0, UTC),          # yesterday = Feb 29
    _rdt.datetime(2025, 1, 1, 0, 30, 0, 500000, UTC),     # year boundary
]
OWN_TZ = _rdt.timezone(_rdt.timedelta(hours=5, minutes=30))
GMT_OFFSETS = [0, 480, -330]
KINDS = ["aware_utc", "naive", "timestamp", "aware_tz"]
FLAGS = [  # (relative, shorter, full_format)
    (True, False, False), (True, True, False), (False, False, False),
    (False, True, False), (True, False, True),
]
MONTHS = ["January", "February", "March", "April", "May", "June", "July",
          "August", "September", "October", "November", "December"]
WEEKDAYS = ["Monday", "Tuesday", "Wednesday", "Thursday", "Friday", "Saturday", "Sunday"]
REL = re.compile(r"^(-?[0-9]+) (second|seconds|minute|minutes|hour|hours) ago$")
UNIT_US = {"second": 10 ** 6, "minute": 60 * 10 ** 6, "hour": 3600 * 10 ** 6}
MONTHDAY = re.compile(r"\b(%s) ([0-9]{1,2})\b" % "|".join(MONTHS))
YEAR = re.compile(r", ([0-9]{4})\b")
CLOCK = re.compile(r"\b([0-9]{1,2}):([0-9]{2}) (am|pm)\b")
WDAY = re.compile(r"\b(%s)\b" % "|".join(WEEKDAYS))
US = 10 ** 6
DAY = 86400


def offsets_us(tier):
    """Designed offsets in microseconds; positive = in the past."""
    thorough = tier == "thorough"
    whole = set()
    whole.update(range(0, 121))
    for m in range(0, 24 * 60 + 1 if thorough else 181):
        for d in (0, 1, 29, 30, 31, 59):
            whole.add(m * 60 + d)
    for hh in range(3, 73):
        for d in (-1, 0, 1, 1799, 1800, 1801, 3599):
            whole.add(hh * 3600 + d)
    if thorough:
        days = list(range(1, 736))
    else:   # every day to 2 months, then weekly, plus the format thresholds / year marks
        days = sorted(set(range(1, 61)) | set(range(60, 736, 7))
                      | {333, 334, 335, 364, 365, 366, 367, 729, 730, 731, 735})
    for dd in days:
        for d in (-1, 0, 1, 30, 59, 60, 61, 43200, 86399):
            whole.add(dd * DAY + d)
    # k days +- every second of two minutes (the ".seconds" family)
    for dd in (1, 2, 3, 7, 30, 365, 366):
        for s in range(0, 121):
            whole.add(dd * DAY + s)
            whole.add(dd * DAY - s)
    if thorough:
        for dd in range(1, 735):
            for s in range(0, 121, 7):
                whole.add(dd * DAY + s)
    out = set()
    for w in whole:
        out.add(w * US)
        # sub-second variants of everything below 4 minutes and of the rounding
        # boundaries of minutes / hours (quick: up to 3 days)
        if w <= 240 or ((thorough or w <= 3 * DAY)
                        and (w % 60 in (29, 30) or w % 3600 in (1799, 1800))):
            for f in (1, 400000, 500000, 600000, 999999):
                out.add(w * US + f)
    res = sorted(out)
    return res + [-x for x in res if x != 0]


def make_input(kind, now, off_us):
    """The value handed to format_date, and the instant it denotes (computed
    independently of tornado)."""
    inst = now - _rdt.timedelta(microseconds=off_us)
    if kind == "aware_utc":
        return inst, inst
    if kind == "naive":
        return inst.replace(tzinfo=None), inst
    if kind == "aware_tz":
        return inst.astimezone(OWN_TZ), inst
    if kind == "timestamp":
        if inst.microsecond == 0:
            ts = int((inst - _rdt.datetime(1970, 1, 1, tzinfo=UTC)).total_seconds())
            return ts, inst
        ts = inst.timestamp()
        # the instant a float denotes is whatever the platform conversion says
        return ts, _rdt.datetime.fromtimestamp(ts, UTC)
    raise AssertionError(kind)


class _Clock:
    """Replace tornado.locale.datetime by a shim with a fixed now()."""

    def __init__(self, locale_mod, now):
        self.mod = locale_mod
        fixed = now

        class FakeDateTime(_rdt.datetime):
            @classmethod
            def now(cls, tz=None):
                return fixed if tz is None else fixed.astimezone(tz)

            @classmethod
            def utcnow(cls):
                return fixed.replace(tzinfo=None)

        self.shim = types.SimpleNamespace(
            datetime=FakeDateTime, timedelta=_rdt.timedelta, timezone=_rdt.timezone,
            date=_rdt.date, time=_rdt.time, tzinfo=_rdt.tzinfo, UTC=UTC)

    def __enter__(self):
        self.saved = self.mod.datetime
        self.mod.datetime = self.shim
        return self

    def __exit__(self, *a):
        self.mod.datetime = self.saved
        return False


def call_format_date(clock, loc, value, gmt, flags):
    """One case: the shim is installed for exactly the duration of the call."""
    rel, shorter, full = flags
    with clock:
        try:
            return ("ok", loc.format_date(value, gmt_offset=gmt, relative=rel,
                                          shorter=shorter, full_format=full))
        except Exception as e:          # any exception is an outcome to judge
            return ("exc", "%s: %s" % (type(e).__name__, e))


def abs_check(out, local, local_now, full):
    """Words mean what they say (absolute shapes).  Returns (violations, recognised)."""
    v = []
    recognised = False
    if "yesterday" in out:
        recognised = True
        if (local_now.date() - local.date()).days != 1:
            v.append(("format_date:yesterday-wrong-day",
                      "local date %s, local now %s rendered as %r" % (local, local_now, out)))
    mm = WDAY.search(out)
    if mm:
        recognised = True
        if mm.group(1) != WEEKDAYS[local.weekday()]:
            v.append(("format_date:wrong-weekday", "local date %s rendered as %r" % (local, out)))
    mm = MONTHDAY.search(out)
    if mm:
        recognised = True
        if mm.group(1) != MONTHS[local.month - 1] or int(mm.group(2)) != local.day:
            v.append(("format_date:wrong-month-day", "local date %s rendered as %r" % (local, out)))
        my = YEAR.search(out)
        if my and int(my.group(1)) != local.year:
            v.append(("format_date:wrong-year", "local date %s rendered as %r" % (local, out)))
    mm = CLOCK.search(out)
    if mm:
        recognised = True
        want = (local.hour % 12 or 12, local.minute, "pm" if local.hour >= 12 else "am")
        if (int(mm.group(1)), int(mm.group(2)), mm.group(3)) != want:
            v.append(("format_date:wrong-clock-time", "local date %s rendered as %r" % (local, out)))
    if full and not YEAR.search(out):
        v.append(("format_date:full-format-without-year", "full_format=True gave %r" % out))
    return v, recognised


def fd_judge(now, inst, gmt, flags, res, own_tz=None):
    """Return (violations [(sig, text)], notes [str], nontrivial bool)."""
    rel, shorter, full = flags
    v, notes = [], []
    if res[0] != "ok":
        return [("format_date:exception", "raised %s" % res[1])], notes, True
    out = res[1]
    if not isinstance(out, str) or not out:
        return [("format_date:not-a-str", "returned %r" % (out,))], notes, True
    elapsed = now - inst
    e_us = (elapsed.days * DAY + elapsed.seconds) * US + elapsed.microseconds
    ahead_us = -e_us
    m = REL.match(out)
    relative_past = bool(m) or ("ago" in out) or ("yesterday" in out)
    nontriv = bool(m) or ahead_us > 0
    shift = _rdt.timedelta(minutes=gmt)
    # Frames (date, now) the output may truthfully describe: UTC shifted by
    # gmt_offset; for an aware datetime of another zone the statement and the
    # docs are silent on the display zone, so its own zone shifted by
    # gmt_offset is accepted too (EITHER).  In relative mode a date at most a
    # minute ahead is documented to be "rounded down to now".
    frames = [(inst - shift, now - shift)]
    if own_tz is not None:
        notes.append("either:aware-non-utc-display-zone")
        frames.append((inst.astimezone(own_tz) - shift, now.astimezone(own_tz) - shift))
    clamp_window = rel and 0 < ahead_us <= 60 * US
    if clamp_window:
        frames += [(n_, n_) for _, n_ in list(frames)]

    # ---- future dates -----------------------------------------------------
    if ahead_us > 0:
        if clamp_window:
            notes.append("either:future-le-60s-relative")
            if m:
                if full:
                    v.append(("format_date:relative-phrase-not-requested",
                              "full_format=True gave %r" % out))
                if m.group(1) != "0" or m.group(2) != "seconds":
                    v.append(("format_date:near-future-nonzero-relative",
                              "date %.6f s ahead rendered as %r" % (ahead_us / US, out)))
                return v, notes, nontriv
        a = ahead_us // US
        if ahead_us <= 60 * US:
            cls = "le-60s"
        elif a >= DAY and a % DAY < 60:
            cls = "whole-days-plus-lt-60s"
        else:
            cls = "other"
        # "For dates in the future, we fall back to full format."
        wants = ["%s %d, %d" % (MONTHS[c.month - 1], c.day, c.year) for c, _ in frames]
        full_ok = any(out.startswith(w) for w in wants)
        if relative_past or not full_ok:
            as_now = (m and m.group(1) == "0") or any(
                out.startswith("%s %d, %d" % (MONTHS[n_.month - 1], n_.day, n_.year))
                for _, n_ in frames)
            if cls == "whole-days-plus-lt-60s" and as_now:
                # one defect, two symptoms ("0 seconds ago" / full format of *now*)
                sig = "format_date:future-date-treated-as-now:" + cls
            elif relative_past:
                sig = "format_date:future-as-relative-past:" + cls
            else:
                sig = "format_date:future-not-full-format"
            v.append((sig, "date %.6f s in the future rendered as %r%s"
                      % (ahead_us / US, out,
                         "" if relative_past else " (documented: full format, starting %r)" % wants[0])))
            return v, notes, nontriv

    # ---- relative phrase: number and grammatical number ---------------------
    if m:
        n = int(m.group(1))
        word = m.group(2)
        unit = UNIT_US[word.rstrip("s")]
        floor_us = (e_us // US) * US
        strict = abs(2 * e_us - 2 * n * unit) <= unit
        tolerant = (2 * n - 1) * unit <= 2 * e_us and 2 * floor_us <= (2 * n + 1) * unit
        if not tolerant:
            v.append(("format_date:relative-number-not-nearest:" + word.rstrip("s"),
                      "elapsed %.6f s rendered as %r" % (e_us / US, out)))
        elif not strict:
            notes.append("either:subsecond-truncation")
        if (n == 1) != (not word.endswith("s")):
            v.append(("format_date:singular-plural", "%r" % out))
        if full or not rel:
            v.append(("format_date:relative-phrase-not-requested",
                      "relative=%r full_format=%r gave %r" % (rel, full, out)))
        return v, notes, nontriv

    # ---- absolute shapes ----------------------------------------------------
    best = None
    for c, c_now in frames:
        vv, recognised = abs_check(out, c, c_now, full)
        if best is None or len(vv) < len(best[0]):
            best = (vv, recognised)
    if best[0] and own_tz is not None:
        # wrong in the UTC frame AND in the datetime's own zone: the output
        # mixes the two (one structural signature, whatever word is off)
        v.append(("format_date:aware-non-utc-mixed-zones",
                  "true in neither zone: UTC-frame date %s / own-zone date %s (now %s / %s) "
                  "rendered as %r [%s]" % (frames[0][0], frames[1][0], frames[0][1], frames[1][1],
                                          out, best[0][0][0].split(":")[1])))
    else:
        v.extend(best[0])
    if not best[1]:
        notes.append("either:unrecognised-shape")
    return v, notes, nontriv


def en_locale(locale_mod, code):
    # no translations loaded: CSVLocale with an empty table renders English
    return locale_mod.CSVLocale(code, {})


class C46(Check):
    id = "C46"
    level = "exploration"
    design_ref = "DESIGN.md §2 C46"
    rule = ("friendly_number: every integer of [-R, R] (R=10^5 quick, 10^6 thorough) plus "
            "+-(10^k+{-1,0,1}), k<=18 and repdigits up to 19 digits, for locale codes en_US and "
            "en; non-trivial = negative or >= 4 digits.  format_date: every offset of a designed "
            "list (every second to 2 min, every minute to 3 h [24 h thorough], every hour to "
            "3 d, every day to 2 y, each with +-1 s / +-30 s / sub-second neighbours, k days +- "
            "0..120 s; past and future) x 3 owned 'now' instants x 4 input kinds (aware UTC, "
            "naive, timestamp, aware +05:30) x gmt_offset {0,480,-330} x 5 flag sets; "
            "non-trivial = distinct (offset, flags) with a future date or a relative phrase")
    claim = ("Within the enumerated ranges the English grouping reads back as the integer with "
             "correct 3-digit groups, no date more than a minute ahead is described as past, "
             "relative numbers are nearest integers of the elapsed time in their unit, and "
             "every weekday/month/day/year/time printed is that of the date.")
    technique = ("bounded exhaustive enumeration of integers and of (now, offset, kind, "
                 "gmt_offset, flags) tuples on the real Locale methods with an owned clock, "
                 "against a reference written from the statement and the docstring")
    assumptions = [
        "English rendering only (CSVLocale with empty translation table, codes en_US/en)",
        "elapsed time may be measured at whole-second resolution (floor) before rounding to "
        "the phrase's unit; exact .5 ties may round either way",
        "0 < date-now <= 60 s in relative mode: rounding down to now is documented; the "
        "output may describe now or the date",
        "which unit (seconds/minutes/hours) or absolute shape is chosen is not asserted, only "
        "that what is printed is true of the date",
    ]

    # ---- partitions -------------------------------------------------------
    def partitions(self, tier):
        r = 10 ** 5 if tier == "quick" else 10 ** 6
        parts = []
        nchunk = 16
        span = (2 * r + 1 + nchunk - 1) // nchunk
        for i in range(nchunk):
            lo = -r + i * span
            hi = min(r, lo + span - 1)
            if lo <= hi:
                parts.append(("fn", lo, hi))
        parts.append(("fn-special",))
        for ni in range(len(NOWS)):
            for kind in KINDS:
                for gmt in GMT_OFFSETS:
                    parts.append(("fd", ni, kind, gmt))
        # the same inputs in a process whose local time zone is not UTC (TZ=XYZ5): nothing in the statement depends on it
        for kind in KINDS:
            parts.append(("fd", 0, kind, GMT_OFFSETS[0], "XYZ5"))
        return parts

    # ---- execution --------------------------------------------------------
    def run_partition(self, part, tier, st):
        from tornado import locale as tl
        import os
        import time
        # worker processes are reused: every partition states its time zone
        os.environ["TZ"] = part[4] if (part[0] == "fd" and len(part) > 4) else "UTC"
        time.tzset()
        if part[0] in ("fn", "fn-special"):
            nums = range(part[1], part[2] + 1) if part[0] == "fn" else fn_special()
            locs = [(c, en_locale(tl, c)) for c in FN_CODES]
            for n in nums:
                for code, loc in locs:
                    st.ev()
                    try:
                        got = loc.friendly_number(n)
                    except Exception as e:
                        detrep.report(st, "friendly_number:exception",
                                     "friendly_number(%d) raised %r" % (n, e),
                                     {"fn": n, "code": code})
                        continue
                    if n < 0 or abs(n) >= 1000:
                        st.nontriv(("fn", n))
                    if -1200 < n < 1200 or part[0] == "fn-special":
                        st.outcome(got)
                    bad = fn_judge(n, got)
                    if bad:
                        detrep.report(st, bad[0], bad[1], {"fn": n, "code": code})
            if part[0] == "fn-special":
                st.sample({"friendly_number": 10 ** 18,
                           "got": locs[0][1].friendly_number(10 ** 18)})
            return
        _, ni, kind, gmt = part[:4]
        now = NOWS[ni]
        loc = en_locale(tl, "en_US")
        real_dt_mod = tl.datetime
        clock = _Clock(tl, now)
        for off in offsets_us(tier):
            value, inst = make_input(kind, now, off)
            for flags in FLAGS:
                st.ev()
                res = call_format_date(clock, loc, value, gmt, flags)
                viol, notes, nontriv = fd_judge(now, inst, gmt, flags, res,
                                                OWN_TZ if kind == "aware_tz" else None)
                if nontriv:
                    st.nontriv(("fd", off, flags))
                st.outcome(h(res))
                for k in notes:
                    st.note(k)
                if viol:
                    case = {"fd": {"now": ni, "off_us": off, "kind": kind, "gmt": gmt,
                                   "flags": list(flags)}}
                    for sig, text in viol:
                        detrep.report(st, sig, "now=%s %s gmt_offset=%d flags(rel,shorter,full)=%r: %s"
                                     % (now.isoformat(), kind, gmt, flags, text), case)
                elif (len(st.samples) < 2 and flags == FLAGS[0]
                      and off in (95 * US + 600000, -(3 * DAY + 61) * US)):
                    st.sample({"now": now.isoformat(), "off_us": off, "kind": kind,
                               "gmt": gmt, "got": res[1]})
        if tl.datetime is not real_dt_mod:
            st.error("tornado.locale.datetime not restored")

    # ---- replay -----------------------------------------------------------
    def finalize(self, tier, st):
        detrep.finalize(st)

    def replay(self, case):
        from tornado import locale as tl
        if "fn" in case:
            n = int(case["fn"])
            got = en_locale(tl, case.get("code", "en_US")).friendly_number(n)
            s = str(abs(n))
            groups = []
            while s:
                groups.append(s[-3:])
                s = s[:-3]
            want = ("-" if n < 0 else "") + ",".join(reversed(groups))
            return "friendly_number(%d)\n  real     %r\n  expected %r\n  verdict  %r" % (
                n, got, want, fn_judge(n, got))
        c = case["fd"]
        now = NOWS[c["now"]]
        flags = tuple(c["flags"])
        value, inst = make_input(c["kind"], now, c["off_us"])
        res = call_format_date(_Clock(tl, now), en_locale(tl, "en_US"), value, c["gmt"], flags)
        viol, notes, _ = fd_judge(now, inst, c["gmt"], flags, res,
                                  OWN_TZ if c["kind"] == "aware_tz" else None)
        return ("now (owned clock) = %s\nformat_date(%r, gmt_offset=%d, relative=%r, shorter=%r, "
                "full_format=%r)\n  date is %.6f s %s now\n  real     %r\n  verdict  %s\n  notes %r"
                % (now.isoformat(), value, c["gmt"], flags[0], flags[1], flags[2],
                   abs(c["off_us"]) / US, "before" if c["off_us"] >= 0 else "AFTER",
                   res, viol or "ok", notes))


CHECK = C46()
