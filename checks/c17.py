"""C17 WebSocket handshakes accept exactly the valid, permitted upgrades.

Shape I: bounded exhaustive enumeration of the full product of small header
domains, on the real code:

* server side: a real ``tornado.web.Application`` with ``WebSocketHandler``
  subclasses behind a real ``HTTPServer`` on an in-memory socket
  (mc.httph.ServerConn); every case is one raw upgrade request; the oracle
  reads the raw response bytes with the strict RFC 9112 reader of mc.httph and
  decides from RFC 6455 section 4.2 / RFC 6454 / RFC 7692 -- the accept value
  is computed here with hashlib/base64, the Origin is parsed here with a
  10-line authority parser, the extension header with a 10-line list parser.
* client side: the real ``tornado.websocket.websocket_connect`` whose
  ``TCPClient.connect`` is replaced so that it returns a real ``IOStream`` on
  a ``mc.vloop.FakeSocket``; ``os.urandom`` is owned (deterministic key); the
  harness plays the server and answers with every handshake-response variant.
  The same client product is run a second time in a ``python -O`` child
  process, because header validation written with ``assert`` disappears
  there.
"""
import base64
import hashlib
import itertools
import json
import os
import re
import subprocess
import sys

from mc.core import Check, Stats, VERIF, REPO
# imported here (not lazily in the workers) so that every forked worker runs the same harness code
from mc import httph
from mc.vloop import World, outcome

GUID = b"258EAFA5-E914-47DA-95CA-C5AB0DC85B11"
KEY_RE = re.compile(r"^[A-Za-z0-9+/]{22}==$")
PMD = "permessage-deflate"
PMD_PARAMS = ("server_no_context_takeover", "client_no_context_takeover",
              "server_max_window_bits", "client_max_window_bits")


def accept_for(key):
    """RFC 6455 4.2.2 step 5.4, written from the RFC text."""
    if isinstance(key, str):
        key = key.encode("latin-1")
    return base64.b64encode(hashlib.sha1(key + GUID).digest()).decode("ascii")


# --------------------------------------------------------------------------
# small reference parsers (never Tornado's)
# --------------------------------------------------------------------------
def field(headers, name):
    """Combined field value (RFC 9110 5.3: lines joined with ',') or None."""
    vals = [v.strip(" \t") for n, v in headers if n.lower() == name.lower()]
    if not vals:
        return None
    return ",".join(vals)


def tokens(value):
    return [t.strip(" \t").lower() for t in value.split(",")]


def split_hostport(s):
    """'host', 'host:port', '[v6]', '[v6]:port' -> (host_lower, port|None) or
    None if it is not of that shape."""
    if s.startswith("["):
        end = s.find("]")
        if end < 0:
            return None
        host, rest = s[:end + 1], s[end + 1:]
        if rest == "":
            return host.lower(), None
        if rest.startswith(":") and rest[1:].isdigit() and rest[1:].isascii():
            return host.lower(), int(rest[1:])
        return None
    host, sep, port = s.partition(":")
    if not host or re.search(r"[\s/?#@\[\]\\]", host):
        return None
    if not sep:
        return host.lower(), None
    if port.isdigit() and port.isascii():
        return host.lower(), int(port)
    return None


def origin_class(origin, host_value):
    """RFC 6454: an origin is scheme://host[:port], hosts compare
    case-insensitively.  SAME: canonical serialized http origin whose host and
    port are those of the Host header.  DIFF: whatever reading one takes, the
    origin's host or port is not the Host header's.  EITHER: not a canonical
    origin (userinfo, path, other scheme, default-port spelling, no scheme)
    although host/port may be the same."""
    hp = split_hostport(host_value)
    if hp is None:
        return "EITHER"
    if origin == "null":
        return "DIFF"
    if origin.strip(" \t") == "":
        # an Origin header that is present but empty names no host: it cannot equal the Host header
        return "DIFF"
    m = re.match(r"^([A-Za-z][A-Za-z0-9+.\-]*)://([^/?#]*)(.*)$", origin, re.S)
    if not m:
        return "EITHER"
    scheme, authority, rest = m.group(1), m.group(2), m.group(3)
    userinfo, at, hostport = authority.rpartition("@")
    op = split_hostport(hostport)
    if op is None:
        return "EITHER"
    if op[0] != hp[0]:
        return "DIFF"
    default = {"http": 80, "ws": 80, "https": 443, "wss": 443}.get(scheme.lower())
    if op[1] != hp[1]:
        if default is not None and {op[1], hp[1]} == {None, default}:
            return "EITHER"
        return "DIFF"
    if at or rest or scheme != "http":
        return "EITHER"
    return "SAME"


def parse_ext(value):
    """Sec-WebSocket-Extensions list -> [(name, [(param, value|None), ...])]
    (RFC 6455 9.1; quoted strings do not occur in the alphabet)."""
    out = []
    for el in value.split(","):
        parts = [p.strip(" \t") for p in el.split(";")]
        params = []
        for p in parts[1:]:
            k, eq, v = p.partition("=")
            params.append((k.strip(" \t").lower(), v.strip(" \t") if eq else None))
        out.append((parts[0], params))
    return out


def pmd_param_problem(params):
    """None if params are a well-formed permessage-deflate parameter list
    (RFC 7692 7.1), 'valueless-unknown' for an unknown parameter without a
    value, 'bad' otherwise."""
    seen = set()
    soft = None
    for k, v in params:
        if k in seen:
            return "bad"
        seen.add(k)
        if k not in PMD_PARAMS:
            if v is None:
                soft = "valueless-unknown"
                continue
            return "bad"
        if k.endswith("_no_context_takeover"):
            if v is not None:
                return "bad"
        elif v is None:
            if k != "client_max_window_bits":
                return "bad"
        elif not (re.match(r"^[1-9][0-9]?$", v) and 8 <= int(v) <= 15):
            return "bad"
    return soft


# --------------------------------------------------------------------------
# SERVER SIDE
# --------------------------------------------------------------------------
VALID_KEY = "dGhlIHNhbXBsZSBub25jZQ=="          # RFC 6455 example nonce
VALID_KEY2 = base64.b64encode(bytes(range(200, 216))).decode()

# each domain: list of (label, value) ; value None = header absent ; a list =
# several header lines
UPGRADE = {
    "quick": [("websocket", "websocket"), ("WebSocket", "WebSocket"), ("absent", None),
              ("websocketx", "websocketx")],
    "thorough": [("websocket", "websocket"), ("WebSocket", "WebSocket"), ("absent", None),
                 ("websocketx", "websocketx"), ("websocket,h2c", "websocket, h2c")],
}
CONNECTION = {
    "quick": [("Upgrade", "Upgrade"), ("ka,Upgrade", "keep-alive, Upgrade"), ("absent", None),
              ("ka,xupgrade", "keep-alive, xupgrade")],
    "thorough": [("Upgrade", "Upgrade"), ("upgrade", "upgrade"),
                 ("ka,Upgrade", "keep-alive, Upgrade"),
                 ("two-lines", ["keep-alive", "Upgrade"]), ("absent", None),
                 ("ka,xupgrade", "keep-alive, xupgrade")],
}
KEY = {
    "quick": [("valid", VALID_KEY), ("absent", None), ("empty", "")],
    "thorough": [("valid", VALID_KEY), ("valid2", VALID_KEY2), ("absent", None), ("empty", ""), ("blank", " \t "),
                 ("short", "abc")],
}
VERSION = {
    "quick": [("13", "13"), ("8", "8"), ("12", "12"), ("absent", None), ("1", "1")],
    "thorough": [("13", "13"), ("8", "8"), ("7", "7"), ("12", "12"), ("absent", None), ("1", "1"), ("3", "3"), ("130", "130")],
}
ODD_VERSIONS = [(v, v) for v in ("013", "0008", "+13", "+7", "1_3", "13.0", "0x0d", "\uff11\uff13".encode("utf-8").decode("latin-1"),
                                  "-13", "1e1", "13;q=1", "v13")]
ORIGIN_T = {
    "quick": ["none", "same", "same-upper", "other-host", "suffix-host", "other-port",
              "userinfo-trick", "null", "https-same", "empty"],
    "thorough": ["none", "same", "same-upper", "other-host", "suffix-host", "sub-host",
                 "prefix-host", "other-port", "userinfo-same", "userinfo-trick", "null",
                 "https-same", "path", "legacy-same", "legacy-other", "empty"],
}
SUBOFFER = {
    "quick": [("absent", None), ("chat,superchat", "chat, superchat")],
    "thorough": [("absent", None), ("chat,superchat", "chat, superchat"),
                 ("spaced", " superchat ,chat")],
}
POLICY = {
    "quick": ["none", "first", "fixed"],
    "thorough": ["none", "first", "superchat", "fixed"],
}
EXTOFFER = {
    "quick": [("none", None), ("pmd;cmwb", PMD + "; client_max_window_bits"),
              ("unknown", "x-webkit-deflate-frame"),
              ("pmd;smwb=7", PMD + "; server_max_window_bits=7")],
    "thorough": [("none", None), ("pmd;cmwb", PMD + "; client_max_window_bits"),
                 ("unknown", "x-webkit-deflate-frame"),
                 ("pmd;smwb=7", PMD + "; server_max_window_bits=7"),
                 ("pmd;smwb=10;cmwb=9", PMD + "; server_max_window_bits=10; client_max_window_bits=9"),
                 ("unknown,pmd;snct", "x-webkit-deflate-frame, " + PMD + "; server_no_context_takeover"),
                 ("pmd;bogus=1,pmd", PMD + "; bogus=1, " + PMD)],
}
COMPRESS = [False, True]
EXT_EXTRA = [("pmd", PMD), ("pmd;snct", PMD + "; server_no_context_takeover"),
             ("unknown,pmd;smwb=10", "x-foo, " + PMD + "; server_max_window_bits=10"), ("pmd;cnct", PMD + "; client_no_context_takeover")]


def make_origin(template, host):
    """-> (header name, value) or None."""
    hh = host if host else "example.com"
    hp = split_hostport(hh) or ("example.com", None)
    hn = hh[:hh.rfind(":")] if hp[1] is not None else hh
    pp = (":%d" % hp[1]) if hp[1] is not None else ""
    o = {
        "none": None,
        "same": "http://" + hh.lower(),
        "same-upper": "http://" + hh.upper(),
        "other-host": "http://evil.org" + pp,
        "suffix-host": "http://evil" + hn.lower().lstrip("[") + pp if not hn.startswith("[")
        else "http://[::11]" + pp,
        "sub-host": "http://sub." + hn.lower() + pp if not hn.startswith("[")
        else "http://[1::1]" + pp,
        "prefix-host": "http://" + hn.lower() + ".evil.org" + pp if not hn.startswith("[")
        else "http://[::1:1]" + pp,
        "other-port": "http://" + hn.lower() + ":9999",
        "no-port": "http://" + hn.lower(),        # differs from the Host header when that names a non-default port
        "userinfo-same": "http://user@" + hh.lower(),
        "userinfo-trick": "http://" + hh.lower() + "@evil.org",
        "null": "null",
        "https-same": "https://" + hh.lower(),
        "path": "http://" + hh.lower() + "/x",
        "noscheme": hh.lower(),
        "empty": "",
        "legacy-same": "http://" + hh.lower(),
        "legacy-other": "http://evil.org" + pp,
    }[template]
    if o is None:
        return None
    if template.startswith("legacy-"):
        return ("Sec-WebSocket-Origin", o)
    return ("Origin", o)


def host_origin_pairs(tier):
    if tier == "quick":
        pairs = [("example.com", t) for t in ORIGIN_T["quick"]]
        pairs += [(None, "none"), ("EXAMPLE.com", "same"),
                  ("example.com:8080", "same"), ("example.com:8080", "other-port"), ("example.com:8080", "no-port"),
                  ("[::1]:8080", "same"), ("[::1]:8080", "other-port"), ("[::1]", "same")]
        return pairs
    pairs = [("example.com", t) for t in ORIGIN_T["thorough"]]
    pairs += [("example.com:8080", t) for t in ("same", "other-port", "suffix-host", "no-port")]
    pairs += [("EXAMPLE.com", t) for t in ("same", "other-host")]
    pairs += [("[::1]:8080", t) for t in ("same", "other-port", "no-port")]
    pairs += [(None, "none"), ("", "none")]
    return pairs


def build_request(hdrs, namecase="canon", target="/ws/none/0"):
    lines = ["GET %s HTTP/1.1" % target]
    for n, v in hdrs:
        if namecase == "lower":
            n = n.lower()
        elif namecase == "upper":
            n = n.upper()
        lines.append("%s: %s" % (n, v))
    return ("\r\n".join(lines) + "\r\n\r\n").encode("latin-1")


def choose(policy, offered):
    if policy == "none":
        return None
    if policy == "first":
        return offered[0] if offered else None
    if policy == "superchat":
        return "superchat" if "superchat" in offered else None
    if policy == "fixed":
        return "other"
    raise ValueError(policy)


REC = []
_APP = None


def get_app():
    global _APP
    if _APP is not None:
        return _APP
    import tornado.web
    import tornado.websocket

    routes = []
    for policy in POLICY["thorough"]:
        for en in (0, 1):
            class H(tornado.websocket.WebSocketHandler):
                _policy = policy
                _enabled = bool(en)

                def open(self):
                    REC.append(("open",))

                def select_subprotocol(self, subprotocols):
                    REC.append(("select", tuple(subprotocols)))
                    return choose(self._policy, subprotocols)

                def get_compression_options(self):
                    return {} if self._enabled else None

                def on_close(self):
                    REC.append(("close",))
            routes.append(("/ws/%s/%d" % (policy, en), H))
    _APP = tornado.web.Application(routes)
    return _APP


def server_expect(hdrs, policy, enabled, advertised):
    """-> dict(verdict = 'accept' | 'reject' | 'either', why = [(component,
    class)], ...) derived from RFC 6455 4.2.1 / 4.4 and the property text."""
    comp = {}
    up = field(hdrs, "Upgrade")
    if up is None or up == "":
        comp["upgrade"] = "FAIL"
    else:
        t = tokens(up)
        comp["upgrade"] = "OK" if t == ["websocket"] else ("EITHER" if "websocket" in t else "FAIL")
    co = field(hdrs, "Connection")
    comp["connection"] = "OK" if co is not None and "upgrade" in tokens(co) else "FAIL"
    key = field(hdrs, "Sec-WebSocket-Key")
    if not key or not key.strip(" \t"):
        comp["key"] = "FAIL"
    elif KEY_RE.match(key):
        comp["key"] = "OK"
    else:
        comp["key"] = "EITHER"
    ver = field(hdrs, "Sec-WebSocket-Version")
    if not ver:
        comp["version"] = "FAIL"
    elif ver == "13":
        comp["version"] = "OK"
    elif re.match(r"^(0|[1-9][0-9]{0,2})$", ver):
        comp["version"] = "OK" if ver in advertised else "FAIL"
    elif "," in ver:
        comp["version"] = "EITHER"       # a list in a request: not a version value, but some servers pick from it
    else:
        # RFC 6455 4.1/11.3.5: the value is a canonical decimal 0..255 (no sign, no leading zero, no separators);
        # anything else is not "a version understood by the server", however int() would read it
        comp["version"] = "FAIL"
    host = field(hdrs, "Host")
    if host is None:
        comp["host"] = "FAIL"
    elif host == "":
        comp["host"] = "EITHER"
    else:
        comp["host"] = "OK"
    origin = field(hdrs, "Origin")
    legacy = False
    if origin is None:
        origin = field(hdrs, "Sec-WebSocket-Origin")
        legacy = origin is not None
    if origin is None:
        comp["origin"] = "OK"
    elif host is None or host == "":
        comp["origin"] = "EITHER"
    else:
        oc = origin_class(origin, host)
        if legacy and ver == "13" and oc == "DIFF":
            oc = "EITHER"      # Sec-WebSocket-Origin is the hybi-08 name; silent for 13
        comp["origin"] = {"SAME": "OK", "DIFF": "FAIL", "EITHER": "EITHER"}[oc]
    if "FAIL" in comp.values():
        verdict = "reject"
    elif "EITHER" in comp.values():
        verdict = "either"
    else:
        verdict = "accept"
    # negotiation expectations (meaningful if a 101 is sent)
    sp = field(hdrs, "Sec-WebSocket-Protocol")
    offered = []
    sub_either = False
    if sp:
        offered = [t.strip(" \t") for t in sp.split(",")]
        if "" in offered:
            sub_either = True
    sel = choose(policy, offered)
    app_fault = sel is not None and sel not in offered
    ext = field(hdrs, "Sec-WebSocket-Extensions")
    offers = parse_ext(ext) if ext else []
    pmd_offers = [(n, p, pmd_param_problem(p)) for n, p in offers if n == PMD]
    bad_offer = enabled and any(pr == "bad" for _, _, pr in pmd_offers)
    return {"verdict": verdict, "comp": comp, "offered": offered, "sub_either": sub_either,
            "selection": sel, "app_fault": app_fault, "offers": offers,
            "pmd_offers": pmd_offers, "bad_offer": bad_offer, "key": key}


def run_server_case(hdrs, policy, enabled, namecase="canon"):
    """One connection on the real server; returns observation dict."""
    app = get_app()
    del REC[:]
    data = build_request(hdrs, namecase, "/ws/%s/%d" % (policy, 1 if enabled else 0))
    with World() as w:
        c = httph.ServerConn(w, app)
        c.send(data)
        out = c.output
        closed = c.closed
        rec = list(REC)
        logs = [r for r in w.logs.records if r[0] != "tornado.access"]
        errs = w.loop.exc_log[:]
        diag = None
        if not out:
            diag = {"logs": list(w.logs.records)[:4], "loop_exc": [repr(x)[:300] for x in errs[:3]],
                    "readers": list(w.loop.readers), "ready": len(w.loop._ready),
                    "timers": len(w.loop._scheduled), "inq": len(c.sock.inq), "pid": os.getpid(),
                    "stream_closed": c.stream.closed(), "stream_error": repr(c.stream.error)}
        # tear down (discarded state)
        if not closed:
            c.eof()
        after = bytes(c.sock.sent[len(out):])
    resps, problems = httph.read_responses(out, ["GET"], closed)
    return {"out": out, "closed": closed, "rec": rec, "logs": logs, "loop_errors": len(errs),
            "resps": resps, "problems": problems, "after_eof": after, "diag": diag}


def judge_server(hdrs, policy, enabled, obs, exp):
    """-> list of (sig, message) violations, plus (outcome_key, nontrivial?)."""
    v = []
    resps, problems = obs["resps"], obs["problems"]
    verdict, comp = exp["verdict"], exp["comp"]
    if not resps:
        v.append(("server:no-response", "no parsable response: %r %r diag=%r"
                  % (obs["out"][:80], problems, obs.get("diag"))))
        return v, ("noresp",), False
    r = resps[0]
    code = r.code
    uncaught = [l for l in obs["logs"] if l[0] == "tornado.application"]
    okey = (code, verdict)
    if problems:
        v.append(("server:response-framing", "response not well framed: %r" % (problems,)))
    if obs["loop_errors"]:
        v.append(("server:loop-exception", "exception reached the event loop"))
    if code == 101:
        failing = [k for k in ("upgrade", "connection", "key", "version", "host", "origin")
                   if comp[k] == "FAIL"]
        if failing:
            v.append(("server:accepted-invalid:" + failing[0],
                      "101 although %s is missing/invalid/not permitted (%r)" % (failing[0], comp)))
        # the 101 itself
        acc = r.get_all("Sec-WebSocket-Accept")
        want = accept_for(exp["key"]) if exp["key"] else None
        if want is not None and acc != [want.encode()]:
            v.append(("server:accept-value", "Sec-WebSocket-Accept %r, RFC 6455 value %r" % (acc, want)))
        up = r.get("Upgrade")
        if up is None or up.lower() != b"websocket":
            v.append(("server:101-upgrade-header", "Upgrade: %r in the 101" % (up,)))
        co = r.get("Connection")
        if co is None or b"upgrade" not in [t.strip().lower() for t in co.split(b",")]:
            v.append(("server:101-connection-header", "Connection: %r in the 101" % (co,)))
        if obs["closed"]:
            v.append(("server:101-then-closed", "connection closed right after the 101"))
        if obs["rec"].count(("open",)) != 1:
            v.append(("server:open-not-called-once", "handler calls %r" % (obs["rec"],)))
        sels = [x for x in obs["rec"] if x[0] == "select"]
        if len(sels) != 1:
            v.append(("server:select-not-called-once", "handler calls %r" % (obs["rec"],)))
        elif not exp["sub_either"] and list(sels[0][1]) != exp["offered"]:
            v.append(("server:select-subprotocol-argument",
                      "select_subprotocol(%r), offered %r" % (sels[0][1], exp["offered"])))
        got_sp = r.get_all("Sec-WebSocket-Protocol")
        if got_sp and not all(g.decode("latin-1") in exp["offered"] for g in got_sp):
            v.append(("server:subprotocol-not-offered",
                      "101 carries subprotocol %r, offered %r" % (got_sp, exp["offered"])))
        elif not exp["sub_either"] and not exp["app_fault"]:
            want_sp = [exp["selection"].encode()] if exp["selection"] else []
            if got_sp != want_sp:
                v.append(("server:subprotocol-mismatch",
                          "101 carries subprotocol %r, application selected %r"
                          % (got_sp, exp["selection"])))
        # extensions
        ge = r.get_all("Sec-WebSocket-Extensions")
        gel = []
        for g in ge:
            gel.extend(parse_ext(g.decode("latin-1")))
        good_offers = [(n, p) for n, p, pr in exp["pmd_offers"] if pr is None]
        soft_offers = [(n, p) for n, p, pr in exp["pmd_offers"] if pr == "valueless-unknown"]
        if gel:
            okey = okey + ("ext",)
            if not enabled:
                v.append(("server:deflate-although-disabled",
                          "extension response %r with compression disabled" % (ge,)))
            elif not exp["pmd_offers"]:
                v.append(("server:deflate-not-offered",
                          "extension response %r, offers %r" % (ge, exp["offers"])))
            elif any(n != PMD for n, _ in gel) or len(gel) > 1:
                v.append(("server:extension-response-unknown",
                          "extension response %r" % (ge,)))
            elif not good_offers and not soft_offers:
                v.append(("server:deflate-bad-offer-accepted",
                          "extension response %r to malformed offers %r" % (ge, exp["offers"])))
            else:
                rp = gel[0][1]
                if pmd_param_problem(rp) is not None:
                    v.append(("server:deflate-response-params", "response params %r" % (rp,)))
                elif good_offers and not any(_resp_fits(rp, op) for _, op in good_offers):
                    v.append(("server:deflate-response-params",
                              "response params %r fit none of the offers %r" % (rp, good_offers)))
    else:
        if r.get("Sec-WebSocket-Accept") is not None:
            v.append(("server:accept-header-on-non-101", "status %d carries Sec-WebSocket-Accept" % code))
        if ("open",) in obs["rec"]:
            v.append(("server:open-without-101", "open() called but status %d" % code))
        if exp["app_fault"] and verdict != "reject":
            pass          # the application selected a subprotocol nobody offered: EITHER
        elif verdict == "accept" and not exp["bad_offer"]:
            v.append(("server:rejected-valid:%d" % code,
                      "status %d for a valid, permitted upgrade request" % code))
        elif not (400 <= code <= 499):
            why = "bad-deflate-offer" if (verdict != "reject" and exp["bad_offer"]) else verdict
            v.append(("server:refusal-status:%s:%d" % (why, code),
                      "handshake refused with status %d (%r), expected a 4xx%s"
                      % (code, r.reason, " or a 101 declining the offer" if exp["bad_offer"] else "")))
        if comp["version"] == "FAIL" and code == 426:
            sv = r.get_all("Sec-WebSocket-Version")
            if not sv or b"13" not in [t.strip() for x in sv for t in x.split(b",")]:
                v.append(("server:426-without-version-list",
                          "426 without Sec-WebSocket-Version listing 13: %r" % (sv,)))
    if uncaught and not exp["app_fault"] and not any(
            sg.startswith("server:refusal-status") for sg, _ in v):
        names = sorted({l[3] or "?" for l in uncaught})
        v.append(("server:uncaught-exception:" + ",".join(names),
                  "tornado.application logged %r" % ([l[2][:60] for l in uncaught],)))
    nontriv = code == 101 or verdict != "reject"
    return v, okey, nontriv


def _resp_fits(rp, op):
    """RFC 7692 7.1: does response parameter list rp accept offer op?"""
    r, o = dict(rp), dict(op)
    if "client_max_window_bits" in r:
        if "client_max_window_bits" not in o:
            return False
        if o["client_max_window_bits"] is not None and int(r["client_max_window_bits"]) > int(
                o["client_max_window_bits"]):
            return False
    if o.get("server_max_window_bits") is not None:
        if r.get("server_max_window_bits") is None:
            return False
        if int(r["server_max_window_bits"]) > int(o["server_max_window_bits"]):
            return False
    return True


def server_headers(u, c, k, ver, host, origin_t, suboffer, extoffer):
    hdrs = []
    if host is not None:
        hdrs.append(("Host", host))

    def add(name, val):
        if val is None:
            return
        if isinstance(val, list):
            for x in val:
                hdrs.append((name, x))
        else:
            hdrs.append((name, val))
    add("Upgrade", u)
    add("Connection", c)
    add("Sec-WebSocket-Key", k)
    add("Sec-WebSocket-Version", ver)
    o = make_origin(origin_t, host)
    if o is not None:
        hdrs.append(o)
    add("Sec-WebSocket-Protocol", suboffer)
    add("Sec-WebSocket-Extensions", extoffer)
    return hdrs


def probe_advertised():
    """Versions the server itself lists (RFC 6455 4.4) when it refuses an
    unknown version -- used differentially for versions other than 13."""
    hdrs = server_headers("websocket", "Upgrade", VALID_KEY, "255", "example.com", "none", None, None)
    obs = run_server_case(hdrs, "none", False)
    if not obs["resps"]:
        return set(), "no response"
    r = obs["resps"][0]
    adv = set()
    for x in r.get_all("Sec-WebSocket-Version"):
        for t in x.split(b","):
            adv.add(t.strip().decode("latin-1"))
    return adv, None


# --------------------------------------------------------------------------
# CLIENT SIDE
# --------------------------------------------------------------------------
CLIENT_RANDOM = bytes(range(16))
CLIENT_KEY = base64.b64encode(CLIENT_RANDOM).decode()
RIGHT = accept_for(CLIENT_KEY)
WRONG = accept_for(VALID_KEY)

C_STATUS = {
    "quick": [("101", b"HTTP/1.1 101 Switching Protocols"), ("200", b"HTTP/1.1 200 OK"),
              ("400", b"HTTP/1.1 400 Bad Request")],
    "thorough": [("101", b"HTTP/1.1 101 Switching Protocols"), ("101-odd-reason", b"HTTP/1.1 101 OK"),
                 ("200", b"HTTP/1.1 200 OK"), ("400", b"HTTP/1.1 400 Bad Request"),
                 ("426", b"HTTP/1.1 426 Upgrade Required")],
}
C_UPGRADE = {
    "quick": [("websocket", "websocket"), ("WebSocket", "WebSocket"), ("absent", None), ("h2c", "h2c")],
    "thorough": [("websocket", "websocket"), ("WebSocket", "WebSocket"), ("absent", None), ("h2c", "h2c"),
                 ("websocketx", "websocketx"), ("websocket,h2c", "websocket, h2c")],
}
C_CONNECTION = {
    "quick": [("Upgrade", "Upgrade"), ("upgrade", "upgrade"), ("absent", None), ("close", "close"),
              ("ka,Upgrade", "keep-alive, Upgrade")],
    "thorough": [("Upgrade", "Upgrade"), ("upgrade", "upgrade"), ("absent", None), ("close", "close"),
                 ("ka,Upgrade", "keep-alive, Upgrade"), ("xupgrade", "xupgrade")],
}
C_ACCEPT = {
    "quick": [("right", RIGHT), ("wrong", WRONG), ("absent", None), ("right-lowercased", RIGHT.lower())],
    "thorough": [("right", RIGHT), ("wrong", WRONG), ("absent", None),
                 ("right-lowercased", RIGHT.lower()), ("empty", ""), ("truncated", RIGHT[:-2]),
                 ("right-twice", [RIGHT, RIGHT])],
}
C_SUBRESP = {
    "quick": [("absent", None), ("chat", "chat"), ("superchat", "superchat"), ("evil", "evil"),
              ("chat,superchat", "chat, superchat")],
    "thorough": [("absent", None), ("chat", "chat"), ("superchat", "superchat"), ("evil", "evil"),
                 ("chat,superchat", "chat, superchat"), ("CHAT", "CHAT"), ("empty", "")],
}
C_SUBOFFER = [None, ["chat"], ["chat", "superchat"], ["superchat"]]
C_EXTRESP = {
    "quick": [("absent", None), ("pmd", PMD), ("pmd;cmwb=10", PMD + "; client_max_window_bits=10"),
              ("unknown", "x-webkit-deflate-frame"), ("pmd;cmwb=7", PMD + "; client_max_window_bits=7"),
              ("pmd,unknown", PMD + ", x-foo")],
    "thorough": [("absent", None), ("pmd", PMD), ("pmd;cmwb=10", PMD + "; client_max_window_bits=10"),
                 ("pmd;smwb=10", PMD + "; server_max_window_bits=10"),
                 ("unknown", "x-webkit-deflate-frame"), ("pmd,unknown", PMD + ", x-foo"),
                 ("pmd;cmwb=7", PMD + "; client_max_window_bits=7"),
                 ("pmd;cmwb=abc", PMD + "; client_max_window_bits=abc"),
                 ("pmd;bogus=1", PMD + "; bogus=1"), ("pmd;bogus", PMD + "; bogus")],
}


def client_response(status_line, hdrs):
    lines = [status_line]
    for n, val in hdrs:
        lines.append(n.encode() + b": " + val.encode("latin-1"))
    if not status_line.startswith(b"HTTP/1.1 101"):
        lines.append(b"Content-Length: 0")
    return b"\r\n".join(lines) + b"\r\n\r\n"


def client_headers(up, co, acc, sub, ext):
    hdrs = []

    def add(name, val):
        if val is None:
            return
        if isinstance(val, list):
            for x in val:
                hdrs.append((name, x))
        else:
            hdrs.append((name, val))
    add("Upgrade", up)
    add("Connection", co)
    add("Sec-WebSocket-Accept", acc)
    add("Sec-WebSocket-Protocol", sub)
    add("Sec-WebSocket-Extensions", ext)
    return hdrs


def client_expect(status_line, hdrs, offered, compress):
    """RFC 6455 4.1 (client requirements 1-6) + RFC 7692 5/7.1."""
    comp = {}
    m = re.match(rb"^HTTP/1\.1 (\d{3}) ", status_line)
    comp["status"] = "OK" if m and m.group(1) == b"101" else "FAIL"
    up = field(hdrs, "Upgrade")
    if not up:
        comp["upgrade"] = "FAIL"
    else:
        t = tokens(up)
        comp["upgrade"] = "OK" if t == ["websocket"] else ("EITHER" if "websocket" in t else "FAIL")
    co = field(hdrs, "Connection")
    if co is None or "upgrade" not in tokens(co):
        comp["connection"] = "FAIL"
    else:
        comp["connection"] = "OK" if tokens(co) == ["upgrade"] else "EITHER"
    acc = [v.strip(" \t") for n, v in hdrs if n.lower() == "sec-websocket-accept"]
    if acc == [RIGHT]:
        comp["accept"] = "OK"
    elif acc and all(a == RIGHT for a in acc):
        comp["accept"] = "EITHER"
    else:
        comp["accept"] = "FAIL"
    sub = [v.strip(" \t") for n, v in hdrs if n.lower() == "sec-websocket-protocol"]
    if not sub:
        comp["subprotocol"] = "OK"
    elif len(sub) == 1 and sub[0] in (offered or []):
        comp["subprotocol"] = "OK"
    elif sub == [""]:
        comp["subprotocol"] = "EITHER"
    else:
        comp["subprotocol"] = "FAIL"
    ext = field(hdrs, "Sec-WebSocket-Extensions")
    comp["extension"] = "OK"
    if ext is not None:
        els = parse_ext(ext)
        for n, p in els:
            if n != PMD or not compress:
                comp["extension"] = "FAIL"
                break
            pr = pmd_param_problem(p)
            if pr == "bad":
                comp["extension"] = "FAIL"
                break
            if pr == "valueless-unknown":
                comp["extension"] = "EITHER"
        if comp["extension"] == "OK" and len(els) > 1:
            comp["extension"] = "EITHER"
    if "FAIL" in comp.values():
        verdict = "reject"
    elif "EITHER" in comp.values():
        verdict = "either"
    else:
        verdict = "accept"
    return {"verdict": verdict, "comp": comp, "sub": sub[0] if len(sub) == 1 else None}


def run_client_case(status_line, hdrs, offered, compress):
    import tornado.tcpclient
    import tornado.websocket
    from tornado.iostream import IOStream
    resp = client_response(status_line, hdrs)
    obs = {}
    with World() as w:
        sock = w.socket(peer=("9.9.9.9", 80))
        calls = []

        async def fake_connect(self, host, port, af=None, ssl_options=None,
                               max_buffer_size=None, source_ip=None, source_port=None,
                               timeout=None):
            calls.append((host, port, ssl_options))
            return IOStream(sock, max_buffer_size=max_buffer_size)
        old_connect = tornado.tcpclient.TCPClient.connect
        old_urandom = os.urandom
        tornado.tcpclient.TCPClient.connect = fake_connect
        os.urandom = lambda n: CLIENT_RANDOM[:n] if n <= 16 else old_urandom(n)
        try:
            fut = tornado.websocket.websocket_connect(
                "ws://example.com/ws", subprotocols=offered,
                compression_options={} if compress else None)
            w.pump()
            obs["request"] = sock.take_sent()
            obs["calls"] = calls[:]
            sock.feed(resp)
            w.pump()
            o = outcome(fut)
            if o[0] == "ok":
                conn = o[1]
                try:
                    sel = ("ok", conn.selected_subprotocol)
                except Exception as e:       # noqa
                    sel = ("exc", type(e).__name__)
                obs["result"] = ("ok",)
                obs["selected"] = sel
                obs["closed_after_handshake"] = sock.closed
                conn.close()
                w.pump()
                sock.feed_eof()
                w.pump()
            else:
                obs["result"] = o[:2]
                obs["selected"] = None
                obs["closed_after_handshake"] = sock.closed
                if not sock.closed:
                    sock.feed_eof()
                    w.pump()
                    obs["result_after_eof"] = outcome(fut)[:2]
            obs["logs"] = [(r[0], r[1], r[3]) for r in w.logs.records]
            obs["loop_errors"] = len(w.loop.exc_log)
        finally:
            tornado.tcpclient.TCPClient.connect = old_connect
            os.urandom = old_urandom
    return obs


def check_client_request(req, offered, compress):
    """The client's own upgrade request (RFC 6455 4.1 page 17)."""
    bad = []
    head, sep, rest = req.partition(b"\r\n\r\n")
    if not sep or rest:
        return ["request not one complete header block: %r" % req[:60]]
    lines = head.decode("latin-1").split("\r\n")
    if lines[0] != "GET /ws HTTP/1.1":
        bad.append("request line %r" % lines[0])
    hdrs = [tuple(x.strip(" ") for x in ln.split(":", 1)) for ln in lines[1:]]
    if field(hdrs, "Host") != "example.com":
        bad.append("Host %r" % field(hdrs, "Host"))
    if (field(hdrs, "Upgrade") or "").lower() != "websocket":
        bad.append("Upgrade %r" % field(hdrs, "Upgrade"))
    if "upgrade" not in tokens(field(hdrs, "Connection") or ""):
        bad.append("Connection %r" % field(hdrs, "Connection"))
    if field(hdrs, "Sec-WebSocket-Key") != CLIENT_KEY:
        bad.append("key %r is not base64 of the 16 random bytes" % field(hdrs, "Sec-WebSocket-Key"))
    if field(hdrs, "Sec-WebSocket-Version") != "13":
        bad.append("version %r" % field(hdrs, "Sec-WebSocket-Version"))
    sp = field(hdrs, "Sec-WebSocket-Protocol")
    got = [t.strip() for t in sp.split(",")] if sp else []
    if got != (offered or []):
        bad.append("offered subprotocols %r, application asked %r" % (got, offered))
    ext = field(hdrs, "Sec-WebSocket-Extensions")
    has = bool(ext) and any(n == PMD for n, _ in parse_ext(ext))
    if has != bool(compress):
        bad.append("extension offer %r, compression %r" % (ext, compress))
    return bad


def judge_client(obs, exp, offered, compress, opt=False):
    v = []
    sfx = ":python-O" if opt else ""
    comp, verdict = exp["comp"], exp["verdict"]
    bad = check_client_request(obs["request"], offered, compress)
    if bad:
        v.append(("client:request" + sfx, "; ".join(bad)))
    if obs["calls"] != [("example.com", 80, None)]:
        v.append(("client:connect-target" + sfx, "TCPClient.connect calls %r" % (obs["calls"],)))
    res = obs["result"]
    okey = (res[0], res[1] if len(res) > 1 else None, verdict)
    if res[0] == "ok":
        failing = [k for k in ("status", "upgrade", "connection", "accept", "subprotocol", "extension")
                   if comp[k] == "FAIL"]
        if failing:
            what = failing[0]
            if opt and what in ("upgrade", "connection", "accept"):
                what = "handshake-headers"
            elif what == "subprotocol":
                what = "subprotocol-not-offered"
            elif what == "extension":
                what = "extension-not-offered-or-malformed"
            v.append(("client:accepted-invalid:" + what + sfx,
                      "connect succeeded although %s is wrong (%r)" % (failing[0], comp)))
        elif comp["subprotocol"] == "OK":
            if obs["selected"] != ("ok", exp["sub"]):
                v.append(("client:selected-subprotocol" + sfx,
                          "selected_subprotocol %r, server said %r" % (obs["selected"], exp["sub"])))
        if obs["closed_after_handshake"]:
            v.append(("client:closed-after-success" + sfx, "socket closed although connect succeeded"))
    else:
        if res[0] == "pending":
            v.append(("client:connect-future-pending" + sfx,
                      "connect future still pending after the complete response (%r)" % (comp,)))
        elif res[0] == "cancelled":
            v.append(("client:connect-future-cancelled" + sfx, "connect future cancelled"))
        if verdict == "accept":
            v.append(("client:rejected-valid:%s%s" % (res[1] if len(res) > 1 else res[0], sfx),
                      "connect failed with %r for a canonical valid response" % (res,)))
        if res[0] == "exc" and not obs["closed_after_handshake"]:
            v.append(("client:failed-but-socket-open" + sfx,
                      "connect failed (%r) but the socket stays open" % (res,)))
    if obs["loop_errors"]:
        v.append(("client:loop-exception" + sfx, "exception reached the event loop"))
    return v, okey, (res[0] == "ok" or verdict != "reject")


def client_product(tier):
    return (C_STATUS[tier], C_UPGRADE[tier], C_CONNECTION[tier], C_ACCEPT[tier],
            C_SUBRESP[tier], C_SUBOFFER, C_EXTRESP[tier], COMPRESS)


def run_client_partition(part, tier, st, opt=False):
    _, si, ui = part
    (S, U, CO, A, SR, SO, ER, CP) = client_product(tier)
    slabel, sline = S[si]
    ulabel, up = U[ui]
    for (cl, co), (al, acc), (srl, sr), so, (erl, er), cp in itertools.product(CO, A, SR, SO, ER, CP):
        hdrs = client_headers(up, co, acc, sr, er)
        case = {"side": "client", "status": sline, "headers": hdrs, "offered": so,
                "compress": cp, "opt": opt,
                "deviations": [x for x in (slabel, ulabel, cl, al, srl, erl)
                               if x not in ("101", "websocket", "Upgrade", "right", "absent")]}
        st.ev()
        case["~pad"] = "." * (32 * len(case["deviations"]))
        try:
            obs = run_client_case(sline, hdrs, so, cp)
        except Exception as e:      # machinery
            st.error("client case %r crashed: %r" % (case, e))
            continue
        exp = client_expect(sline, hdrs, so, cp)
        viol, okey, nontriv = judge_client(obs, exp, so, cp, opt)
        st.outcome(repr(okey) + (":O" if opt else ""))
        if nontriv:
            st.nontriv(("c", opt, slabel, ulabel, cl, al, srl, so, erl, cp))
        if exp["verdict"] == "either":
            for k, val in exp["comp"].items():
                if val == "EITHER":
                    st.note("either:client-%s:%s%s" % (k, obs["result"][0], ":O" if opt else ""))
        if obs["result"][0] == "exc":
            kinds = sorted({l[2] or "-" for l in obs["logs"] if l[0] == "tornado.application"})
            st.note("client-reject-via:%s/logged:%s%s" % (obs["result"][1], ",".join(kinds) or "-",
                                                         ":O" if opt else ""))
        for sig, msg in viol:
            st.violation(sig, msg + "  [response %r, offered %r, compression %r%s]"
                         % (client_response(sline, hdrs), so, cp, ", python -O" if opt else ""), case)
        if exp["verdict"] == "accept" and obs["result"][0] == "ok" and len(st.samples) < 2:
            st.sample({"client_response": client_response(sline, hdrs).decode("latin-1"),
                       "offered": so, "result": "connected, subprotocol %r" % (obs["selected"],)})


def child_main():
    """Entry point of the `python -O` child: argv = part json, tier."""
    part = tuple(json.loads(sys.argv[1]))
    tier = sys.argv[2]
    st = Stats()
    run_client_partition(part, tier, st, opt=True)
    json.dump({"ev": st.evaluations,
               "violations": [[s, m, c, n] for s, (m, c, n) in st.violations.items()],
               "notes": dict(st.notes), "errors": st.errors,
               "nontrivial": [x.hex() for x in st.nontrivial],
               "outcomes": [x if isinstance(x, str) else x.hex() for x in st.outcomes],
               "optimize": sys.flags.optimize}, sys.stdout)


def run_client_partition_optimized(part, tier, st):
    code = ("import sys; sys.path[:0]=[%r,%r]; sys.dont_write_bytecode=True; "
            "from checks import c17; c17.child_main()" % (VERIF, REPO))
    env = dict(os.environ, PYTHONHASHSEED="0", PYTHONDONTWRITEBYTECODE="1")
    p = subprocess.run([sys.executable, "-O", "-B", "-c", code, json.dumps(list(part)), tier],
                       stdout=subprocess.PIPE, stderr=subprocess.PIPE, env=env, cwd="/tmp")
    if p.returncode != 0:
        st.error("python -O child failed for %r: %s" % (part, p.stderr.decode("utf-8", "replace")[-800:]))
        return
    d = json.loads(p.stdout.decode())
    if d.get("optimize", 0) < 1:
        st.error("child did not run with -O")
    st.ev(d["ev"])
    for s, m, c, n in d["violations"]:
        for _ in range(1):
            st.violation(s, m, c)
        msg, case, cnt = st.violations[s]
        st.violations[s] = (msg, case, cnt + n - 1)
    for k, n in d["notes"].items():
        st.note(k, n)
    for e in d["errors"]:
        st.error(e)
    for x in d["nontrivial"]:
        st.nontrivial.add(bytes.fromhex(x))
    for x in d["outcomes"]:
        st.outcomes.add(x)


# --------------------------------------------------------------------------
class C17(Check):
    id = "C17"
    level = "exploration"
    design_ref = "DESIGN.md §2 C17"
    rule = ("server: full product Upgrade x Connection x Sec-WebSocket-Key x Sec-WebSocket-Version x "
            "(Host, Origin) x offered subprotocols x application selection policy x extension offer x "
            "compression enabled, one raw upgrade request per element sent to a real "
            "Application/WebSocketHandler; client: full product status x Upgrade x Connection x "
            "Sec-WebSocket-Accept x Sec-WebSocket-Protocol response x offered subprotocols x "
            "extension response x compression, one handshake response per element fed to a real "
            "websocket_connect (run twice: normal interpreter and python -O); non-trivial = distinct "
            "cases that are not expected to be refused (verdict accept/either) or that actually "
            "completed the handshake")
    claim = ("Within the enumerated header domains the server sends 101 (with the RFC 6455 accept value "
             "computed independently, the application's subprotocol, a permessage-deflate response only "
             "if offered and enabled) exactly for requests with valid Upgrade/Connection/key/version/Host "
             "whose Origin has the Host header's host and port, refuses everything else with a "
             "well-framed 4xx, and the client's connect future succeeds only for a 101 with matching "
             "accept value and nothing it did not offer.")
    technique = ("bounded exhaustive enumeration of the full handshake-header product on the real "
                 "HTTPServer/Application/WebSocketHandler and the real websocket_connect over "
                 "in-memory sockets, against a reference written from RFC 6455 4.1/4.2, RFC 6454, RFC 7692")
    assumptions = [
        "Upgrade lists containing websocket plus another protocol, malformed-but-nonempty keys, "
        "non-canonical version numerals, empty Host, non-canonical Origins with the same host/port "
        "(userinfo, path, https, default port spelled out, no scheme) are EITHER",
        "versions other than 13 must be accepted exactly if the server itself advertises them in the "
        "Sec-WebSocket-Version header of its 426 response (differential)",
        "an application that selects a subprotocol nobody offered is an application fault: any refusal "
        "is fine, only a 101 carrying it is a violation",
        "permessage-deflate parameters without a value (server_no_context_takeover, unknown names) are "
        "dropped by httputil._parse_header; parameter negotiation for those is EITHER (outside the "
        "statement) and only counted",
        "a server that declines a valid offer (no extension response) is allowed (RFC 7692)",
        "client: a response that is valid but not canonical (Connection: keep-alive, Upgrade; duplicate "
        "accept line) may be refused",
    ]

    def partitions(self, tier):
        parts = []
        for ui in range(len(UPGRADE[tier])):
            for ci in range(len(CONNECTION[tier])):
                for ki in range(len(KEY[tier])):
                    parts.append(("srv", ui, ci, ki))
        for si in range(len(C_STATUS[tier])):
            for ui in range(len(C_UPGRADE[tier])):
                parts.append(("cli", si, ui))
                parts.append(("cliO", si, ui))
        return parts

    def run_partition(self, part, tier, st):
        if part[0] == "cli":
            return run_client_partition(part, tier, st)
        if part[0] == "cliO":
            return run_client_partition_optimized(part, tier, st)
        _, ui, ci, ki = part
        ul, u = UPGRADE[tier][ui]
        cl, c = CONNECTION[tier][ci]
        kl, k = KEY[tier][ki]
        advertised, err = probe_advertised()
        if err or "13" not in advertised:
            st.violation("server:426-without-version-list",
                         "refusal of version 255 lists %r (%s)" % (sorted(advertised), err),
                         {"side": "server", "headers": server_headers(
                             "websocket", "Upgrade", VALID_KEY, "255", "example.com", "none", None, None),
                          "policy": "none", "compress": False, "namecase": "canon"})
        advertised = advertised | {"13"}
        namecases = ["canon"] if tier == "quick" else ["canon", "lower"]
        pairs = host_origin_pairs(tier)
        cases = itertools.product(VERSION[tier], pairs, SUBOFFER[tier], POLICY[tier], EXTOFFER[tier], COMPRESS)
        if (ul, cl, kl) == ("websocket", "Upgrade", "valid"):
            # version values that int() / float() / substring tests read as a supported version, in an otherwise valid request
            cases = itertools.chain(cases, itertools.product(ODD_VERSIONS, pairs[:1], SUBOFFER[tier][:1], POLICY[tier],
                                                             EXTOFFER[tier][:1], COMPRESS))
            # valid permessage-deflate offers that do not mention client_max_window_bits (what most browsers send)
            cases = itertools.chain(cases, itertools.product(VERSION[tier][:1], pairs[:1], SUBOFFER[tier][:1], POLICY[tier][:1],
                                                             EXT_EXTRA, COMPRESS))
        for (vl, ver), (hv, ot), (sol, so), pol, (el, eo), en in cases:
            hdrs = server_headers(u, c, k, ver, hv, ot, so, eo)
            exp = server_expect(hdrs, pol, en, advertised)
            for nc in namecases:
                if nc != "canon" and not (sol == "absent" and el == "none"):
                    continue      # name case only matters for the gate; keep the product bounded
                st.ev()
                case = {"side": "server", "headers": hdrs, "policy": pol, "compress": en,
                        "namecase": nc,
                        "deviations": [x for x in (ul, cl, kl, vl, "host=%r" % (hv,), ot, sol, pol,
                                                    el, nc)
                                       if x not in ("websocket", "Upgrade", "valid", "13",
                                                    "host='example.com'", "none", "absent", "canon")]}
                # Stats keeps the case with the shortest JSON per signature: make "fewest
                # deviations from the baseline request" the shortest
                case["~pad"] = "." * (32 * len(case["deviations"]))
                try:
                    obs = run_server_case(hdrs, pol, en, nc)
                except Exception as e:      # machinery
                    st.error("server case %r crashed: %r" % (case, e))
                    continue
                viol, okey, nontriv = judge_server(hdrs, pol, en, obs, exp)
                st.outcome(repr(okey))
                if nontriv:
                    st.nontriv(("s", ul, cl, kl, vl, hv, ot, sol, pol, el, en, nc))
                code = obs["resps"][0].code if obs["resps"] else None
                if exp["verdict"] == "either":
                    for kk, val in exp["comp"].items():
                        if val == "EITHER":
                            st.note("either:server-%s:%s" % (kk, code))
                if exp["app_fault"] and exp["verdict"] != "reject":
                    st.note("either:app-selected-unoffered-subprotocol:%s" % code)
                if code == 101 and en and exp["pmd_offers"]:
                    neg = bool(obs["resps"][0].get_all("Sec-WebSocket-Extensions"))
                    st.note("deflate-offered-and-enabled:%s" % ("negotiated" if neg else "declined"))
                    if neg and any(pr == "valueless-unknown" or any(
                            kk.endswith("_no_context_takeover") for kk, _ in p)
                            for _, p, pr in exp["pmd_offers"]):
                        got = parse_ext(obs["resps"][0].get("Sec-WebSocket-Extensions").decode("latin-1"))
                        if not got[0][1]:
                            st.note("either:deflate-valueless-parameter-dropped-from-response")
                for sig, msg in viol:
                    sig2 = sig
                    if sig.startswith("server:accepted-invalid:"):
                        which = sig.rsplit(":", 1)[1]
                        lab = {"upgrade": ul, "connection": cl, "key": kl, "version": vl,
                               "host": repr(hv), "origin": ot}[which]
                        sig2 = sig + ":" + lab
                    elif sig.startswith("server:rejected-valid:403"):
                        sig2 = sig + ":host=%s,origin=%s" % (
                            "lower" if hv == (hv or "").lower() else "mixed-case", ot)
                    st.violation(sig2, msg + "  [request %r, policy %s, compression %r -> %r]"
                                 % (build_request(hdrs, nc, "/ws/%s/%d" % (pol, en)), pol, en,
                                    obs["out"][:200]), case)
                if code == 101 and exp["verdict"] == "accept" and len(st.samples) < 2 and so and eo:
                    st.sample({"request": build_request(hdrs, nc).decode("latin-1"),
                               "policy": pol, "compression": en,
                               "response": obs["out"].decode("latin-1")})

    def finalize(self, tier, st):
        # the same defect seen with and without -O is one defect
        for sig in list(st.violations):
            if sig.endswith(":python-O") and sig[:-len(":python-O")] in st.violations:
                del st.violations[sig]

    def replay(self, case):
        out = []
        if case["side"] == "server":
            hdrs = [tuple(x) for x in case["headers"]]
            pol, en, nc = case["policy"], case["compress"], case.get("namecase", "canon")
            advertised, _ = probe_advertised()
            advertised |= {"13"}
            exp = server_expect(hdrs, pol, en, advertised)
            obs = run_server_case(hdrs, pol, en, nc)
            out.append("request:\n" + build_request(hdrs, nc, "/ws/%s/%d" % (pol, en)).decode("latin-1"))
            out.append("handler: select_subprotocol policy=%s, compression %s" % (pol, "enabled" if en else "disabled"))
            out.append("real response (closed=%r):\n%s" % (obs["closed"], obs["out"].decode("latin-1")))
            out.append("handler calls: %r" % (obs["rec"],))
            out.append("logs: %r" % (obs["logs"],))
            out.append("reference: verdict=%s components=%r" % (exp["verdict"], exp["comp"]))
            if exp["key"]:
                out.append("reference accept value: %s" % accept_for(exp["key"]))
            out.append("reference subprotocol: offered %r -> selection %r%s" % (
                exp["offered"], exp["selection"], " (application fault)" if exp["app_fault"] else ""))
            out.append("reference extension offers: %r" % (exp["pmd_offers"],))
            viol, _, _ = judge_server(hdrs, pol, en, obs, exp)
            out.append("violations: %r" % (viol,))
        else:
            hdrs = [tuple(x) for x in case["headers"]]
            sline = case["status"]
            if isinstance(sline, str):
                sline = sline.encode("latin-1")
            so, cp = case["offered"], case["compress"]
            if case.get("opt") and not sys.flags.optimize:
                code = ("import sys, json; sys.path[:0]=[%r,%r]; sys.dont_write_bytecode=True; "
                        "from checks import c17; print(c17.CHECK.replay(json.loads(sys.argv[1])))" % (VERIF, REPO))
                from mc.core import jsonable
                cj = jsonable(dict(case, status=sline.decode("latin-1")))
                p = subprocess.run([sys.executable, "-O", "-B", "-c", code, json.dumps(cj)],
                                   stdout=subprocess.PIPE, stderr=subprocess.STDOUT, cwd="/tmp")
                return "(python -O child)\n" + p.stdout.decode("utf-8", "replace")
            exp = client_expect(sline, hdrs, so, cp)
            obs = run_client_case(sline, hdrs, so, cp)
            out.append("client: websocket_connect('ws://example.com/ws', subprotocols=%r, compression_options=%s)%s"
                       % (so, "{}" if cp else "None", "  [python -O]" if sys.flags.optimize else ""))
            out.append("client request:\n" + obs["request"].decode("latin-1"))
            out.append("server response:\n" + client_response(sline, hdrs).decode("latin-1"))
            out.append("real: connect future %r, selected_subprotocol %r, socket closed %r"
                       % (obs["result"], obs["selected"], obs["closed_after_handshake"]))
            out.append("logs: %r" % (obs["logs"],))
            out.append("reference: verdict=%s components=%r (right accept value %s)"
                       % (exp["verdict"], exp["comp"], RIGHT))
            viol, _, _ = judge_client(obs, exp, so, cp, bool(sys.flags.optimize))
            out.append("violations: %r" % (viol,))
        return "\n".join(out)


CHECK = C17()
