"""C42 Subprocess exit is reported once with the right status.

Shape S: `subprocess.Popen` and `os.waitpid` are shimmed inside
tornado.process (a tiny kernel model: running -> zombie(status) -> reaped,
ECHILD afterwards), the loop is mc.vloop.World (its add_signal_handler records
the SIGCHLD handler; the harness delivers SIGCHLD by scheduling that handler on
the loop, exactly what asyncio's signal machinery does).  Every order of the
events {child i exits, SIGCHLD delivered (also coalesced: one delivery for
several exits, and spurious: no exit at all), set_exit_callback /
wait_for_exit(raise_error?) registered, [child i spawned late with a recycled
pid]} is enumerated with mc.devex.explore; after every event the loop is run
to quiescence or (bounded deviation) not.  No real process, thread or signal.
"""
import errno
import os as _real_os
import signal
import subprocess as _real_subprocess

from mc.core import Check
from mc import devex
from mc.vloop import World

SIGCHLD = signal.SIGCHLD

STATUS = {"E0": 0, "E1": 1 << 8, "E255": 255 << 8, "S9": 9, "S15": 15}
CODE = {"E0": 0, "E1": 1, "E255": 255, "S9": -9, "S15": -15}
SKEYS = ("S9", "E0", "E1", "S15", "E255")
RKINDS = ("cb", "wr", "wn")       # set_exit_callback / wait_for_exit(True) / wait_for_exit(False)


STALE = "recycled-pid:re-registration-of-reaped-Subprocess"


class HarnessError(Exception):
    pass


class _Blocked(BaseException):
    """waitpid without WNOHANG on a running child: the loop would block."""


# --------------------------------------------------------------------------
# kernel model + shims
class Kernel:
    def __init__(self, policy):
        self.policy = policy            # "fresh" | "lowest" (recycle reaped pids)
        self.procs = {}                 # pid -> "running" | ("zombie", status) | "reaped"
        self.next = 100
        self.calls = 0
        self.log = []
        self.blocked = False

    def spawn(self):
        pid = None
        if self.policy == "lowest":
            free = sorted(p for p, s in self.procs.items() if s == "reaped")
            if free:
                pid = free[0]
        if pid is None:
            pid = self.next
            self.next += 1
        self.procs[pid] = "running"
        return pid

    def exit(self, pid, status):
        assert self.procs[pid] == "running"
        self.procs[pid] = ("zombie", status)

    def waitpid(self, pid, options):
        self.calls += 1
        if pid <= 0:
            if pid != -1:
                raise HarnessError("waitpid(%r): process groups not modelled" % (pid,))
            z = sorted(p for p, s in self.procs.items() if isinstance(s, tuple))
            if z:
                pid = z[0]
            elif any(s == "running" for s in self.procs.values()):
                if options & _real_os.WNOHANG:
                    return 0, 0
                self.blocked = True
                raise _Blocked()
            else:
                raise ChildProcessError(errno.ECHILD, "No child processes")
        s = self.procs.get(pid)
        if s is None or s == "reaped":
            self.log.append("waitpid(%d) -> ECHILD" % pid)
            raise ChildProcessError(errno.ECHILD, "No child processes")
        if s == "running":
            if options & _real_os.WNOHANG:
                self.log.append("waitpid(%d) -> (0, 0)" % pid)
                return 0, 0
            self.log.append("waitpid(%d) without WNOHANG on a running child" % pid)
            self.blocked = True
            raise _Blocked()
        self.procs[pid] = "reaped"
        self.log.append("waitpid(%d) -> (%d, 0x%04x)" % (pid, pid, s[1]))
        return pid, s[1]


class OsShim:
    _PASS = ("WNOHANG", "WUNTRACED", "WCONTINUED", "WIFSIGNALED", "WTERMSIG", "WIFEXITED",
             "WEXITSTATUS", "WIFSTOPPED", "WSTOPSIG", "WCOREDUMP", "waitstatus_to_exitcode")

    def __init__(self, kernel):
        self._k = kernel
        for n in self._PASS:
            if hasattr(_real_os, n):
                setattr(self, n, getattr(_real_os, n))

    def waitpid(self, pid, options):
        return self._k.waitpid(pid, options)

    def __getattr__(self, name):
        raise HarnessError("tornado.process used os.%s which the C42 shim does not model" % name)


class SubprocessShim:
    _PASS = ("CalledProcessError", "PIPE", "STDOUT", "DEVNULL", "SubprocessError",
             "TimeoutExpired")

    def __init__(self, kernel):
        for n in self._PASS:
            setattr(self, n, getattr(_real_subprocess, n))

        class Popen:
            def __init__(self, *args, **kwargs):
                self.args = args[0] if args else kwargs.get("args")
                self.pid = kernel.spawn()
                self.stdin = self.stdout = self.stderr = None
                self.returncode = None
        self.Popen = Popen

    def __getattr__(self, name):
        raise HarnessError("tornado.process used subprocess.%s which the C42 shim does not "
                           "model" % name)


# --------------------------------------------------------------------------
class Reg:
    __slots__ = ("kind", "calls", "fut", "t", "after_exit")

    def __init__(self, kind, t, after_exit):
        self.kind, self.t, self.after_exit = kind, t, after_exit
        self.calls = []
        self.fut = None


def fired(r):
    """How often registration r has been answered so far (non-destructive)."""
    if r.kind == "cb":
        return len(r.calls)
    return int(r.fut.done()) if r.fut is not None else 0


class RecLoop:
    """Stands for 'the IOLoop this Subprocess was created on': everything goes on to the real loop, but the calls are
    counted - an exit must be reported through the Subprocess's own loop, not through whichever loop happens to run
    the SIGCHLD handler (several IOLoops in several threads is a documented set-up)."""

    def __init__(self, real):
        self._real = real
        self.calls = 0

    def add_callback(self, cb, *a, **kw):
        self.calls += 1
        return self._real.add_callback(cb, *a, **kw)

    def __getattr__(self, name):
        return getattr(self._real, name)


class Child:
    __slots__ = ("i", "skey", "status", "code", "p", "pid", "exited", "t_exit", "regs", "rec")

    def __init__(self, i, skey, status=None, code=None):
        self.i, self.skey = i, skey
        self.status = STATUS[skey] if status is None else status
        self.code = CODE[skey] if code is None else code
        self.p = None
        self.pid = None
        self.exited = False
        self.t_exit = None
        self.regs = []


class ScriptChooser:
    """Drives run_case through an explicit event list (always pumping)."""

    def __init__(self, script):
        self.script = list(script)
        self.trace = []

    def pick(self, enabled):
        if not self.script:
            return None
        ev = tuple(self.script.pop(0))
        return enabled.index(ev)

    def nopump(self):
        return False


class DevexChooser:
    def __init__(self, ch):
        self.ch = ch

    def pick(self, enabled):
        return self.ch.choose(len(enabled), "event", free=True)

    def nopump(self):
        return bool(self.ch.choose(2, "nopump", free=False))


def run_case(proc, case, chooser, trace=None):
    """Execute one schedule on the real Subprocess class.
    case: dict(children=[(skey, rkind) | (skey, rkind, status, code)], late=bool,
    policy=str, rereg=bool, maxsig=int).
    Returns dict(bad=[(sig, msg)], outcome=tuple, states=[...], events=[...], nontriv=bool)."""
    kernel = Kernel(case.get("policy", "fresh"))
    children = []
    for i, c in enumerate(case["children"]):
        children.append(Child(i, c[0], *(c[2:4] if len(c) > 2 else ())))
    rk = [c[1] for c in case["children"]]
    late, rereg, maxsig = case.get("late", False), case.get("rereg", False), case.get("maxsig", 2)
    bad = []
    states = []
    events = []
    Sub = proc.Subprocess

    trace_on = trace is not None

    def say(x):
        if trace is not None:
            trace.append(x)

    def flag(sig, msg):
        if sig.startswith(STALE):
            rest = sig[len(STALE):]
            sig = STALE if rest.startswith((":never-reported", ":wrong-status")) else rest
        sig = sig.lstrip(":")
        if not any(b[0] == sig for b in bad):
            bad.append((sig, msg + "  [events: %s]" % " ".join(events)))

    saved = (proc.os, proc.subprocess)
    Sub._waiting.clear()
    Sub._initialized = False
    proc.os = OsShim(kernel)
    proc.subprocess = SubprocessShim(kernel)
    try:
        with World() as w:
            loop = w.loop
            st = {"t": 0, "pending": False, "nsig": 0, "t_sig": -1}

            def spawn(c):
                c.p = Sub(["child%d" % c.i])
                c.rec = RecLoop(c.p.io_loop)
                c.p.io_loop = c.rec
                c.pid = c.p.pid
                say("spawn child %d -> pid %d" % (c.i, c.pid))

            def register(c, kind):
                r = Reg("cb" if kind == "cbr" else kind, st["t"], c.exited)
                c.regs.append(r)
                if kind == "cbr":
                    # the exit callback registers again on the same object from inside itself
                    def cb(code, c=c, r=r):
                        r.calls.append(code)
                        if len(c.regs) < 3:
                            r2 = Reg("cb", st["t"], True)
                            c.regs.append(r2)
                            c.p.set_exit_callback(r2.calls.append)
                    c.p.set_exit_callback(cb)
                elif kind == "cb":
                    c.p.set_exit_callback(r.calls.append)
                else:
                    r.fut = c.p.wait_for_exit(raise_error=(kind == "wr"))

            def timing(c, r):
                return "reg-after-exit" if r.after_exit else "exit-after-reg"

            def where_of(c, r):
                """One defect = one signature: when a pid was recycled between two
                Subprocess objects and one of them registered a second time, a
                missing / wrong report is the stale-registration defect."""
                same = [d for d in children if d.pid == c.pid]
                if len(same) > 1 and any(len(d.regs) > 1 for d in same):
                    return STALE
                return ""

            def check_quiescent(final):
                for c in children:
                    for ri, r in enumerate(c.regs):
                        # set_exit_callback keeps one callback: a later registration replaces an unreported
                        # earlier one, so the report is owed to the last registration (an earlier one stays EITHER)
                        single = ri == len(c.regs) - 1
                        where = where_of(c, r)
                        n = fired(r)
                        if r.kind == "cb":
                            if n > 1:
                                flag(where + ":called-%d-times" % n,
                                     "exit callback of child %d ran %d times %r" % (c.i, n, r.calls))
                            if r.calls and any(a != c.code or type(a) is not int for a in r.calls):
                                flag(where + ":wrong-status:%s" % ("signal" if c.code < 0 else "exit"),
                                     "exit callback of child %d (status 0x%04x) got %r, expected %d"
                                     % (c.i, c.status, r.calls, c.code))
                        if n and not c.exited:
                            flag(where + ":reported-before-exit",
                                 "child %d reported although it has not exited" % c.i)
                        if single and c.exited and n == 0 and (
                                r.after_exit or st["t_sig"] > max(c.t_exit, r.t)):
                            flag(where + ":never-reported:" + timing(c, r),
                                 "child %d exited (status 0x%04x), %s, loop quiescent, but %s"
                                 % (c.i, c.status,
                                    "registration came after the exit" if r.after_exit else
                                    "SIGCHLD was delivered after exit and registration",
                                    "the callback did not run" if r.kind == "cb" else
                                    "the future is pending"))
                for c in children:
                    if c.p is not None and any(fired(r) for r in c.regs) and c.rec.calls == 0:
                        flag("exit-reported-through-another-loop",
                             "child %d was reported, but not by way of the IOLoop the Subprocess belongs to" % c.i)
                if kernel.blocked:
                    flag("blocking-waitpid", "waitpid without WNOHANG on a running child")
                for ctx in w.loop.exc_log:
                    if isinstance(ctx.get("exception"), HarnessError):
                        raise ctx["exception"]
                errs = w.error_logs()
                if errs and errs[0][3] == "HarnessError":
                    raise HarnessError(errs[0][2])
                if w.loop.exc_log and not kernel.blocked:
                    flag("loop-exception:%s" % type(w.loop.exc_log[0].get("exception")).__name__,
                         "loop exception handler: %r" % (w.loop.exc_log[:1],))
                if errs:
                    flag("error-log:%s" % (errs[0][3] or "-"), "error logged: %r" % (errs[0],))
                if not trace_on:
                    del kernel.log[:]
                states.append((tuple((c.p is not None, c.exited, len(c.regs),
                                      tuple(fired(r) for r in c.regs)) for c in children),
                               st["pending"], SIGCHLD in loop.signal_handlers,
                               tuple(sorted(Sub._waiting))))

            def do(ev):
                events.append("%s%s" % (ev[0], "" if len(ev) == 1 else ev[1]))
                st["t"] += 1
                kind = ev[0]
                try:
                    if kind == "spawn":
                        spawn(children[ev[1]])
                    elif kind == "exit":
                        c = children[ev[1]]
                        kernel.exit(c.pid, c.status)
                        c.exited, c.t_exit = True, st["t"]
                        if SIGCHLD in loop.signal_handlers:
                            st["pending"] = True
                        say("child %d (pid %d) exits, status 0x%04x" % (c.i, c.pid, c.status))
                    elif kind in ("reg", "rereg"):
                        c = children[ev[1]]
                        if kind == "reg":
                            k = rk[c.i]
                        elif c.regs[0].kind == "wr" or (c.regs[0].kind == "cb" and rk[c.i] == "wr"):
                            k = "cb"
                        else:
                            k = "wr" if c.i % 2 == 0 else "wn"     # a late wait_for_exit() (default raise_error)
                        say("%s child %d: %s" % (kind, c.i, {"cb": "set_exit_callback",
                            "wr": "wait_for_exit()", "wn": "wait_for_exit(raise_error=False)",
                            "cbr": "set_exit_callback(callback that registers again)"}[k]))
                        register(c, k)
                    elif kind == "sig":
                        cb, args = loop.signal_handlers[SIGCHLD]
                        loop.call_soon(cb, *args)
                        st["pending"] = False
                        st["nsig"] += 1
                        st["t_sig_queued"] = st["t"]
                        say("SIGCHLD delivered (handler scheduled on the loop)")
                except _Blocked:
                    flag("blocking-waitpid", "waitpid without WNOHANG on a running child")
                except HarnessError:
                    raise
                except Exception as e:
                    flag("exception:%s:in-%s" % (type(e).__name__, kind),
                         "%s raised %s: %s" % (ev, type(e).__name__, e))

            def pump(final=False):
                try:
                    w.pump()
                except _Blocked:
                    flag("blocking-waitpid", "waitpid without WNOHANG on a running child")
                except HarnessError:
                    raise
                except Exception as e:
                    flag("exception:%s:in-loop" % type(e).__name__, "loop raised %r" % (e,))
                if "t_sig_queued" in st:
                    st["t_sig"] = st.pop("t_sig_queued")
                if trace is not None:
                    for x in kernel.log:
                        say("    os." + x)
                    del kernel.log[:]
                    say("  loop quiescent: " + "; ".join(
                        "child %d %s" % (c.i, ",".join(
                            "%s=%s" % (r.kind, r.calls if r.kind == "cb" else
                                       ("done" if fired(r) else "pending")) for r in c.regs)
                            or "unregistered") for c in children))
                check_quiescent(final)

            for c in children:
                if not late or c.i == 0:
                    spawn(c)
            while not bad:
                enabled = []
                for c in children:
                    if c.p is None:
                        if all(d.p is not None for d in children[:c.i]):
                            enabled.append(("spawn", c.i))
                        continue
                    if not c.exited:
                        enabled.append(("exit", c.i))
                    if not c.regs:
                        enabled.append(("reg", c.i))
                    elif rereg and len(c.regs) < 2:
                        enabled.append(("rereg", c.i))
                if not enabled:
                    break
                if SIGCHLD in loop.signal_handlers and st["nsig"] < maxsig:
                    enabled.append(("sig",))
                k = chooser.pick(enabled)
                if k is None:
                    break
                do(enabled[k])
                if bad:
                    break
                if chooser.nopump():
                    events.append("~")
                    continue
                pump()
            # closure: the kernel's pending SIGCHLD is delivered, the loop runs,
            # then the remaining (spurious) deliveries
            if not bad:
                pump()
            if not bad and st["pending"] and SIGCHLD in loop.signal_handlers:
                do(("sig",))
                pump(final=True)
            while not bad and SIGCHLD in loop.signal_handlers and st["nsig"] < maxsig:
                do(("sig",))              # spurious deliveries after everything was reported
                pump(final=True)
            # final (destructive) observation of the futures
            outcome = []
            for c in children:
                for r in c.regs:
                    where = where_of(c, r)
                    if r.kind == "cb":
                        outcome.append((c.skey, r.kind, tuple(r.calls)))
                        continue
                    f = r.fut
                    if f is None:
                        outcome.append((c.skey, r.kind, "registration-raised"))
                        continue
                    if not f.done():
                        outcome.append((c.skey, r.kind, "pending"))
                        continue
                    if f.cancelled():
                        flag(where + ":future-cancelled", "future of child %d cancelled" % c.i)
                        continue
                    e = f.exception()
                    if e is not None:
                        outcome.append((c.skey, r.kind, type(e).__name__, getattr(e, "returncode", None)))
                        if not (r.kind == "wr" and c.code != 0):
                            flag(where + ":unexpected-exception:%s" % type(e).__name__,
                                 "wait_for_exit(raise_error=%s) of child %d (code %d) raised %r"
                                 % (r.kind == "wr", c.i, c.code, e))
                        elif type(e) is not _real_subprocess.CalledProcessError:
                            flag(where + ":wrong-exception:%s" % type(e).__name__,
                                 "expected CalledProcessError, got %r" % (e,))
                        elif e.returncode != c.code:
                            flag(where + ":wrong-status:%s" % ("signal" if c.code < 0 else "exit"),
                                 "CalledProcessError.returncode %r, expected %d (status 0x%04x)"
                                 % (e.returncode, c.code, c.status))
                    else:
                        v = f.result()
                        outcome.append((c.skey, r.kind, "ok", v))
                        if r.kind == "wr" and c.code != 0:
                            flag(where + ":no-CalledProcessError",
                                 "wait_for_exit() of child %d resolved with %r instead of raising "
                                 "CalledProcessError(%d)" % (c.i, v, c.code))
                        elif v != c.code or type(v) is not int:
                            flag(where + ":wrong-status:%s" % ("signal" if c.code < 0 else "exit"),
                                 "wait_for_exit of child %d resolved with %r, expected %d "
                                 "(status 0x%04x)" % (c.i, v, c.code, c.status))
            rereg_notes = []
            if rereg:
                for c in children:
                    if len(c.regs) == 2 and c.exited:
                        rereg_notes.append("either:re-registration:fired(first,second)=%r"
                                           % (tuple(fired(r) for r in c.regs),))
                        if c.pid in Sub._waiting:
                            rereg_notes.append("either:re-registration:reaped-pid-left-in-_waiting")
            nontriv = any(c.exited and c.regs for c in children)
            return {"bad": bad, "outcome": tuple(outcome), "states": states,
                    "events": list(events), "nontriv": nontriv, "notes": rereg_notes,
                    "nev": st["t"]}
    finally:
        proc.os, proc.subprocess = saved
        Sub._waiting.clear()
        Sub._initialized = False


# --------------------------------------------------------------------------
def run_loop_switch(proc, reinit, rkind, skey, exit_first):
    """SIGCHLD handling was set up on a loop that has since been closed (asyncio.run() returned); on the new loop the
    application calls Subprocess.uninitialize() to move the handler (then initialize(), or leaves that to the first
    registration).  A child that exits must be reported on the new loop."""
    kernel = Kernel("fresh")
    Sub = proc.Subprocess
    saved = (proc.os, proc.subprocess)
    Sub._waiting.clear()
    Sub._initialized = False
    proc.os = OsShim(kernel)
    proc.subprocess = SubprocessShim(kernel)
    bad = []
    try:
        with World() as wa:
            Sub.initialize()
            if SIGCHLD not in wa.loop.signal_handlers:
                bad.append(("loop-switch:no-handler-on-first-loop", "initialize() installed no SIGCHLD handler"))
        with World() as wb:
            Sub.uninitialize()
            if reinit:
                Sub.initialize()
            p = Sub(["child"])
            calls = []
            fut = None
            if exit_first:
                kernel.exit(p.pid, STATUS[skey])
            if rkind == "cb":
                p.set_exit_callback(calls.append)
            else:
                fut = p.wait_for_exit(raise_error=False)
            wb.pump()
            if SIGCHLD not in wb.loop.signal_handlers:
                bad.append(("loop-switch:no-handler-on-new-loop", "after uninitialize()%s and a registration on the new "
                            "loop no SIGCHLD handler is installed there" % (" + initialize()" if reinit else "")))
            if not exit_first:
                kernel.exit(p.pid, STATUS[skey])
            if SIGCHLD in wb.loop.signal_handlers:
                cb, args = wb.loop.signal_handlers[SIGCHLD]
                wb.loop.call_soon(cb, *args)
            wb.pump()
            got = calls if rkind == "cb" else ([fut.result()] if fut.done() else [])
            if got != [CODE[skey]]:
                bad.append(("loop-switch:never-reported" if not got else "loop-switch:wrong-report",
                            "child exited with %s after the handler was moved to a new loop: reports %r" % (skey, got)))
            Sub.uninitialize()
    finally:
        proc.os, proc.subprocess = saved
        Sub._waiting.clear()
        Sub._initialized = False
    return bad


def run_misc(proc, kind, skey):
    """Small fixed scenarios on one loop:
    reinit    - a child is registered while running, then uninitialize() + initialize() (the handler is re-installed),
                then the child exits;
    no-ref    - the application keeps no reference to the Subprocess after registering its callback;
    cb-raises - two children are found by one SIGCHLD sweep and the exit callback of the first raises."""
    import gc
    kernel = Kernel("fresh")
    Sub = proc.Subprocess
    saved = (proc.os, proc.subprocess)
    Sub._waiting.clear()
    Sub._initialized = False
    proc.os = OsShim(kernel)
    proc.subprocess = SubprocessShim(kernel)
    bad = []
    try:
        with World() as w:
            calls = []
            pids = []
            if kind == "reinit":
                p = Sub(["child"])
                pids.append(p.pid)
                p.set_exit_callback(lambda c: calls.append((0, c)))
                w.pump()
                Sub.uninitialize()
                Sub.initialize()
            elif kind == "no-ref":
                def make():
                    q = Sub(["child"])
                    pids.append(q.pid)
                    q.set_exit_callback(lambda c: calls.append((0, c)))
                make()
                w.pump()
                gc.collect()
            else:
                ps = [Sub(["child%d" % i]) for i in range(2)]
                pids += [q.pid for q in ps]

                def boom(c):
                    calls.append((0, c))
                    raise RuntimeError("application bug in an exit callback")
                ps[0].set_exit_callback(boom)
                ps[1].set_exit_callback(lambda c: calls.append((1, c)))
                w.pump()
            for pid in pids:
                kernel.exit(pid, STATUS[skey])
            if SIGCHLD in w.loop.signal_handlers:
                cb, args = w.loop.signal_handlers[SIGCHLD]
                w.loop.call_soon(cb, *args)
            else:
                bad.append(("misc:%s:no-sigchld-handler" % kind, "no SIGCHLD handler installed on the loop"))
            w.pump()
            want = sorted((i, CODE[skey]) for i in range(len(pids)))
            if sorted(calls) != want:
                bad.append(("misc:%s:%s" % (kind, "never-reported" if len(calls) < len(want) else "wrong-report"),
                            "%s: exit callbacks got %r, expected %r" % (kind, sorted(calls), want)))
            Sub.uninitialize()
    finally:
        proc.os, proc.subprocess = saved
        Sub._waiting.clear()
        Sub._initialized = False
    return bad


def rot(seq, k, n):
    return tuple(seq[(k + j) % len(seq)] for j in range(n))


class C42(Check):
    id = "C42"
    level = "model_checking"
    design_ref = "DESIGN.md §2 C42"
    rule = ("for every case (1..3 concurrent children with distinct statuses from {exit 0, 1, 255, "
            "SIGKILL, SIGTERM} x registration kind {set_exit_callback, wait_for_exit(), "
            "wait_for_exit(raise_error=False)}) mc.devex.explore enumerates every order of "
            "{child i exits, registration of child i, SIGCHLD delivery (<= maxsig; also spurious "
            "and coalesced), late spawn with recycled pid, [second registration on the same object: "
            "EITHER class, oracle-free invariants only]} and, deviation-bounded, whether the loop "
            "runs between two events; plus all exit codes 0..255 and signals 1..64 (+core flag) "
            "through the two basic schedules; the expected report (exactly once, decoded status, "
            "CalledProcessError) is checked at every quiescent point; non-trivial = distinct event "
            "schedules (statuses / registration kinds ignored) in which >=1 child both exited and "
            "was registered")
    claim = ("Within the bound every registered child's exit is reported exactly once with "
             "returncode = exit status or -signal, as soon as the registration follows the exit or "
             "a SIGCHLD follows both; never before the exit; wait_for_exit raises "
             "CalledProcessError exactly for non-zero codes with raise_error.")
    technique = ("bounded exhaustive schedule enumeration (stateless, deviation-bounded) on the "
                 "real tornado.process.Subprocess over a fake kernel/loop against a reference")
    assumptions = [
        "a second registration on the same object replaces the first: the report is owed to the last "
        "registration (exactly once, right status); whether the replaced first one also fired is EITHER",
        "SIGCHLD is guaranteed only for exits that happen while the handler is installed; "
        "deliveries may be coalesced or spurious",
        "waitpid is the only observation of the kernel; exits between two waitpid calls of one "
        "handler run are equivalent to exits before/after the handler",
        "stopped/continued children and STREAM pipes are not modelled",
    ]

    # ---- case lists ------------------------------------------------------
    def cases(self, tier):
        q = tier == "quick"
        out = []
        for s in SKEYS:                                  # one child: everything exhaustive
            for r in RKINDS:
                out.append(dict(children=[(s, r)], maxsig=3, bound=None))
                out.append(dict(children=[(s, r)], maxsig=2, bound=None, rereg=True))
        for s in SKEYS:                                  # the callback re-registers from inside itself
            out.append(dict(children=[(s, "cbr")], maxsig=2, bound=None))
        for k in range(len(SKEYS)):                      # two children
            ss = rot(SKEYS, k, 2)
            for r0 in RKINDS:
                for r1 in RKINDS:
                    out.append(dict(children=[(ss[0], r0), (ss[1], r1)],
                                    maxsig=2 if q else 3, bound=1 if q else 2))
            for j in range(3):
                rr = rot(RKINDS, j, 2)
                out.append(dict(children=[(ss[0], rr[0]), (ss[1], rr[1])], late=True,
                                policy="lowest", maxsig=2, bound=1 if q else 2))
            rr = rot(RKINDS, k, 2)
            out.append(dict(children=[(ss[0], rr[0]), (ss[1], rr[1])], late=True, policy="lowest",
                            rereg=True, maxsig=1, bound=0 if q else 1, split=1))
        for k in range(len(SKEYS)):                      # three children
            ss = rot(SKEYS, k, 3)
            combos = [rot(RKINDS, j, 3) for j in range(3)]
            if not q:
                combos += [("cb", "cb", "cb"), ("wr", "wr", "wr"), ("wn", "wn", "wn"),
                           ("cb", "cb", "wr"), ("wr", "cb", "cb"), ("cb", "wn", "cb")]
            for rr in combos:
                out.append(dict(children=list(zip(ss, rr)), maxsig=1 if q else 2,
                                bound=0 if q else 1, split=2))
        if not q:
            for k in range(len(SKEYS)):
                ss = rot(SKEYS, k, 3)
                rr = rot(RKINDS, k, 3)
                out.append(dict(children=list(zip(ss, rr)), late=True, policy="lowest",
                                maxsig=1, bound=1, split=2))
                out.append(dict(children=[(ss[0], rr[0]), (ss[1], rr[1])], maxsig=2, bound=1,
                                rereg=True, split=1))
        return out

    def partitions(self, tier):
        from tornado import process as proc
        parts = [("decode", 0), ("decode", 1), ("loopswitch", 0)]
        for ci, case in enumerate(self.cases(tier)):
            if case.get("split"):
                def run(ch, case=case):
                    return run_case(proc, case, DevexChooser(ch))
                try:
                    prefixes = devex.first_level(run, depth=2 * case["split"])
                except Exception:
                    prefixes = [()]        # let the worker hit (and report) the problem
                for prefix in prefixes:
                    # odd positions are the bounded "loop does not run" choices
                    if case["bound"] is not None and sum(1 for c in prefix[1::2] if c) > case["bound"]:
                        continue
                    parts.append((ci, tuple(prefix)))
            else:
                parts.append((ci, ()))
        return parts

    # ---- execution -------------------------------------------------------
    def run_partition(self, part, tier, st):
        from tornado import process as proc
        if part[0] == "decode":
            return self._decode(proc, part[1], st)
        if part[0] == "loopswitch":
            for reinit in (False, True):
                for rkind in ("cb", "wn"):
                    for skey in SKEYS[:3]:
                        for exit_first in (False, True):
                            bad = run_loop_switch(proc, reinit, rkind, skey, exit_first)
                            st.ev()
                            st.transitions += 4
                            st.nontriv(("loopswitch", reinit, rkind, skey, exit_first))
                            st.outcome(("loopswitch", bool(bad)))
                            for sig, msg in bad:
                                st.violation(sig, msg, {"loopswitch": [reinit, rkind, skey, exit_first]})
            for kind in ("reinit", "no-ref", "cb-raises"):
                for skey in SKEYS[:3]:
                    bad = run_misc(proc, kind, skey)
                    st.ev()
                    st.nontriv(("misc", kind, skey))
                    st.outcome(("misc", kind, bool(bad)))
                    for sig, msg in bad:
                        st.violation(sig, msg, {"misc": [kind, skey]})
            return
        ci, prefix = part
        case = self.cases(tier)[ci]
        seen = set()

        def run(ch):
            return run_case(proc, case, DevexChooser(ch))

        def on_exec(ch, obs):
            self._record(st, seen, case, obs, ch.choices())

        n, edges, capped = devex.explore(run, bound=case["bound"], on_exec=on_exec,
                                         start=list(prefix))
        if capped:
            st.note("cap_hit")
        st.setmax("max_children", len(case["children"]))

    def _record(self, st, seen, case, obs, choices):
        st.ev()
        st.transitions += obs["nev"]
        for s in obs["states"]:
            if s not in seen:
                seen.add(s)
                st.state((len(case["children"]), s))
        ok = obs["outcome"]
        if ok not in seen:
            seen.add(ok)
            st.outcome(ok)
        if obs["nontriv"]:
            nk = (len(case["children"]), bool(case.get("late")), bool(case.get("rereg")),
                  tuple(obs["events"]))        # distinct schedules (statuses / kinds ignored)
            if nk not in seen:
                seen.add(nk)
                st.nontriv(nk)
            if len(st.samples) < 1 and len(obs["events"]) >= 6:
                st.sample({"children": case["children"], "events": " ".join(obs["events"]),
                           "reports": [list(map(str, o)) for o in ok]})
        for nkey in obs["notes"]:
            st.note(nkey)
        if case.get("rereg"):
            st.note("either:re-registration")
        for sig, msg in obs["bad"]:
            st.violation(sig, "children %r%s: %s" % (
                case["children"], " (late spawn, recycled pids)" if case.get("late") else "", msg),
                {"case": case, "choices": list(choices)})

    def _decode(self, proc, half, st):
        """All exit codes / signals through the two basic schedules."""
        seen = set()
        stats = []
        for c in range(256):
            stats.append(("E%d" % c, c << 8, c))
        for s in range(1, 65):
            stats.append(("S%d" % s, s, -s))
            stats.append(("S%dc" % s, s | 0x80, -s))
        for name, status, code in stats[half::2]:
            for r in RKINDS:
                for script in ([("reg", 0), ("exit", 0), ("sig",)], [("exit", 0), ("reg", 0)]):
                    case = dict(children=[(name, r, status, code)], maxsig=1)
                    obs = run_case(proc, case, ScriptChooser(script))
                    obs["outcome"] = tuple(("E" if code >= 0 else "S", "zero" if code == 0 else "nz")
                                           + o[1:3] for o in obs["outcome"])
                    st.ev()
                    st.transitions += obs["nev"]
                    st.nontriv(("decode", name, r, len(script)))
                    if obs["outcome"] not in seen:
                        seen.add(obs["outcome"])
                        st.outcome(obs["outcome"])
                    for sig, msg in obs["bad"]:
                        st.violation(sig, "status 0x%04x: %s" % (status, msg),
                                     {"case": case, "script": [list(e) for e in script]})

    def replay(self, case):
        from tornado import process as proc
        if "misc" in case:
            return repr(run_misc(proc, *case["misc"]))
        if "loopswitch" in case:
            return repr(run_loop_switch(proc, *case["loopswitch"]))
        trace = []
        c = dict(case["case"])
        c["children"] = [tuple(x) for x in c["children"]]
        if "script" in case:
            obs = run_case(proc, c, ScriptChooser(case["script"]), trace)
        else:
            obs = run_case(proc, c, DevexChooser(devex.Chooser(case["choices"])), trace)
        out = ["case %r" % (c,)] + trace
        out.append("reports: %r" % (obs["outcome"],))
        for n in obs["notes"]:
            out.append("note: " + n)
        if obs["bad"]:
            for sig, msg in obs["bad"]:
                out.append("MISMATCH %s -- %s" % (sig, msg))
        else:
            out.append("verdict: OK")
        return "\n".join(out)


CHECK = C42()
