"""C01 HTTP/1.x request framing is exact, strict and chunking-independent.
Shapes I x S: a grammar of valid and near-valid request streams (slot
variations of a base request, pipelines, single-byte edits) x all
segmentations up to a cut bound, executed on the real HTTPServer
(HTTPServer(callable) -> HTTP1ServerConnection -> IOStream on a FakeSocket)
against mc.ref_http."""
from mc.core import Check, h
from mc import enum as en
from mc import ref_http
from mc.httph import ServerConn
from mc.vloop import World

BIG = b"1" * 4301


def build(method=b"GET", target=b"/a?b=c", version=b"HTTP/1.1", eol=b"\r\n", leading=b"",
          host=(b"Host: x.example",), extra=(), framing=(), body=b"", line_eols=None):
    """Assemble one request from slots; every slot is raw bytes."""
    lines = [method + b" " + target + b" " + version] + list(host) + list(extra) + list(framing)
    out = leading
    for i, ln in enumerate(lines):
        e = eol if line_eols is None else line_eols[i % len(line_eols)]
        out += ln + e
    out += (eol if line_eols is None else line_eols[len(lines) % len(line_eols)])
    return out + body


def chunked(chunks, term=b"\r\n", last=b"0\r\n\r\n", size_fmt=None):
    out = b""
    for c in chunks:
        sz = (size_fmt or (lambda n: b"%x" % n))(len(c))
        out += sz + b"\r\n" + c + term
    return out + last


GET = build()
POST3 = build(method=b"POST", framing=(b"Content-Length: 3",), body=b"abc")
CHUNKED = build(method=b"POST", framing=(b"Transfer-Encoding: chunked",), body=chunked([b"hello", b"wo"]))
TE = (b"Transfer-Encoding: chunked",)


def slot_variants():
    """(label, stream) - one slot varied at a time around valid base requests."""
    v = []
    add = lambda label, s: v.append((label, s))
    add("base-get", GET)
    add("base-post-cl", POST3)
    add("base-chunked", CHUNKED)
    for m in (b"get", b"M-SEARCH", b"G(T", b"", b"GE T"):
        add("method:%r" % m, build(method=m))
    for t in (b"/", b"*", b"http://x.example/abs", b"/\xc3\xa9", b"/a b", b"/a\tb", b"", b"/\x7f", b"/\x00"):
        add("target:%r" % t, build(target=t))
    for ver in (b"HTTP/1.0", b"HTTP/1.2", b"HTTP/2.0", b"http/1.1", b"HTTP/1.1 ", b"HTTP/11", b"HTTP/1.10", b"",
                b"HTTP/1x1", b"HTTP/1,1", b"HTTP/1 1", b"HTTP/1/1", b"HTTP/1.", b"HTTP/.1", b"HTTP/1.1.1", b"HTTP/01.1",
                b"HTTP1.1", b"HTTP/a.1", b"HTTP/1.a", b"HTTPS/1.1", b"HTTP/1\x001"):
        add("version:%r" % ver, build(version=ver))
    add("reqline:double-space", GET.replace(b"GET /", b"GET  /", 1))
    add("reqline:tab", GET.replace(b"GET /", b"GET\t/", 1))
    add("reqline:trailing-space", GET.replace(b" HTTP/1.1", b" HTTP/1.1 ", 1))
    for label, e in (("lf", b"\n"), ("cr", b"\r"), ("crcrlf", b"\r\r\n")):
        add("eol:" + label, build(eol=e))
        add("eol:%s:post" % label, build(method=b"POST", eol=e, framing=(b"Content-Length: 3",), body=b"abc"))
    add("eol:mixed", build(line_eols=[b"\n", b"\r\n"], extra=(b"X-A: 1", b"X-B: 2")))
    add("eol:mixed2", build(line_eols=[b"\r\n", b"\n"], extra=(b"X-A: 1", b"X-B: 2")))
    for k in (1, 2, 3):
        add("leading-blank:%d" % k, build(leading=b"\r\n" * k))
        add("leading-blank-lf:%d" % k, build(leading=b"\n" * k))
    hosts = {
        "absent": (), "twice": (b"Host: a", b"Host: b"), "twice-same": (b"Host: a", b"Host: a"),
        "comma": (b"Host: a,b",), "space": (b"Host: a b",), "slash": (b"Host: a/b",), "userinfo": (b"Host: u@a",),
        "v6": (b"Host: [::1]:80",), "port": (b"Host: a:8080",), "empty": (b"Host:",), "emptyport": (b"Host: a:",),
        "bigport": (b"Host: a:" + BIG,), "upper": (b"HOST: A.Example",), "nonascii": (b"Host: \xe9",),
        "tab": (b"Host:\ta\t",), "colons": (b"Host: a:b:c",), "bracket": (b"Host: [",),
    }
    for k, hv in hosts.items():
        add("host:" + k, build(host=hv))
        add("host10:" + k, build(host=hv, version=b"HTTP/1.0"))
    for ver in (b"HTTP/1.2", b"HTTP/1.9"):
        for k in ("absent", "twice", "empty", "port"):
            add("host%s:%s" % (ver[-3:].decode(), k), build(host=hosts[k], version=ver))
    add("host:x+empty", build(host=(b"Host: a", b"Host:")))
    add("host:empty+x", build(host=(b"Host:", b"Host: a")))
    add("host:empty+empty", build(host=(b"Host:", b"Host:  ")))
    hdrs = {
        "plain2": (b"X-A: 1", b"x-a: 2", b"X-B:3"), "fold": (b"X-A: 1", b" more", b"\tyet"),
        "fold-empty": (b"X-A:", b" v"), "fold-ws-only": (b"X-A: 1", b"  "),
        "space-before-colon": (b"X-A : 1",), "no-colon": (b"X-A 1",), "empty-name": (b": 1",),
        "nul": (b"X-A: a\x00b",), "cr": (b"X-A: a\rb",), "del": (b"X-A: a\x7fb",), "obs-text": (b"X-A: \xe9\xff",),
        "ctl": (b"X-A: a\x01b",), "name-nonascii": (b"X-\xe9: 1",), "name-slash": (b"X/A: 1",),
        "fold-ff": (b"X-A: 1", b" 2\x0c"), "fold-vt-lead": (b"X-A: 1", b" \x0b2"), "fold-us": (b"X-A: 1", b" 2\x1f"),
        "fold-nbsp": (b"X-A: 1", b" 2\xa0"), "fold-nel-lead": (b"X-A: 1", b" \x852"), "fold-cr": (b"X-A: 1", b" 2\r"),
        "value-ff": (b"X-A: 1\x0c",), "value-nbsp": (b"X-A: \xa01\xa0",),
        "only-ws-value": (b"X-A:   \t ",), "colon-in-value": (b"X-A: a:b: c",), "empty-line-ws": (b"X-A: 1", b" "),
    }
    for k, hv in hdrs.items():
        add("hdr:" + k, build(extra=hv))
    add("hdr:fold-first", build(host=(b" folded", b"Host: x")))
    add("te:fold-ff", build(method=b"POST", framing=(b"Transfer-Encoding:", b" chunked\x0c"), body=chunked([b"abc"])))
    add("cl:fold-cr", build(method=b"POST", framing=(b"Content-Length:", b" 3\r"), body=b"abc"))
    cl = {
        "0": (b"Content-Length: 0", b""), "3": (b"Content-Length: 3", b"abc"), "3,3": (b"Content-Length: 3,3", b"abc"),
        "3, 3": (b"Content-Length: 3, 3", b"abc"), "3 , 3": (b"Content-Length: 3 , 3", b"abc"),
        "3,4": (b"Content-Length: 3,4", b"abcd"), "+3": (b"Content-Length: +3", b"abc"),
        "-3": (b"Content-Length: -3", b"abc"), "3x": (b"Content-Length: 3x", b"abc"),
        "0x3": (b"Content-Length: 0x3", b"abc"), "empty": (b"Content-Length:", b""),
        "003": (b"Content-Length: 003", b"abc"), "big": (b"Content-Length: " + BIG, b"abc"),
        "3_0": (b"Content-Length: 3_0", b"abc"), "arabic": (b"Content-Length: \xd9\xa3", b"abc"),
        "3.0": (b"Content-Length: 3.0", b"abc"), "space3": (b"Content-Length: 3 3", b"abc"),
    }
    for k, (line, body) in cl.items():
        add("cl:" + k, build(method=b"POST", framing=(line,), body=body))
    add("cl:two-equal", build(method=b"POST", framing=(b"Content-Length: 3", b"Content-Length: 3"), body=b"abc"))
    add("cl:two-differ", build(method=b"POST", framing=(b"Content-Length: 3", b"Content-Length: 4"), body=b"abcd"))
    add("cl:3+empty", build(method=b"POST", framing=(b"Content-Length: 3", b"Content-Length:"), body=b"abc"))
    add("cl:empty+3", build(method=b"POST", framing=(b"Content-Length: ", b"Content-Length: 3"), body=b"abc"))
    add("cl:3+empty+3", build(method=b"POST", framing=(b"Content-Length: 3", b"Content-Length:", b"Content-Length: 3"),
                              body=b"abc"))
    add("te:chunked+empty", build(method=b"POST", framing=TE + (b"Transfer-Encoding:",), body=chunked([b"abc"])))
    add("te:empty+chunked", build(method=b"POST", framing=(b"Transfer-Encoding:",) + TE, body=chunked([b"abc"])))
    add("cl:short-body", build(method=b"POST", framing=(b"Content-Length: 5",), body=b"abc"))
    add("cl+te", build(method=b"POST", framing=(b"Content-Length: 3",) + TE, body=chunked([b"abc"])))
    add("te+cl", build(method=b"POST", framing=TE + (b"Content-Length: 3",), body=chunked([b"abc"])))
    for te in (b"Chunked", b"gzip", b"chunked, identity", b"identity", b"chunked, chunked", b"gzip, chunked",
               b"", b"chunked;q=1", b" chunked "):
        add("te:%r" % te, build(method=b"POST", framing=(b"Transfer-Encoding: " + te,), body=chunked([b"abc"])))
    add("te:two-lines", build(method=b"POST", framing=TE + TE, body=chunked([b"abc"])))
    add("te:http10", build(method=b"POST", version=b"HTTP/1.0", framing=TE, body=chunked([b"abc"])))
    add("post:no-framing", build(method=b"POST"))
    ch = {
        "upper": chunked([b"0123456789abcdef" * 1 + b"xyz"], size_fmt=lambda n: b"%X" % n),
        "zeros": chunked([b"abc"], size_fmt=lambda n: b"000%x" % n),
        "ext": chunked([b"abc"], size_fmt=lambda n: b"%x;foo=bar" % n),
        "ext-space": chunked([b"abc"], size_fmt=lambda n: b"%x ;foo" % n),
        "lead-space": chunked([b"abc"], size_fmt=lambda n: b" %x" % n),
        "trail-space": chunked([b"abc"], size_fmt=lambda n: b"%x " % n),
        "0x": chunked([b"abc"], size_fmt=lambda n: b"0x%x" % n),
        "neg": chunked([b"abc"], size_fmt=lambda n: b"-%x" % n),
        "plus": chunked([b"abc"], size_fmt=lambda n: b"+%x" % n),
        "underscore": chunked([b"abc" * 6], size_fmt=lambda n: b"1_2"),
        "size-nonascii": chunked([b"abc"], size_fmt=lambda n: b"%x\xe9" % n),
        "size-nonascii-lead": chunked([b"abc"], size_fmt=lambda n: b"\xff%x" % n),
        "size-fullwidth": chunked([b"abc"], size_fmt=lambda n: "\uff13".encode()),
        "ext-nonascii": chunked([b"abc"], size_fmt=lambda n: b"%x;name=caf\xe9" % n),
        "empty-size": chunked([b"abc"], size_fmt=lambda n: b""),
        "long-size": chunked([b"abc"], size_fmt=lambda n: b"0" * 63 + b"%x" % n),
        "bad-term-XX": chunked([b"abc"], term=b"XX"),
        "bad-term-lf": chunked([b"abc"], term=b"\n"),
        "bad-term-none": chunked([b"abc"], term=b""),
        "bad-term-cr": chunked([b"abc"], term=b"\rX"),
        "trailers": chunked([b"abc"], last=b"0\r\nX-T: 1\r\n\r\n"),
        "bad-final": chunked([b"abc"], last=b"0\r\nXX"),
        "final-lf": chunked([b"abc"], last=b"0\r\n\n"),
        "lf-framing": b"3\nabc\n0\n\n",
        "empty-body": chunked([]),
        "three-chunks": chunked([b"a", b"", b"bc", b"d" * 20]) if False else chunked([b"a", b"bc", b"d" * 20]),
        "truncated": chunked([b"abc"])[:-3],
        "zero-ext": chunked([b"abc"], last=b"0;x\r\n\r\n"),
        "00": chunked([b"abc"], last=b"00\r\n\r\n"),
    }
    for k, body in ch.items():
        add("chunk:" + k, build(method=b"POST", framing=TE, body=body))
    add("expect-100", build(method=b"POST", extra=(b"Expect: 100-continue",), framing=(b"Content-Length: 3",), body=b"abc"))
    add("conn-close", build(extra=(b"Connection: close",)))
    add("garbage", b"\x16\x03\x01\x02\x00\x01\x00\x01\xfc\x03\x03" + b"\r\n\r\n")
    add("truncated-headers", GET[:-2])
    add("only-crlf", b"\r\n")
    return v


SECOND = [("get", GET), ("post3", POST3), ("chunked", CHUNKED)]


def all_inputs(tier):
    """(label, stream) for the tier; deterministic order."""
    out = []
    sv = slot_variants()
    for label, s in sv:
        out.append((label, s))
    for label, s in sv:
        for l2, s2 in SECOND[:2 if tier == "quick" else 3]:
            out.append((label + "|" + l2, s + s2))
    for l1, s1 in SECOND:
        for l2, s2 in SECOND:
            for l3, s3 in SECOND[:2]:
                out.append(("%s|%s|%s" % (l1, l2, l3), s1 + s2 + s3))
    return out


EDIT_ALPHABET = [0x20, 0x09, 0x0d, 0x0a, 0x00, ord(":"), ord(","), ord(";"), ord("0"), ord("a"), 0x80]
EDIT_SEEDS = [
    ("get", build(target=b"/", host=(b"Host: a",))),
    ("post", build(method=b"POST", target=b"/", host=(b"Host: a",), framing=(b"Content-Length: 2",), body=b"hi")),
    ("chunked", build(method=b"POST", target=b"/", host=(b"Host: a",), framing=TE, body=chunked([b"hi"]))),
    ("fold", build(target=b"/", host=(b"Host: a",), extra=(b"X: 1", b" 2"))),
]


class Recorder:
    def __init__(self, deferred=False):
        self.reqs = []
        self.deferred = deferred      # the application answers later (after the client has half-closed)
        self.pending = []

    def __call__(self, request):
        hdrs = {}
        for k, v in request.headers.get_all():
            hdrs.setdefault(k.lower(), []).append(v)
        self.reqs.append((request.method, request.uri, request.version, hdrs, request.body))
        if self.deferred:
            self.pending.append(request)
        else:
            self.respond(request)

    def respond(self, request):
        from tornado import httputil, iostream
        try:
            request.connection.write_headers(
                httputil.ResponseStartLine("HTTP/1.1", 200, "OK"),
                httputil.HTTPHeaders({"Content-Length": "2"}), b"ok")
            request.connection.finish()
        except iostream.StreamClosedError:
            pass

    def release(self):
        n = len(self.pending)
        while self.pending:
            self.respond(self.pending.pop(0))
        return n


def execute(stream, segs, deferred=False):
    rec = Recorder(deferred)
    with World() as w:
        c = ServerConn(w, rec)
        c.send_segments(segs)
        c.eof()
        w.pump()
        for _ in range(8):            # deferred application: answer now, one request after the other
            if not rec.release():
                break
            w.pump()
        closed = c.closed
        out = c.output
        logs = [r for r in w.logs.records if r[0] != "tornado.access"]
        pending = len(w.loop.timers())
        errs = [str(x.get("message"))[:100] for x in w.loop_errors()]
    return rec.reqs, out, closed, logs, errs


def execute_app(stream):
    """The same stream through an Application (a Router): the delegate chain web.py / routing.py puts between the
    connection and the handler must not turn a refused request into an application error."""
    from tornado import web
    seen = []

    class Any(web.RequestHandler):
        def prepare(self):
            seen.append((self.request.method, self.request.uri))
            self.finish("ok")
    with World() as w:
        c = ServerConn(w, web.Application([(r".*", Any)]))
        c.send_segments([stream])
        c.eof()
        w.pump()
        logs = [r for r in w.logs.records if r[0] != "tornado.access" and r[1] in ("ERROR", "CRITICAL")]
        errs = [str(x.get("message"))[:100] for x in w.loop_errors()]
    return seen, logs, errs


def ref_norm(item):
    _, method, target, version, headers, body = item
    hd = {}
    for k, v in headers:
        hd.setdefault(k.decode("latin1"), []).append(v.decode("latin1"))
    return (method.decode("latin1"), target.decode("latin1"), version.decode("latin1"), hd, body)


def same_request(got, want):
    if got[:3] != want[:3] or got[4] != want[4]:
        return False
    gh = {k: v for k, v in got[3].items() if k != "content-length"}
    wh = {k: v for k, v in want[3].items() if k != "content-length"}
    return gh == wh


def judge(stream, obs, ref=None):
    reqs, out, closed, logs, errs = obs
    bad = []
    items = ref if ref is not None else ref_http.read_requests(stream)
    accepted = [ref_norm(it) for it in items if it[0] == "req"]
    last = items[-1] if items else ("end",)
    stop = last[0] if last[0] != "req" else "end"
    for i, want in enumerate(accepted):
        if i >= len(reqs):
            bad.append(("not-delivered", "request %d %r %r accepted by the reference was not delivered (delivered %d)"
                        % (i, want[0], want[1], len(reqs))))
            break
        if not same_request(reqs[i], want):
            field = next(f for f, (a, b) in zip(("method", "target", "version", "headers", "body"),
                                                zip(reqs[i], want)) if a != b or f == "body")
            bad.append(("delivered-differs:" + field, "request %d delivered %r, reference %r" % (i, reqs[i], want)))
            break
    if not bad and len(reqs) > len(accepted) and stop != "either":
        bad.append(("extra-delivery-after-" + stop + (":" + last[1] if stop == "reject" else ""),
                    "delivered %d requests, reference accepts %d then %r; extra: %r"
                    % (len(reqs), len(accepted), last, reqs[len(accepted)][:3])))
    for name, level, msg, exc in logs:
        if level in ("ERROR", "CRITICAL") or exc is not None:
            bad.append(("error-log:%s:%s" % (name.split(".")[-1], exc or msg[:20]),
                        "log record %s %s %r exc=%s" % (name, level, msg[:80], exc)))
            break
    if errs:
        bad.append(("loop-exception", "loop exception handler: %r" % errs[:2]))
    if not closed:
        bad.append(("not-closed-after-eof", "connection still open after EOF"))
    return bad, stop


class C01(Check):
    id = "C01"
    level = "model_checking"
    rule = ("inputs: ~170 single-slot variations of valid requests (method, target, version, line ends, leading "
            "blank lines, Host forms, header syntax, Content-Length forms, Transfer-Encoding forms, chunk syntax), "
            "each alone and followed by a second pipelined request, all 3-request pipelines of core requests, and "
            "(thorough) every single-byte replace/insert/delete edit of 4 seed requests over 11 framing-relevant "
            "bytes; schedules: every segmentation with <= K cut points plus byte-at-a-time, EOF at the end; "
            "state = (input, segmentation) execution; non-trivial = executions of inputs the reference does not "
            "fully accept or that are segmented")
    claim = ("Every (input, segmentation) pair runs on the real server stack; the requests delivered to the "
             "application must equal what the strict reference reader accepts, nothing may be delivered after the "
             "first rejected message, no peer input may produce an ERROR/traceback log record, and the observation "
             "must be identical for every segmentation of the same stream.")
    technique = "exhaustive enumeration of a request grammar x all segmentations up to a cut bound on the real code vs a strict RFC 9112 reference reader"
    assumptions = ["EITHER classes (verdict not asserted): >=2 leading blank lines, HTTP/1.x minor versions other "
                   "than 0/1, Transfer-Encoding on HTTP/1.0, chunk extensions, trailers, 'n , n' Content-Length, "
                   "bare-LF chunk framing, over-long chunk-size lines, odd Host syntax",
                   "Content-Length field value itself is not compared (Tornado normalises lists)"]

    def partitions(self, tier):
        inputs = all_inputs(tier)
        parts = [("slots", i, 32) for i in range(32)]
        if tier == "thorough":
            parts += [("edits", i, 64) for i in range(64)]
            parts += [("cuts2", i, 32) for i in range(32)]
        return parts

    def run_partition(self, part, tier, st):
        kind, s, nsl = part
        if kind == "slots":
            for i, (label, stream) in enumerate(all_inputs(tier)):
                if i % nsl == s:
                    self.check_input(label, stream, 1, st)
        elif kind == "cuts2":
            core = slot_variants()
            core = [x for x in core if x[0].startswith(("base-", "chunk:", "cl:", "eol:", "hdr:fold"))]
            for i, (label, stream) in enumerate(core):
                if i % nsl == s and len(stream) <= 90:
                    self.check_input(label, stream, 2, st)
        else:
            k = 0
            for sl, seed in EDIT_SEEDS:
                for what, pos, byte, stream in en.edits1(seed, EDIT_ALPHABET):
                    k += 1
                    if k % nsl == s:
                        self.check_input("edit:%s:%s@%d:%r" % (sl, what, pos, byte), stream, 0, st, stride=5)

    def check_input(self, label, stream, maxcuts, st, stride=1):
        ref = ref_http.read_requests(stream)
        base = execute(stream, [stream])
        self.record(label, stream, [stream], base, ref, st)
        if label.startswith(("host", "base-", "version:", "cl:", "te:")):
            seen, logs, errs = execute_app(stream)
            st.ev()
            if logs or errs:
                st.violation("application-server:error-log", "input %s %r through an Application: logged %r %r"
                             % (label, stream[:60], [(r[1], r[2][:50], r[3]) for r in logs[:2]], errs[:1]),
                             {"label": label, "stream": stream.decode("latin1"), "segs": [len(stream)], "app": True})
            elif label.startswith("host") and "|" not in label and len(seen) != len(base[0]):
                st.violation("application-server:delivered-%d-instead-of-%d" % (len(seen), len(base[0])),
                             "input %s %r: the Application got %r, the plain callable %d requests" % (label, stream[:60], seen, len(base[0])),
                             {"label": label, "stream": stream.decode("latin1"), "segs": [len(stream)], "app": True})
        base_key = (base[0], base[1], base[2])
        segs_list = []
        if len(stream) > 250:
            # very long inputs (4301-digit fields): every 41st cut position only
            segs_list += [en.segments(stream, (c,)) for c in range(1, len(stream), 41)]
        elif maxcuts >= 1:
            segs_list += [en.segments(stream, c) for c in en.cuts(len(stream), maxcuts) if c]
        else:
            segs_list += [en.segments(stream, (c,)) for c in range(1, len(stream), stride)]
        segs_list.append([stream[i:i + 1] for i in range(len(stream))])
        if sum(1 for it in ref if it[0] == "req") >= 2:
            # pipelined requests, the application answers only after the client has sent FIN: same deliveries
            obs = execute(stream, [stream], deferred=True)
            self.record(label + "|deferred-app", stream, [stream], obs, ref, st, quiet=True)
            if obs[0] != base[0]:
                st.violation("deferred-application:delivered-differs:%s" % label.split(":")[0],
                             "input %s: an application that answers after the client's FIN is delivered %d requests, "
                             "a synchronous one %d" % (label, len(obs[0]), len(base[0])),
                             {"label": label, "stream": stream, "segs": [len(stream)], "deferred": True})
        for segs in segs_list:
            obs = execute(stream, segs)
            self.record(label, stream, segs, obs, ref, st, quiet=True)
            if (obs[0], obs[1], obs[2]) != base_key:
                what = "delivered" if obs[0] != base[0] else "output" if obs[1] != base[1] else "closed"
                st.violation("segmentation-dependent:%s:%s" % (what, label.split(":")[0]),
                             "input %s: segmentation %r gives delivered=%d out=%r, unsegmented delivered=%d out=%r"
                             % (label, [len(x) for x in segs], len(obs[0]), obs[1][:60], len(base[0]), base[1][:60]),
                             {"label": label, "stream": stream, "segs": [len(x) for x in segs]})

    def record(self, label, stream, segs, obs, ref, st, quiet=False):
        st.ev()
        st.transitions += len(segs) + 1
        key = h((stream, tuple(len(x) for x in segs)))
        st.states.add(key)
        bad, stop = judge(stream, obs, ref)
        if stop != "end" or len(segs) > 1:
            st.nontrivial.add(key)
        if stop == "either":
            st.note("either:" + ref[-1][1])
        st.outcome(h((len(obs[0]), obs[1][:40], stop)))
        if not quiet and len(st.samples) < 3:
            st.sample({"label": label, "stream": stream.decode("latin1"), "reference": repr(ref)[:200],
                       "delivered": len(obs[0])})
        for sig, msg in bad:
            st.violation(sig, "input %s (%r) segmentation %r: %s"
                         % (label, stream[:120], [len(x) for x in segs][:12], msg),
                         {"label": label, "stream": stream, "segs": [len(x) for x in segs]})

    def replay(self, case):
        stream = case["stream"]
        segs, p = [], 0
        for n in case["segs"]:
            segs.append(stream[p:p + n])
            p += n
        obs = execute(stream, segs, deferred=bool(case.get("deferred")))
        ref = ref_http.read_requests(stream)
        return ("stream %r\nsegments %r\nreference %r\ndelivered %r\noutput %r\nclosed %r\nlogs %r\nverdict %r"
                % (stream, case["segs"], ref, obs[0], obs[1], obs[2], obs[3], judge(stream, obs, ref)[0]))


CHECK = C01()
