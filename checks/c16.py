"""C16 WebSocket close handshake is orderly and reported exactly once.
Shape S: every sequence (up to a depth bound) of {local close (with/without
code), local write, peer close frame (empty / code / code+reason / invalid
UTF-8 reason / 1-byte payload), peer data, peer pong, peer EOF at a frame
boundary or mid-frame, gated on_message completion, timer firing}, for both
roles (plus a client that consumes with read_message() only at the end; plus sessions with permessage-deflate negotiated; plus sessions whose transport stops accepting data so that a write is in flight, with the peer resetting the connection as an additional event) and with/without keep-alive pings, on the real protocol over a FakeSocket
with virtual time; oracle = a small reference of the closing handshake."""
import asyncio
import errno
import struct

from mc.core import Check, h
from mc import devex
from mc.vloop import World
from mc import wsh

EVENTS = ["local_write_blocked", "peer_reset", "local_close", "local_close_code", "local_write", "peer_close_empty", "peer_close_1000",
          "peer_close_reason", "peer_close_bad_utf8", "peer_close_1byte", "peer_data", "peer_pong", "peer_eof",
          "peer_half_frame_eof", "timer", "release", "tick", "local_close_zero", "peer_fragment_start"]
PEER_CLOSES = {"peer_close_empty": b"", "peer_close_1000": struct.pack("!H", 1000),
               "peer_close_reason": struct.pack("!H", 4000) + ("réason" + "x" * 116).encode(),    # 125 bytes: the largest legal close payload
               "peer_close_bad_utf8": struct.pack("!H", 4001) + b"\xff\xfe", "peer_close_1byte": b"\x03"}


def run(ch, role, pings, gated, depth, preamble=(), deflate=False, blockmode=False):
    """deflate: permessage-deflate negotiated (peer data frames are compressed); blockmode: the transport does not
    accept data (EAGAIN) from the first event on, so local writes stay in flight, and the peer may reset."""
    from tornado.websocket import WebSocketClosedError
    with World() as w:
        settings = {"websocket_ping_interval": 10, "websocket_ping_timeout": 4} if pings else {}
        gates = []
        if role == "server":
            s = wsh.ServerSession(w, settings=settings, **({"offer": "permessage-deflate", "compression_options": {}} if deflate else {}))
            if gated:
                def hook(hd, m):
                    f = asyncio.Future()
                    gates.append(f)
                    return f
                s.rec["on_message"] = hook
        else:
            kw = {"ping_interval": 10, "ping_timeout": 4} if pings else {}
            s = wsh.ClientSession(w, connect_kwargs=kw, use_queue=(role == "clientq"),
                                  **({"compression_options": {}, "response_ext": "permessage-deflate"} if deflate else {}))
        try:
            if not s.ok:
                return {"handshake_failed": True}
            trace = []
            frames_log = []     # (step, frame dict)
            problems = []
            st = {"peer_closed": False, "peer_eof": False, "n_peer_close": 0, "local_close": 0, "data_sent": 0}
            inflight = []       # futures of writes the transport has not accepted yet

            def local(fn):
                try:
                    r = fn()
                    if asyncio.isfuture(r):
                        w.pump()
                        if r.done() and not r.cancelled() and r.exception() is not None:
                            return "raised:" + type(r.exception()).__name__
                        if not r.done():
                            inflight.append(r)      # still in flight: its outcome is judged at the end
                    return "ok"
                except WebSocketClosedError:
                    return "raised:WebSocketClosedError"
                except Exception as e:
                    return "raised:" + type(e).__name__
            target = s.handler if role == "server" else s.conn
            for step in range(depth + len(preamble)):
                enabled = []
                for e in EVENTS:
                    if e.startswith("peer_") and st["peer_eof"]:
                        continue
                    if e in PEER_CLOSES and st["n_peer_close"] >= 1:
                        continue
                    if e.startswith("local_close") and st["local_close"] >= 2:
                        continue
                    if e == "timer" and w.loop.next_timer() is None:
                        continue
                    if e == "release" and not any(not g.done() for g in gates):
                        continue
                    if e == "peer_data" and (st["data_sent"] >= 2 or "peer_fragment_start" in preamble):
                        continue        # (a new data frame inside the peer's open fragmented message is a violation: C15)
                    if e == "tick" and st.get("ticks", 0) >= 2:
                        continue
                    if e == "peer_fragment_start" and not (step < len(preamble) and preamble[step] == e):
                        continue        # only as a fixed prologue (mode "frag")
                    if e in ("local_write_blocked", "peer_reset") and not blockmode:
                        continue
                    if e == "local_write_blocked" and len(inflight) >= 2:
                        continue
                    enabled.append(e)
                if not enabled:
                    break
                if step < len(preamble):
                    ev = preamble[step]          # fixed prologue (not a choice point)
                    if ev not in enabled:
                        break
                else:
                    ev = enabled[ch.choose(len(enabled), "event")]
                res = None
                closed_before = s.closed
                if ev == "local_close":
                    st["local_close"] += 1
                    res = local(lambda: target.close())
                elif ev == "local_close_code":
                    st["local_close"] += 1
                    res = local(lambda: target.close(1001, "bye"))
                elif ev == "local_close_zero":
                    st["local_close"] += 1
                    res = local(lambda: target.close(0, "zero"))       # a code that is falsy is still a code
                elif ev == "local_write":
                    res = local(lambda: target.write_message("w%d" % step))
                elif ev == "local_write_blocked":
                    sk = s.conn.sock if role == "server" else s.sock
                    sk.blocked = True
                    try:
                        f = target.write_message("B%d" % step * 50)
                        if asyncio.isfuture(f):
                            inflight.append(f)
                        res = "ok"
                    except WebSocketClosedError:
                        res = "raised:WebSocketClosedError"
                    except Exception as e:
                        res = "raised:" + type(e).__name__
                elif ev == "peer_reset":
                    st["peer_eof"] = True
                    (s.conn.sock if role == "server" else s.sock).feed_error(OSError(errno.ECONNRESET, "reset by peer"))
                elif ev in PEER_CLOSES:
                    st["n_peer_close"] += 1
                    s.feed(s.frame(True, 8, PEER_CLOSES[ev]))
                elif ev == "peer_fragment_start":
                    # the peer is in the middle of a fragmented message: control frames (close, ping) may come in between
                    s.feed(s.frame(False, 1, b"frag"))
                elif ev == "peer_data":
                    st["data_sent"] += 1
                    if s.deflate is not None:
                        s.feed(s.frame(True, 1, s.deflate.compress(b"d%d" % step), rsv=0x40))
                    else:
                        s.feed(s.frame(True, 1, b"d%d" % step))
                elif ev == "peer_pong":
                    s.feed(s.frame(True, 10, b""))
                elif ev == "peer_eof":
                    st["peer_eof"] = True
                    (s.conn.sock if role == "server" else s.sock).feed_eof()
                elif ev == "peer_half_frame_eof":
                    st["peer_eof"] = True
                    sock = s.conn.sock if role == "server" else s.sock
                    sock.feed(s.frame(True, 1, b"half-a-frame")[:5])
                    w.pump()
                    sock.feed_eof()
                elif ev == "timer":
                    w.fire_timer()
                elif ev == "tick":
                    # two seconds pass (timers that become due on the way fire)
                    st["ticks"] = st.get("ticks", 0) + 1
                    w.advance(2.0)
                elif ev == "release":
                    for g in gates:
                        if not g.done():
                            g.set_result(None)
                w.pump()
                new = s.take_frames()
                for f in new:
                    frames_log.append((step, f["opcode"], f["payload"]))
                trace.append((ev, res, [f["opcode"] for f in new], s.closed))
                if st.get("t_close") is None and any(f["opcode"] == 8 for f in new):
                    st["t_close"] = w.loop.vtime
                if st.get("closed_at") is None and s.closed:
                    st["closed_at"] = w.loop.vtime
            if role == "clientq":
                s.drain_queue()         # the application starts consuming (unblocks frames held back by the full queue)
                w.pump()
                for f in s.take_frames():
                    frames_log.append((98, f["opcode"], f["payload"]))
                    if st.get("t_close") is None and f["opcode"] == 8:
                        st["t_close"] = w.loop.vtime
            # final quiescence: release every gate (new ones may appear as queued frames get processed)
            for _ in range(10):
                pend = [g for g in gates if not g.done()]
                if not pend:
                    break
                for g in pend:
                    g.set_result(None)
                w.pump()
            closed_before_timers = s.closed
            for _ in range(30):
                if st.get("closed_at") is None and s.closed:
                    st["closed_at"] = w.loop.vtime
                if w.loop.next_timer() is None:
                    break
                w.fire_timer()
                for f in s.take_frames():
                    frames_log.append((99, f["opcode"], f["payload"]))
                    if st.get("t_close") is None and f["opcode"] == 8:
                        st["t_close"] = w.loop.vtime
            if st.get("closed_at") is None and s.closed:
                st["closed_at"] = w.loop.vtime
            w.pump()
            for f in s.take_frames():
                frames_log.append((99, f["opcode"], f["payload"]))
            late_write = local(lambda: target.write_message("late"))
            w.pump()
            for f in s.take_frames():
                frames_log.append((100, f["opcode"], f["payload"]))
            queue_pending = None
            if role == "clientq":
                # the application now consumes everything with read_message(): messages, then None for the close
                queue_pending = s.drain_queue()
                w.pump()
            msgs = list(s.rec["messages"])
            if role == "server":
                closes = list(s.rec["closes"])
            elif role == "client":
                closes = list(s.rec["closes"])          # code / reason as visible inside the close notification
                msgs = [m for m in msgs if m is not None]
            else:
                closes = [(s.conn.close_code, s.conn.close_reason)] * msgs.count(None)
                msgs = [m for m in msgs if m is not None]
            inflight_out = []
            for f in inflight:
                if not f.done():
                    inflight_out.append("pending")
                elif f.cancelled():
                    inflight_out.append("cancelled")
                else:
                    inflight_out.append(type(f.exception()).__name__ if f.exception() is not None else "ok")
            return {"inflight": inflight_out, "blockmode": blockmode, "queue_pending": queue_pending, "t_close": st.get("t_close"), "closed_at": st.get("closed_at"),
                    "gated": gated or role == "clientq" or blockmode, "trace": trace, "frames": frames_log, "closed": s.closed, "closed_before_timers": closed_before_timers,
                    "closes": closes, "messages": msgs, "late_write": late_write,
                    "errs": [str(c.get("message"))[:100] for c in w.loop_errors()],
                    "logs": [(r[1], r[2][:70], r[3]) for r in w.logs.records if r[1] in ("ERROR", "CRITICAL")]}
        finally:
            if role in ("client", "clientq"):
                s.restore()


def run_slow_open(kind, greet):
    """The handler's open() is a coroutine that waits for something and then greets the client; the peer goes away
    (EOF / reset) while open() is still running.  Whatever open() does with the failed write, the close notification
    is owed exactly once."""
    from tornado.websocket import WebSocketClosedError
    with World() as w:
        gate = []

        class SlowOpen:
            async def open(self):
                self.rec["opens"] += 1
                self.rec["handler"] = self
                g = asyncio.Future()
                gate.append(g)
                await g
                if greet:
                    try:
                        await self.write_message("greeting")
                    except WebSocketClosedError:
                        pass
        s = wsh.ServerSession(w, handler_mixin=SlowOpen)
        if not s.ok or not gate:
            return {"handshake_failed": True}
        if kind == "reset":
            s.conn.sock.feed_error(OSError(errno.ECONNRESET, "reset by peer"))
        elif kind == "eof":
            s.conn.sock.feed_eof()
        elif kind == "close-frame":
            s.feed(s.frame(True, 8, struct.pack("!H", 1000)))
        w.pump()
        if greet and kind == "reset":
            # the stream notices the reset when the handler writes
            s.conn.sock.blocked = False
        gate[0].set_result(None)
        w.pump()
        w.run_all_timers(10)
        w.pump()
        return {"closes": list(s.rec["closes"]), "closed": s.closed, "opens": s.rec["opens"],
                "errs": [str(c.get("message"))[:80] for c in w.loop_errors()],
                "logs": [(r[1], r[2][:60]) for r in w.logs.records if r[1] in ("ERROR", "CRITICAL")]}


def judge_slow_open(o):
    bad = []
    if o.get("handshake_failed"):
        return [("handshake-failed", "")]
    if len(o["closes"]) != 1:
        bad.append(("slow-open:close-notification-%d-times" % len(o["closes"]),
                    "the peer went away while open() was running: on_close ran %d times" % len(o["closes"])))
    if not o["closed"]:
        bad.append(("slow-open:never-closed", "connection still open"))
    if o["errs"]:
        bad.append(("slow-open:loop-exception", repr(o["errs"][:2])))
    if o["logs"]:
        bad.append(("slow-open:error-log", repr(o["logs"][:1])))
    return bad


def judge(role, pings, o):
    if o.get("handshake_failed"):
        return [("handshake-failed", "")]
    bad = []
    evs = [t[0] for t in o["trace"]]
    frames = o["frames"]
    close_frames = [(st, p) for st, op, p in frames if op == 8]
    if len(close_frames) > 1:
        bad.append(("two-close-frames", "sent %d close frames" % len(close_frames)))
    if close_frames:
        idx = next(i for i, f in enumerate(frames) if f[1] == 8)
        after = [f for f in frames[idx + 1:] if f[1] in (0, 1, 2)]
        if after:
            bad.append(("data-after-close-frame", "data frame(s) %r sent after our close frame" % [(a[0], a[2][:10]) for a in after]))
    # who closed first?  (a ping timeout makes Tornado close on its own: a close frame emitted during a timer event)
    gated = o.get("gated", False)
    ping_close = next((i for i, t in enumerate(o["trace"]) if t[0] in ("timer", "tick") and 8 in t[2]), None)
    local_steps = [i for i, e in enumerate(evs) if e.startswith("local_close")]
    cands = local_steps + ([ping_close] if ping_close is not None else [])
    first_local = min(cands) if cands else None
    first_peer = next((i for i, e in enumerate(evs) if e in PEER_CLOSES), None)
    first_eof = next((i for i, e in enumerate(evs) if e in ("peer_eof", "peer_half_frame_eof", "peer_reset")), None)
    peer_kind = evs[first_peer] if first_peer is not None else None
    valid_peer_close = peer_kind in ("peer_close_empty", "peer_close_1000", "peer_close_reason")
    # a peer close frame that arrives after the connection was already torn down is never seen
    seen_peer_close = first_peer is not None and not any(t[3] for t in o["trace"][:first_peer])
    anything_closing = first_local is not None or seen_peer_close or first_eof is not None
    if (not gated and valid_peer_close and seen_peer_close and (first_local is None or first_peer < first_local)
            and (first_eof is None or first_peer < first_eof)):
        # peer initiated: we must answer with exactly one close frame echoing its code
        if not close_frames:
            bad.append(("peer-close-not-answered", "no close frame sent in response to the peer's close"))
        else:
            payload = close_frames[0][1]
            want = PEER_CLOSES[peer_kind][:2]
            if payload[:2] != want and not (want == b"" and payload[:2] in (b"", struct.pack("!H", 1000))):
                bad.append(("close-code-not-echoed", "peer closed with %r, we answered %r" % (want, payload[:2])))
    if (not gated and first_local is not None and first_local in local_steps and (first_peer is None or first_local < first_peer)
            and (first_eof is None or first_local < first_eof)):
        # the application initiated on an open connection: the frame carries the application's code
        if not close_frames:
            bad.append(("local-close-sent-no-frame", "close() on an open connection sent no close frame"))
        else:
            want = {"local_close": b"", "local_close_code": struct.pack("!H", 1001) + b"bye",
                    "local_close_zero": struct.pack("!H", 0) + b"zero"}[evs[first_local]]
            if close_frames[0][1] != want:
                bad.append(("local-close-wrong-code", "close() sent payload %r, expected code %r" % (close_frames[0][1], want)))
    if anything_closing:
        if not o["closed"]:
            bad.append(("never-closed", "connection still open after every timer fired"))
        if len(o["closes"]) != 1:
            bad.append(("close-notification-%d-times" % len(o["closes"]), "close notification fired %d times: %r" % (len(o["closes"]), o["closes"])))
        elif not gated and valid_peer_close and seen_peer_close and (first_eof is None or first_peer < first_eof):
            code, reason = o["closes"][0]
            p = PEER_CLOSES[peer_kind]
            wcode = struct.unpack("!H", p[:2])[0] if len(p) >= 2 else None
            wreason = p[2:].decode("utf-8") if len(p) > 2 else None
            if code != wcode or (reason or None) != wreason:
                bad.append(("close-notification-wrong-code-or-reason", "notified (%r, %r), peer sent (%r, %r)" % (code, reason, wcode, wreason)))
        if o["late_write"] != "raised:WebSocketClosedError":
            bad.append(("write-after-close:%s" % o["late_write"], "write_message after the connection closed: %s" % o["late_write"]))
    else:
        if len(o["closes"]) > (1 if o["closed"] else 0):
            bad.append(("spurious-close-notification", "%d notifications, closed=%r" % (len(o["closes"]), o["closed"])))
        if o["closed"] and not pings:
            bad.append(("closed-without-cause", "connection closed although nobody closed it"))
    # both sides closed => torn down without waiting for the timer
    if not gated and seen_peer_close and valid_peer_close and first_local is not None and not o["closed_before_timers"]:
        bad.append(("teardown-waited-for-timer", "both sides had sent close frames but the socket was only closed by a timer"))
    # local write results while closing
    for i, t in enumerate(o["trace"]):
        if t[0] == "local_write" and not gated:
            closing = any(e.startswith("local_close") or e in PEER_CLOSES or e.startswith("peer_eof") or e == "peer_half_frame_eof"
                          for e in evs[:i]) and (
                any(e.startswith("local_close") for e in evs[:i]) or any(x[3] for x in o["trace"][:i]) or
                (ping_close is not None and ping_close < i) or
                any(e in ("peer_close_empty", "peer_close_1000", "peer_close_reason") for e in evs[:i]))
            if closing and t[1] == "ok" and 1 in t[2]:
                bad.append(("write-accepted-while-closing", "write_message at step %d was sent although the connection was closing" % i))
    # messages delivered after the peer's close frame
    if first_peer is not None and not gated:
        sent_before = [b"d%d" % i for i, e in enumerate(evs[:first_peer]) if e == "peer_data"]
        extra = [m for m in o["messages"] if m.encode() not in sent_before]
        if extra:
            bad.append(("message-delivered-after-peer-close", "delivered %r after the peer's close frame" % extra))
    # the closing timeout: at most 5 s after our close frame the TCP connection is gone
    if o.get("t_close") is not None and o.get("closed_at") is not None and o["closed_at"] > o["t_close"] + 5.0 + 1e-6:
        bad.append(("teardown-later-than-closing-timeout", "close frame sent at t=%.3f, socket closed at t=%.3f (> 5 s later)"
                    % (o["t_close"], o["closed_at"])))
    for r in o.get("inflight", ()):
        if r not in ("ok", "WebSocketClosedError") and not (r == "pending" and not o["closed"]):
            bad.append(("in-flight-write:%s" % r, "a write_message that was in flight when the connection went away ended as %s "
                        "(expected WebSocketClosedError)" % r))
            break
    if o.get("queue_pending") and o["closed"]:
        bad.append(("read_message-never-told-about-the-close", "the connection is closed but read_message() stays pending "
                    "after delivering %r" % (o["messages"],)))
    if o["errs"]:
        bad.append(("loop-exception", repr(o["errs"][:1])))
    for l in o["logs"]:
        bad.append(("error-log:%s" % (l[2] or l[1][:24]), repr(l)))
        break
    return bad


class C16(Check):
    id = "C16"
    level = "model_checking"
    rule = ("every event sequence up to depth D (3 quick; thorough 6, and 4 in the ping / gated / deflate / blocked-write / fragment variants) over {local close(), close(1001,'bye'), local write_message, peer close frame "
            "(empty, code 1000, code + 123-byte reason = the largest legal control payload, invalid-UTF-8 reason, 1-byte payload), peer text message, peer pong, peer EOF at "
            "a frame boundary, peer EOF mid-frame, on_message gate release, earliest timer fires}, for the real server side "
            "and the real client side, with and without keep-alive pings (interval 10 s, timeout 4 s) and with synchronous or "
            "gated on_message; all remaining timers are fired at the end and a late write is attempted; "
            "state = one complete schedule; non-trivial = schedules containing a close or EOF event")
    claim = ("On every schedule Tornado sends at most one close frame and no data frame after it, echoes the peer's code when "
             "the peer closed first and its own code otherwise, tears the connection down at once when both sides have "
             "closed and at the latest when the timers have fired, fires the close notification exactly once with the "
             "peer's code/reason, and refuses writes after closing with WebSocketClosedError.")
    technique = "exhaustive depth-bounded schedule exploration (DevEx) of the real protocol with a reference of the closing handshake"
    assumptions = ["invalid-UTF-8 reason and 1-byte close payloads are protocol errors: only 'closed + notified once' is asserted",
                   "data arriving after our own close frame but before the peer's may be delivered (EITHER)"]

    def partitions(self, tier):
        parts = []
        for role in ("server", "client", "clientq"):
            for pings in ((False, True) if role != "clientq" else (False,)):
                for gated in ((False, True) if role == "server" else (False,)):
                    for first in range(len(EVENTS)):
                        parts.append((role, pings, gated, first, ()))
                    if pings and not gated:
                        # after the keep-alive ping has timed out (Tornado closed on its own)
                        for first in range(len(EVENTS)):
                            parts.append((role, pings, gated, first, ("timer", "timer")))
        for role in ("server", "client"):
            for first in range(len(EVENTS)):
                parts.append((role, False, False, first, (), "deflate"))                       # permessage-deflate negotiated
                parts.append((role, False, False, first, ("local_write_blocked",), "block"))   # a write is in flight
                parts.append((role, False, False, first, ("peer_fragment_start",), "frag"))    # the peer's message is half sent
        parts.append(("slow-open",))
        return parts

    def run_partition(self, part, tier, st):
        if part[0] == "slow-open":
            for kind in ("reset", "eof", "close-frame"):
                for greet in (False, True):
                    o = run_slow_open(kind, greet)
                    st.ev()
                    st.transitions += 3
                    key = h(("slow-open", kind, greet))
                    st.states.add(key)
                    st.nontrivial.add(key)
                    st.outcome(h(("slow-open", len(o.get("closes", [])), o.get("closed"))))
                    for sig, msg in judge_slow_open(o):
                        st.violation("server:" + sig, "peer %s while a coroutine open() runs (greeting written: %r): %s" % (kind, greet, msg),
                                     {"slow_open": [kind, greet]})
            return
        role, pings, gated, first, preamble = part[:5]
        mode = part[5] if len(part) > 5 else ""
        depth = 3 if tier == "quick" else 6
        if gated or pings or mode:
            depth = 3 if tier == "quick" else 4
        kw = {"deflate": mode == "deflate", "blockmode": mode == "block"}

        def harness(ch):
            return run(ch, role, pings, gated, depth, preamble, **kw)

        def on_exec(ch, o):
            st.ev()
            st.transitions += len(ch.trace)
            key = h((role, pings, gated, preamble, mode, tuple(ch.choices())))
            st.states.add(key)
            evs = [t[0] for t in o.get("trace", [])]
            if any("close" in e or "eof" in e for e in evs):
                st.nontrivial.add(key)
            st.outcome(h((o.get("closed"), len(o.get("closes", [])), o.get("late_write"), tuple(f[1] for f in o.get("frames", [])))))
            if len(st.samples) < 1 and len(evs) == 3 and "peer_close_reason" in evs:
                st.sample({"role": role, "pings": pings, "schedule": evs, "frames_sent": [(f[0], f[1]) for f in o["frames"]],
                           "notified": o["closes"]})
            for sig, msg in judge(role, pings, o):
                st.violation("%s:%s" % (role, sig), "role=%s pings=%r gated=%r %s schedule %r: %s" % (role, pings, gated, mode, evs, msg),
                             {"role": role, "pings": pings, "gated": gated, "depth": depth, "choices": ch.choices(),
                              "preamble": list(preamble), "mode": mode})
        # partition on the first choice: explore only schedules starting with `first`
        probe = devex.Chooser()
        run(probe, role, pings, gated, 1, preamble, **kw)
        n0 = probe.trace[0][0] if probe.trace else 0
        if first >= n0:
            return
        devex.explore(harness, bound=None, on_exec=on_exec, start=(first,))
        st.setmax("depth", depth)

    def replay(self, case):
        if case.get("slow_open"):
            o = run_slow_open(*case["slow_open"])
            return "%r\nverdict %r" % (o, judge_slow_open(o))
        o = run(devex.Chooser(case["choices"]), case["role"], case["pings"], case["gated"], case["depth"],
                tuple(case.get("preamble", ())), deflate=case.get("mode") == "deflate", blockmode=case.get("mode") == "block")
        return "%r\nverdict %r" % (o, judge(case["role"], case["pings"], o))


CHECK = C16()
