"""C44 Command-line and config options parse to the values they denote.

Shape I: bounded exhaustive enumeration of
    option definition  (type x multiple x default x explicit/inferred type x name spelling)
  x value text         (per-type grids: canonical + alternative spellings, wrong-type texts)
  x channel            (--n=v, -n=v, dash/underscore swapped, with positional tail, after another
                        option, after "--", after a positional, bare --n, unknown names,
                        config file string form, config file literal form)
on a fresh real ``tornado.options.OptionParser`` (with one bystander option of every type).

Oracle (never calls tornado): the value a text denotes is computed here by hand (ints,
Decimal->float, Fraction arithmetic for timedeltas, manual date formatting for datetimes,
inclusive ranges as pinned by the code comment and options_test).  ok-texts must yield exactly
that value *and type*; reject-texts (wrong type) must raise an Exception; EITHER-texts are executed,
checked against the denoted value if one exists and accepted, and counted as notes.  In every case
all other options keep their defaults and the returned remaining-argument list is the documented one.
"""
import datetime
import decimal
import fractions
import io
import itertools
import os
import shutil
import sys
import tempfile

from mc.core import Check

DT = datetime.datetime
TD = datetime.timedelta
F = fractions.Fraction


class _NoVal:
    def __repr__(self):
        return "NOVAL"


NOVAL = _NoVal()

TYPES = {"str": str, "int": int, "float": float, "bool": bool, "datetime": DT, "timedelta": TD}
TNAMES = list(TYPES)
NAMES = ["opt", "my-opt", "my_opt", "a_b-c"]

DEFAULTS = {
    "str": ["dflt"], "int": [42], "float": [2.5], "bool": [True, False],
    "datetime": [DT(2001, 2, 3, 4, 5, 6)], "timedelta": [TD(seconds=90)],
}

# (name, type, default, multiple)
BYSTANDERS = [
    ("b-str", str, "s0", False), ("b_int", int, 5, False), ("b-float", float, 0.5, False),
    ("b_bool", bool, True, False), ("b-dt", DT, DT(1990, 1, 2, 3, 4, 5), False),
    ("b_td", TD, TD(minutes=7), False), ("b-none", str, None, False),
    ("b_multi", int, None, True), ("b-mlist", str, ["p", "q"], True),
]


# ----------------------------------------------------------------------------
# value grids: entries (text, want, kind, form); kind in ok / reject / either
# ----------------------------------------------------------------------------
def E(text, want, kind, form):
    return (text, want, kind, form)


def grid_int(tier):
    out = []
    ns = [0, 7, -3, 80, 8080] if tier == "quick" else \
        list(range(-12, 13)) + [99, 100, 8080, 65535, 2 ** 31, -2 ** 63, 10 ** 20]
    for n in ns:
        out.append(E(str(n), n, "ok", "plain"))
        if n >= 0:
            out.append(E("+%d" % n, n, "ok", "plus"))
            out.append(E("00%d" % n, n, "ok", "zero-padded"))
    out.append(E("-0", 0, "ok", "plain"))
    for t in ["", "abc", "1.5", "1e3", "0x10", "7a", "--7", "1 2", "1;2", "true", "1.0", "None", "+", "-"]:
        out.append(E(t, None, "reject", "non-integer-text"))
    out += [E("1_0", 10, "either", "underscore"), E(" 7", 7, "either", "blank-padded"),
            E("7 ", 7, "either", "blank-padded"), E("\u0667", 7, "either", "unicode-digit")]
    return out


def grid_float(tier):
    out = []
    if tier == "quick":
        texts = ["1.5", "-0.25", "2", "1e3", ".5", "5.", "+1.5", "1E-2", "0", "-2", "0.1"]
    else:
        texts = []
        for sign in ["", "-", "+"]:
            for mant in ["0", "1", "12", "0.5", "1.25", ".75", "3.", "0.1", "123.456"]:
                for exp in ["", "e0", "e2", "E-1", "e+3"]:
                    texts.append(sign + mant + exp)
    for t in texts:
        form = "exponent" if "e" in t.lower() else ("integer-form" if "." not in t else "decimal")
        out.append(E(t, float(decimal.Decimal(t)), "ok", form))
    for t in ["", "abc", "1.5.5", "1;5", "0x1p3", "1.5s", "--1", "1e", "e5", "1 5", "."]:
        out.append(E(t, None, "reject", "non-float-text"))
    out += [E("inf", float("inf"), "either", "inf-nan"), E("nan", float("nan"), "either", "inf-nan"),
            E("1_0.5", 10.5, "either", "underscore"), E(" 1.5", 1.5, "either", "blank-padded")]
    return out


STR_TEXTS = ["", "a", "a b", "a=b", "-x", "--y=z", "my_app_db", "a_b-c_d", "build-", "-", "a--", "\u00e9", "\u674e\u5eb7", "1", "true", " lead ",
             "a:b", "%s", "\\n", "'q'", '"dq"', "5:7", "None"]


def grid_str(tier):
    out = [E(t, t, "ok", "text") for t in STR_TEXTS]
    out.append(E("a,b", "a,b", "ok", "comma"))
    return out


def case_variants(word, tier):
    if tier == "quick":
        return sorted({word, word.upper(), word.capitalize()})
    res = set()
    for bits in itertools.product([0, 1], repeat=len(word)):
        res.add("".join(c.upper() if b else c for c, b in zip(word, bits)))
    return sorted(res)


BOOL_UNDOC = ["yes", "no", "on", "off", "y", "n", "", "2", "banana", "flase", " true", "false ", "none",
              "-1", "00", "0.0", "null"]


def grid_bool(tier):
    out = []
    for word, val in [("true", True), ("false", False), ("t", True), ("f", False), ("1", True), ("0", False)]:
        for v in case_variants(word, tier):
            out.append(E(v, val, "ok", "documented"))
    for t in BOOL_UNDOC:
        out.append(E(t, NOVAL, "either", "bool-undocumented-spelling"))
    return out


DAYS = ["Mon", "Tue", "Wed", "Thu", "Fri", "Sat", "Sun"]
MONTHS = ["Jan", "Feb", "Mar", "Apr", "May", "Jun", "Jul", "Aug", "Sep", "Oct", "Nov", "Dec"]


def dt_forms(d):
    """All ten documented spellings of datetime d -> (text, denoted value, form)."""
    Y, m, dd, H, M, S = d.year, d.month, d.day, d.hour, d.minute, d.second
    nosec = d.replace(second=0)
    day = d.replace(hour=0, minute=0, second=0)
    return [
        ("%s %s %02d %02d:%02d:%02d %04d" % (DAYS[d.weekday()], MONTHS[m - 1], dd, H, M, S, Y), d, "ctime"),
        ("%04d-%02d-%02d %02d:%02d:%02d" % (Y, m, dd, H, M, S), d, "iso-space-sec"),
        ("%04d-%02d-%02d %02d:%02d" % (Y, m, dd, H, M), nosec, "iso-space-min"),
        ("%04d-%02d-%02dT%02d:%02d" % (Y, m, dd, H, M), nosec, "iso-T-min"),
        ("%04d%02d%02d %02d:%02d:%02d" % (Y, m, dd, H, M, S), d, "compact-sec"),
        ("%04d%02d%02d %02d:%02d" % (Y, m, dd, H, M), nosec, "compact-min"),
        ("%04d-%02d-%02d" % (Y, m, dd), day, "iso-date"),
        ("%04d%02d%02d" % (Y, m, dd), day, "compact-date"),
        ("%02d:%02d:%02d" % (H, M, S), ("time", H, M, S), "time-sec"),
        ("%02d:%02d" % (H, M), ("time", H, M, 0), "time-min"),
    ]


def grid_datetime(tier):
    if tier == "quick":
        dts = [DT(2013, 4, 28, 5, 16, 0), DT(1999, 12, 31, 23, 59, 59), DT(2024, 2, 29, 0, 0, 0),
               DT(2000, 1, 1, 12, 30, 45)]
    else:
        dts = [DT(y, mo, d, h, mi, s)
               for y in (1, 1970, 2013, 9999) for (mo, d) in ((1, 1), (2, 28), (12, 31), (4, 30), (10, 9))
               for (h, mi, s) in ((0, 0, 0), (5, 16, 0), (23, 59, 59), (12, 0, 7))]
        dts.append(DT(2024, 2, 29, 1, 2, 3))
    out = []
    seen = set()
    for d in dts:
        for text, want, form in dt_forms(d):
            if text not in seen:
                seen.add(text)
                out.append(E(text, want, "ok", form))
    for t in ["", "abc", "2013-13-01", "2013-02-30", "2013-04-28 24:00", "2013-04-28 05:60", "2013/04/28",
              "28.04.2013", "12345", "2013-04", "05:16:00 2013-04-28", "2013-04-28 05", "25:00", "12:60",
              "2023-02-29", "Sun Foo 28 05:16:00 2013", "1.5", "tomorrow"]:
        out.append(E(t, None, "reject", "non-datetime-text"))
    out += [E("2013-04-28T05:16:07", DT(2013, 4, 28, 5, 16, 7), "either", "iso-T-sec"),
            E("2013-04-28 05:16:07.5", NOVAL, "either", "fraction-sec"),
            E("Mon Apr 28 05:16:00 2013", NOVAL, "either", "ctime-wrong-weekday"),
            E("2013-4-28 5:16", DT(2013, 4, 28, 5, 16), "either", "unpadded"),
            E("2013-04-28  05:16", DT(2013, 4, 28, 5, 16), "either", "double-blank"),
            E(" 2013-04-28", DT(2013, 4, 28), "either", "blank-padded")]
    return out


UNITS = [("", 1, "no-unit"), ("s", 1, "s"), ("sec", 1, "sec"), ("seconds", 1, "full-name"),
         ("m", 60, "m"), ("min", 60, "min"), ("minutes", 60, "full-name"),
         ("h", 3600, "h"), ("hours", 3600, "full-name"), ("d", 86400, "d"), ("days", 86400, "full-name"),
         ("w", 604800, "w"), ("weeks", 604800, "full-name"),
         ("ms", F(1, 1000), "ms"), ("milliseconds", F(1, 1000), "full-name"),
         ("us", F(1, 10 ** 6), "us"), ("microseconds", F(1, 10 ** 6), "full-name")]


def td_of(fr):
    us = fr * 10 ** 6
    if us.denominator != 1:
        return None
    return TD(microseconds=int(us))


def grid_timedelta(tier):
    nums = [("45", F(45)), ("1.5", F(3, 2)), ("0", F(0)), ("-2", F(-2)), (".5", F(1, 2)), ("+3", F(3))]
    if tier != "quick":
        nums += [("1", F(1)), ("90", F(90)), ("0.25", F(1, 4)), ("-0.5", F(-1, 2)), ("2.", F(2)),
                 ("1000000", F(10 ** 6)), ("0.001", F(1, 1000))]
    out = []
    seen = set()

    def add(text, fr, form):
        if text in seen:
            return
        seen.add(text)
        want = td_of(fr)
        if want is None:
            out.append(E(text, NOVAL, "either", "sub-microsecond"))
        else:
            out.append(E(text, want, "ok", form))

    for nt, nv in nums:
        for ut, uv, uf in UNITS:
            for sp in (["", " "] if ut else [""]):
                add(nt + sp + ut, nv * uv, "unit:" + uf)
    terms = [("1h", F(3600)), ("30m", F(1800)), ("45", F(45)), ("1.5s", F(3, 2)), ("-10s", F(-10)),
             ("2 d", F(2 * 86400))]
    if tier != "quick":
        terms += [("15min", F(900)), ("250ms", F(1, 4)), ("1w", F(604800)), ("7 us", F(7, 10 ** 6)),
                  ("3 hours", F(3 * 3600)), ("+1sec", F(1))]
    def unitless_inside(ts):
        # "45 1h": whether a unit-less number may be followed by another term is not specified
        return any(t[-1].isdigit() for t, _ in ts[:-1])

    for ts in itertools.product(terms, repeat=2):
        text = " ".join(t for t, _ in ts)
        if unitless_inside(ts):
            out.append(E(text, td_of(sum(v for _, v in ts)) or NOVAL, "either", "unitless-term-not-last"))
            seen.add(text)
        else:
            add(text, sum(v for _, v in ts), "two-terms")
    if tier != "quick":
        for ts in itertools.product(terms[:6], repeat=3):
            text = " ".join(t for t, _ in ts)
            if unitless_inside(ts):
                out.append(E(text, td_of(sum(v for _, v in ts)) or NOVAL, "either", "unitless-term-not-last"))
                seen.add(text)
            else:
                add(text, sum(v for _, v in ts), "three-terms")
    for text, fr in (("1h 30m 1.5s", F(5400) + F(3, 2)), ("2 d 1h 30m", F(2 * 86400 + 5400)), ("1h 30m 45", F(5445)),
                     ("1w 2 d 1h 30m -10s", F(604800 + 2 * 86400 + 5400 - 10))):
        add(text, fr, "three-or-more-terms")
    add(" 45s ", F(45), "blank-padded-term")
    for t in ["abc", "1x", "1 parsecs", "h", "1hh", "1h x", "--1", "s1", "1 h m", "five", "1;5", "1:30:00", "1h;30m"]:
        out.append(E(t, None, "reject", "non-timedelta-text"))
    out += [E("", NOVAL, "either", "empty"), E("1h30m", TD(seconds=5400), "either", "terms-without-blank"),
            E("1H", TD(hours=1), "either", "uppercase-unit"), E("1 2", NOVAL, "either", "unitless-terms"),
            E("1e2", TD(seconds=100), "either", "exponent"), E("1e2ms", TD(milliseconds=100), "either", "exponent"),
            E("1.5.5", NOVAL, "either", "odd-number")]
    return out


GRIDS = {"str": grid_str, "int": grid_int, "float": grid_float, "bool": grid_bool,
         "datetime": grid_datetime, "timedelta": grid_timedelta}


def scalar_grid(tname, tier):
    g = list(GRIDS[tname](tier))
    if tname == "int":
        g += [E("1,2", None, "reject", "list-for-scalar"), E("1:3", None, "reject", "range-for-scalar")]
    if tname == "float":
        g += [E("1,5", None, "reject", "list-for-scalar")]
    if tname == "timedelta":
        g += [E("1h,30m", None, "reject", "list-for-scalar")]
    if tname == "datetime":
        g += [E("2013-04-28,2013-04-29", None, "reject", "list-for-scalar")]
    return g


def elements(tname, tier):
    """Element texts for multiple=True options (no commas inside)."""
    g = GRIDS[tname](tier)
    ok = [e for e in g if e[2] == "ok" and "," not in e[0]]
    rej = [e for e in g if e[2] == "reject" and "," not in e[0]]
    eit = [e for e in g if e[2] == "either" and "," not in e[0]]
    if tname == "int":
        rng = []
        span = range(-1, 4) if tier == "quick" else range(-3, 7)
        for lo in span:
            for hi in span:
                if lo <= hi:
                    rng.append(E("%d:%d" % (lo, hi), list(range(lo, hi + 1)), "ok", "range"))
                else:
                    rng.append(E("%d:%d" % (lo, hi), NOVAL, "either", "range-descending"))
        rng += [E("5:7", [5, 6, 7], "ok", "range"), E("+1:+2", [1, 2], "ok", "range"),
                E("1:", NOVAL, "either", "range-open"), E(":3", None, "reject", "range-malformed"),
                E("1:2:3", None, "reject", "range-malformed"), E("a:b", None, "reject", "range-malformed"),
                E("1:b", None, "reject", "range-malformed"), E("1.5:2", None, "reject", "range-malformed")]
        return ok, rej, eit, rng
    return ok, rej, eit, []


def multi_values(tname, tier):
    """List-valued texts: every single element, every sequence of 2 (thorough: 3) over a
    small element subset containing ok, reject and EITHER elements."""
    ok, rej, eit, rng = elements(tname, tier)
    out = []

    def wrap(e):
        text, want, kind, form = e
        if isinstance(want, tuple):          # time-only datetime: date unspecified
            return (text, NOVAL, "either", "time-only-element")
        if kind in ("ok", "either") and want is not NOVAL and not form.startswith("range"):
            want = [want]
        return (text, want, kind, form)

    singles = [wrap(e) for e in ok + rej + eit] + rng
    out.extend(singles)
    nsub = 3 if tier == "quick" else 5
    step = max(1, len(ok) // nsub)
    sub = [wrap(e) for e in ok[::step][:nsub]] + [wrap(e) for e in rej[1:2]] + [wrap(e) for e in eit[:1]]
    if tname == "int":
        sub += [r for r in rng if r[0] in ("5:7", "0:1", "1:0", "1:b")]
    for k in ([2] if tier == "quick" else [2, 3]):
        for seq in itertools.product(sub, repeat=k):
            text = ",".join(s[0] for s in seq)
            kinds = [s[2] for s in seq]
            if "reject" in kinds:
                out.append(E(text, None, "reject", next(s[3] for s in seq if s[2] == "reject")))
            elif "either" in kinds or any(s[1] is NOVAL for s in seq):
                want = NOVAL
                if all(s[1] is not NOVAL for s in seq):
                    want = [x for s in seq for x in s[1]]
                out.append(E(text, want, "either", next(s[3] for s in seq if s[2] == "either")))
            else:
                forms = []
                for s in seq:
                    if s[3] not in forms:
                        forms.append(s[3])
                out.append(E(text, [x for s in seq for x in s[1]], "ok",
                             forms[0] if len(forms) == 1 else "mixed-list"))
    # de-duplicate texts, first wins
    seen, res = set(), []
    for e in out:
        if e[0] not in seen:
            seen.add(e[0])
            res.append(e)
    if tname == "str":
        res = [e for e in res if e[0] != ""] + [E("", [""], "either", "empty")]
    else:
        res = [(t, (NOVAL if t == "" else w), ("either" if t == "" else k), ("empty" if t == "" else f))
               for (t, w, k, f) in res]
    return res


# wrong-type / odd literals for the config file literal form: (source, kind, want, class)
def cfg_literals(tname, multiple):
    if multiple:
        lits = [("{'a': 1}", "reject", None, "dict"), ("5.5j", "reject", None, "complex"),
                ("[object()]", "reject", None, "list-of-object"),
                ("('x',)", "either", NOVAL, "tuple"), ("[None]", "either", NOVAL, "list-of-none"),
                ("[]", "ok", [], "empty-list")]
        wrong_item = {"str": "['a', 5]", "int": "[1, 'a']", "float": "[1.5, 'a']", "bool": "[True, 'a']",
                      "datetime": "[5]", "timedelta": "['x', 5]"}[tname]
        lits.append((wrong_item, "reject", None, "list-with-wrong-item"))
        if tname != "str":
            lits.append(("5.5j", "reject", None, "complex"))
        return lits
    lits = [("5.5j", "reject", None, "complex"), ("{'a': 1}", "reject", None, "dict"),
            ("object()", "reject", None, "object"), ("None", "either", NOVAL, "none")]
    # (falsy values of the wrong type are wrong-typed too)
    if tname == "str":
        lits += [("5", "reject", None, "int-for-str"), ("b'x'", "reject", None, "bytes-for-str"),
                 ("['a']", "reject", None, "list-for-scalar"), ("0", "reject", None, "int-for-str"),
                 ("[]", "reject", None, "list-for-scalar"), ("b''", "reject", None, "bytes-for-str"),
                 ("0.0", "reject", None, "float-for-str")]
    if tname == "int":
        lits += [("1.5", "reject", None, "float-for-int"), ("[1]", "reject", None, "list-for-scalar"),
                 ("True", "either", NOVAL, "bool-for-int"), ("0.0", "reject", None, "float-for-int"),
                 ("''", "reject", None, "str-for-int"), ("[]", "reject", None, "list-for-scalar")]
    if tname in ("datetime", "timedelta"):
        lits += [("[]", "reject", None, "list-for-scalar"), ("()", "reject", None, "tuple-for-scalar"),
                 ("{}", "reject", None, "dict")]
    if tname == "float":
        lits += [("[]", "reject", None, "list-for-scalar"), ("()", "reject", None, "tuple-for-scalar")]
    if tname == "bool":
        lits += [("[]", "reject", None, "list-for-scalar"), ("0.0", "either", NOVAL, "float0-for-bool")]
    if tname == "float":
        lits += [("[1.5]", "reject", None, "list-for-scalar"), ("1", "either", NOVAL, "int-for-float")]
    if tname == "bool":
        lits += [("2", "reject", None, "int-for-bool"), ("[True]", "reject", None, "list-for-scalar"),
                 ("1", "either", NOVAL, "int01-for-bool")]
    if tname == "datetime":
        lits += [("5", "reject", None, "int-for-datetime"), ("[5]", "reject", None, "list-for-scalar"),
                 ("datetime.date(2013, 4, 28)", "either", NOVAL, "date-for-datetime")]
    if tname == "timedelta":
        lits += [("[5]", "reject", None, "list-for-scalar"), ("5", "either", NOVAL, "number-for-timedelta")]
    return lits


# ----------------------------------------------------------------------------
def same(a, b):
    if type(a) is not type(b):
        return False
    if isinstance(a, list):
        return len(a) == len(b) and all(same(x, y) for x, y in zip(a, b))
    if isinstance(a, float) and a != a:
        return b != b
    return a == b


def loose_equal(a, b):
    try:
        return a == b
    except Exception:
        return False


def swap(name):
    return name.translate({ord("-"): "_", ord("_"): "-"})


def make_defs(tname, multiple, name):
    """All definitions (defkind, typegiven, default) for one type/multiple/name."""
    out = [("none", True, None)]
    for i, d in enumerate(DEFAULTS[tname]):
        out.append(("typed%d" % i, True, [d] if multiple else d))
        if not multiple:
            out.append(("typed%d" % i, False, d))      # type inferred from the default
        elif tname == "str":
            out.append(("typed%d" % i, False, [d]))    # multiple without type=: documented element type str
    return out


def build_parser(opts, tname, multiple, name, typegiven, default):
    p = opts.OptionParser()
    for (bn, bt, bd, bm) in BYSTANDERS[:4]:
        p.define(bn, default=bd, type=bt, multiple=bm)
    kw = {"default": default, "multiple": multiple}
    if typegiven:
        kw["type"] = TYPES[tname]
    p.define(name, **kw)
    for (bn, bt, bd, bm) in BYSTANDERS[4:]:
        p.define(bn, default=list(bd) if isinstance(bd, list) else bd, type=bt, multiple=bm)
    return p


CLI_CHANNELS = ["dd-eq", "d-eq", "dd-swap", "tail", "other-first"]
SKIP_CHANNELS = ["after-ddash", "after-pos", "empty-args"]


def cli_args(channel, name, text):
    """-> (argv, expected remaining, target parsed?, expected b_int)"""
    a = "--%s=%s" % (name, text)
    if channel == "dd-eq":
        return ["prog", a], [], True, 5
    if channel == "d-eq":
        return ["prog", "-%s=%s" % (name, text)], [], True, 5
    if channel == "dd-swap":
        return ["prog", "--%s=%s" % (swap(name), text)], [], True, 5
    if channel == "tail":
        return ["prog", a, "rest", "--b-int=9"], ["rest", "--b-int=9"], True, 5
    if channel == "other-first":
        return ["prog", "--b_int=9", a], [], True, 9
    if channel == "after-ddash":
        return ["prog", "--", a], [a], False, 5
    if channel == "after-pos":
        return ["prog", "x", a], ["x", a], False, 5
    if channel == "flag":
        return ["prog", "--%s" % name], [], True, 5
    if channel == "empty-args":
        # an explicit, empty argument list (a sub-command parser handed the "rest"): nothing is parsed - least of
        # all the process's own sys.argv, which execute() fills with options for this very parser
        return [], [], False, 5
    raise AssertionError(channel)


class Ctx:
    """Scratch config file under a private mkdtemp dir; one file, rewritten in place through a
    kept-open descriptor (re-creating the file per case costs milliseconds)."""

    def __init__(self):
        self.dir = tempfile.mkdtemp(prefix="verif-c44-")
        self.path = os.path.join(self.dir, "conf.py")
        self.fd = os.open(self.path, os.O_RDWR | os.O_CREAT, 0o600)
        self.size = 0

    def write(self, text):
        # never shrink the file (truncation is slow on a journalled fs): overwrite in place and
        # pad the tail of a previous longer config with blank lines
        data = text.encode("utf-8")
        if len(data) < self.size:
            data += b"\n" * (self.size - len(data))
        self.size = len(data)
        os.pwrite(self.fd, data, 0)

    def close(self):
        try:
            os.close(self.fd)
        finally:
            shutil.rmtree(self.dir, ignore_errors=True)


def execute(opts, ctx, tname, multiple, name, typegiven, default, channel, payload):
    """Run one case on a fresh real parser.  payload = text (CLI, cfg-str) or literal source
    (cfg-lit).  -> (status, value/exc, remaining, parser, b_int_expected, exp_remaining, parsed)"""
    p = build_parser(opts, tname, multiple, name, typegiven, default)
    exp_rem, parsed, bint = None, True, 5
    try:
        if channel in ("cfg-str", "cfg-lit"):
            src = repr(payload) if channel == "cfg-str" else payload
            # the value passes through a helper defined in the config file that uses names bound at its top level
            ctx.write("import datetime\nzzz_unrelated = 1\ndef _pick(x):\n    return (x, zzz_unrelated, datetime)[0]\n"
                      "%s = _pick(%s)\n" % (name.replace("-", "_"), src))
            rem = p.parse_config_file(ctx.path)
            exp_rem = None
        else:
            argv, exp_rem, parsed, bint = cli_args(channel, name, payload)
            if channel == "empty-args":
                saved_argv = sys.argv
                sys.argv = ["prog", "--%s=%s" % (name, payload), "--b-int=9"]
                try:
                    rem = p.parse_command_line(argv)
                finally:
                    sys.argv = saved_argv
            else:
                rem = p.parse_command_line(argv)
        return ("ok", None, rem, p, bint, exp_rem, parsed)
    except Exception as e:
        return ("raise", e, None, p, bint, exp_rem, parsed)
    except BaseException as e:  # SystemExit etc.
        return ("base", e, None, p, bint, exp_rem, parsed)


def read_value(p, name):
    a = getattr(p, name.replace("-", "_"))
    b = p[name]
    c = p.as_dict()[name]
    d = dict(p.items())[name]
    return a, (same(a, b) and same(a, c) and same(a, d))


def bystander_problems(p, bint):
    bad = []
    for (bn, bt, bd, bm) in BYSTANDERS:
        want = bd
        if bn == "b_int":
            want = bint
        if bm and bd is None:
            want = []
        got = getattr(p, bn.replace("-", "_"))
        if not same(got, want):
            bad.append((bn, got, want))
    return bad


def expected_default(multiple, default):
    if multiple and default is None:
        return []
    return default


def full_judge(tname, multiple, name, default, channel, entry, res):
    """-> (list of (signature, message), value read back or NOVAL)."""
    payload, want, kind, form = entry
    status, exc, rem, p, bint, exp_rem, parsed = res
    probs = []
    tlabel = tname + ("-multi" if multiple else "")
    if form.startswith("cfg-literal:"):
        tlabel = "any"          # the type guards of set() are shared by all option types
    if status == "base":
        probs.append(("%s:%s:base-exception-%s" % (tlabel, form, type(exc).__name__),
                      "raised %s instead of returning or raising an error" % type(exc).__name__))
        return probs, NOVAL
    if not parsed:
        # the option text sits behind "--" / a positional: nothing may be parsed
        kind, want, form = "ok", expected_default(multiple, default), "not-an-option:" + channel
    got = NOVAL
    if status == "ok":
        if not channel.startswith("cfg") and rem != exp_rem:
            probs.append(("cli:%s:remaining" % channel, "remaining args %r, expected %r" % (rem, exp_rem)))
        try:
            got, consistent = read_value(p, name)
        except Exception as e:
            probs.append(("%s:read-back:%s" % (tlabel, type(e).__name__), "reading the option raised %r" % e))
            return probs, NOVAL
        if not consistent:
            probs.append(("%s:accessors-disagree" % tlabel, "attribute / item / as_dict / items disagree"))
        if kind == "reject":
            probs.append(("%s:%s:accepted" % (tlabel, form),
                          "text of the wrong type silently accepted as %r" % (got,)))
        elif want is not NOVAL:
            if isinstance(want, tuple) and want and want[0] == "time":
                if not (type(got) is DT and (got.hour, got.minute, got.second, got.microsecond)
                        == (want[1], want[2], want[3], 0)):
                    probs.append(("%s:%s:wrong-value" % (tlabel, form),
                                  "parsed to %r, expected time of day %02d:%02d:%02d" % ((got,) + want[1:])))
            elif not same(got, want):
                what = "wrong-type" if loose_equal(got, want) else "wrong-value"
                probs.append(("%s:%s:%s" % (tlabel, form, what),
                              "parsed to %r, denoted value is %r" % (got, want)))
    elif kind == "ok":
        probs.append(("%s:%s:rejected" % (tlabel, form), "valid text rejected with %s: %s"
                      % (type(exc).__name__, exc)))
    # all other options keep their defaults (also after a rejection)
    for bn, bgot, bwant in bystander_problems(p, bint):
        if status != "ok" and bn == "b_int":
            continue          # may or may not have been reached before the error
        probs.append(("defaults:%s-changed:%s" % (bn, "after-error" if status != "ok" else "after-parse"),
                      "unset option %s is %r, default %r" % (bn, bgot, bwant)))
    return probs, got


def entry_case(tier, tname, multiple, name, defkind, typegiven, default, channel, entry):
    payload, want, kind, form = entry
    return {"tier": tier, "type": tname, "multiple": multiple, "name": name, "defkind": defkind,
            "typegiven": typegiven, "default": repr(default), "channel": channel, "payload": payload,
            "want": repr(want), "kind": kind, "form": form}


class C44(Check):
    id = "C44"
    level = "exploration"
    design_ref = "DESIGN.md C44"
    rule = ("every option definition {str,int,float,bool,datetime,timedelta} x multiple x default "
            "{None, typed (bool: True and False)} x type {explicit, inferred from default} x name "
            "{opt, my-opt, my_opt, a_b-c} on a fresh OptionParser with 9 bystander options, x every text of "
            "the per-type grid (canonical + alternative spellings, wrong-type texts, EITHER texts; for "
            "multiple: every element, every 2- (thorough 3-) sequence over an element subset, all integer "
            "ranges lo:hi over a span) x channel {--n=v, -n=v, dash/underscore swapped, positional tail, "
            "after another option, config string form, config literal form; once per definition: bare --n, "
            "text behind '--' / behind a positional, unknown names, wrong-type config literals}.  "
            "non-trivial = distinct (type, multiple, text, channel) whose parse changed the option away "
            "from its default or ended in a rejection")
    claim = ("Within the grids, every documented textual form of every supported option type parses, on the "
             "command line and in config files, to exactly the denoted value and type; integer ranges are "
             "inclusive; unknown command-line options, options without a value and texts/literals of the "
             "wrong type raise; parsing never touches other options' defaults and returns the documented "
             "remaining arguments.")
    technique = ("bounded exhaustive enumeration of option definitions x value texts x input channels on the "
                 "real OptionParser against hand-computed denoted values (Decimal/Fraction arithmetic, manual "
                 "date formatting)")
    assumptions = [
        "integer ranges x:y are inclusive at both ends (code comment and options_test; the "
        "parse_command_line docstring says range(x, y))",
        "bool spellings outside {true,false,t,f,1,0} (any case) are EITHER (DESIGN.md C44): executed, "
        "result recorded in notes, not asserted",
        "a wrong-type text must raise some Exception; its class is not asserted (int()/float() raise "
        "ValueError, _parse_timedelta raises bare Exception/TypeError)",
        "time-only datetime texts: only the time of day is asserted, the date is the implementation's choice",
        "state of the target option after a rejected parse is not asserted",
        "process locale is C (English day/month names)",
        "single-dash spelling -n=v is undocumented: rejection would be tolerated (EITHER), a wrong value not",
    ]

    def _locale_case(self, st):
        """A UTF-8 config file read by a process whose locale encoding is not UTF-8 (LC_ALL=C): config files are UTF-8,
        whatever the locale (documented since 4.1)."""
        import subprocess
        from mc.core import REPO
        d = tempfile.mkdtemp(prefix="verif-c44-")
        try:
            path = os.path.join(d, "conf.py")
            with open(path, "wb") as f:
                f.write('motto = "caf\u00e9 \u2603"\nnames = ["\u00e9", "b"]\n'.encode("utf-8"))
            code = ("import sys; sys.path.insert(0, %r)\n"
                    "from tornado.options import OptionParser\n"
                    "p = OptionParser(); p.define('motto', type=str); p.define('names', type=str, multiple=True)\n"
                    "p.parse_config_file(%r)\n"
                    "sys.stdout.write(ascii((p.motto, p.names)))\n" % (REPO, path))
            env = dict(os.environ, LC_ALL="C", LANG="C", PYTHONUTF8="0", PYTHONCOERCECLOCALE="0", PYTHONIOENCODING="ascii")
            r = subprocess.run([sys.executable, "-c", code], env=env, capture_output=True, text=True, timeout=60)
            st.ev()
            st.nontriv(("locale-C",))
            want = ascii(("caf\u00e9 \u2603", ["\u00e9", "b"]))
            if r.returncode != 0 or r.stdout != want:
                st.violation("config-file:not-read-as-utf-8-under-C-locale",
                             "parse_config_file of a UTF-8 file in a process with LC_ALL=C: exit %d, values %s, expected %s; stderr %s"
                             % (r.returncode, r.stdout[:120], want, r.stderr.strip().splitlines()[-1:] if r.stderr else ""),
                             {"locale": "C"})
        finally:
            shutil.rmtree(d, ignore_errors=True)

    def partitions(self, tier):
        parts = [("locale", 0, 0)]
        for tname in TNAMES:
            for multiple in (False, True):
                for ni in range(len(NAMES)):
                    parts.append((tname, multiple, ni))
        return parts

    # ------------------------------------------------------------------
    def run_partition(self, part, tier, st):
        if part[0] == "locale":
            return self._locale_case(st)
        from tornado import options as opts
        tname, multiple, ni = part
        name = NAMES[ni]
        ctx = Ctx()
        saved_err = sys.stderr
        sys.stderr = io.StringIO()
        try:
            self._run(opts, ctx, tier, tname, multiple, name, st)
        finally:
            sys.stderr = saved_err
            ctx.close()

    def _run(self, opts, ctx, tier, tname, multiple, name, st):
        grid = multi_values(tname, tier) if multiple else scalar_grid(tname, tier)
        channels = [c for c in CLI_CHANNELS if not (c == "dd-swap" and swap(name) == name)] + ["cfg-str"]
        for defkind, typegiven, default in make_defs(tname, multiple, name):
            dflt = expected_default(multiple, default)
            for entry in grid:
                base_sigs = None
                for channel in channels + ["cfg-lit"]:
                    e = entry
                    if channel == "cfg-lit":
                        # literal form of the denoted value
                        if entry[2] != "ok" or isinstance(entry[1], tuple):
                            continue
                        if tname == "str" and not multiple:
                            continue      # identical to cfg-str
                        e = (repr(entry[1]), entry[1], "ok", "literal")
                    single_dash = channel == "d-eq" and e[2] == "ok"
                    if single_dash:
                        # "-n=v" is accepted by the code but neither documented nor pinned by a
                        # test: EITHER on rejection, the value is still asserted when accepted
                        e = (e[0], e[1], "either", e[3])
                    probs, got = self._one(opts, ctx, tier, tname, multiple, name, defkind, typegiven,
                                           default, channel, e, st, base_sigs)
                    if single_dash:
                        st.note("either:single-dash-option:%s" % ("rejected" if got is NOVAL else "accepted"))
                    if channel == "dd-eq":
                        base_sigs = {s for s, _ in probs}
                        if e[2] == "either":
                            self._note_either(st, e, got)
                        if got is not NOVAL and not same(got, dflt):
                            st.outcome((tname, multiple, e[3], "value"))
            # ---- once per definition -------------------------------------
            first_ok = next(e for e in grid if e[2] == "ok" and e[0] != "")
            first_bad = next((e for e in grid if e[2] == "reject"), first_ok)
            for channel in SKIP_CHANNELS:
                for e in (first_ok, first_bad):
                    self._one(opts, ctx, tier, tname, multiple, name, defkind, typegiven, default, channel, e,
                              st, None)
            # bare --name
            if tname == "bool" and not multiple:
                e = ("", True, "ok", "bare-flag")
            elif tname == "bool":
                e = ("", NOVAL, "either", "bare-flag")
            else:
                e = ("", None, "reject", "bare-option-without-value")
            self._one(opts, ctx, tier, tname, multiple, name, defkind, typegiven, default, "flag", e, st, None)
            # unknown names
            for variant, uname in (("suffix", name + "x"), ("prefix", name[:-1]), ("unrelated", "nope"),
                                   ("empty", ""), ("doubled", name + name), ("b-prefix", "b")):
                self._unknown(opts, tier, tname, multiple, name, defkind, typegiven, default, variant, uname,
                              first_ok[0], st)
            # wrong-type literals in the config file
            for src, kind, want, cls in cfg_literals(tname, multiple):
                group = ("wrong-type-for-scalar" if not multiple else
                         "wrong-item-in-list" if src.startswith("[") else "non-list-for-multiple")
                e = (src, want, kind, "cfg-literal:" + (cls if kind == "either" else group))
                probs, got = self._one(opts, ctx, tier, tname, multiple, name, defkind, typegiven, default,
                                       "cfg-lit", e, st, None)
                if kind == "either":
                    self._note_either(st, e, got)

    def _note_either(self, st, e, got):
        cls = "rejected" if got is NOVAL else "accepted"
        st.note("either:%s:%s" % (e[3], cls))
        if e[3] == "bool-undocumented-spelling" and got is not NOVAL and "," not in e[0] \
                and not isinstance(got, list):
            st.note("either:bool-undocumented-spelling:%r->%r" % (e[0], got))

    def _one(self, opts, ctx, tier, tname, multiple, name, defkind, typegiven, default, channel, entry, st,
             base_sigs):
        st.ev()
        res = execute(opts, ctx, tname, multiple, name, typegiven, default, channel, entry[0])
        probs, got = full_judge(tname, multiple, name, default, channel, entry, res)
        status = res[0]
        ck = "cli" if not channel.startswith("cfg") else channel
        if status == "ok":
            if got is not NOVAL and not same(got, expected_default(multiple, default)):
                st.nontriv((tname, multiple, entry[0], channel))
            st.outcome((tname, multiple, ck, entry[2], "accepted"))
        else:
            st.nontriv((tname, multiple, entry[0], channel))
            st.outcome((tname, multiple, ck, entry[2], "raised", type(res[1]).__name__))
        if probs:
            case = entry_case(tier, tname, multiple, name, defkind, typegiven, default, channel, entry)
            for sig, msg in probs:
                if base_sigs is not None and channel != "dd-eq" and sig not in base_sigs \
                        and not sig.startswith(("cli:", "defaults:")):
                    # fine via --n=v but not via this channel: the defect is in the channel
                    what = sig.rsplit(":", 1)[1]
                    tl = tname + ("-multi" if multiple else "")
                    sig = "channel:%s:%s" % (channel, what) if not channel.startswith("cfg") \
                        else "channel:%s:%s:%s" % (channel, tl, what)
                st.violation(sig, "%s%s option %r (default %r, type %s) via %s %r: %s"
                             % (tname, " multiple" if multiple else "", name, default,
                                "explicit" if typegiven else "inferred", channel, entry[0], msg), case)
        elif len(st.samples) < 2 and entry[2] == "ok" and channel == "tail" and entry[3] not in ("plain", "text"):
            st.sample({"argv": cli_args(channel, name, entry[0])[0], "value": repr(got)})
        return probs, got

    def _unknown(self, opts, tier, tname, multiple, name, defkind, typegiven, default, variant, uname, text, st):
        if uname.replace("_", "-") in [name.replace("_", "-"), "help"] + \
                [b[0].replace("_", "-") for b in BYSTANDERS]:
            return
        for argv in (["prog", "--%s=%s" % (uname, text)], ["prog", "--%s" % uname],
                     ["prog", "--b-int=9", "-%s=%s" % (uname, text)]):
            if argv[-1] == "--":
                continue          # the documented end-of-options marker, not an option
            st.ev()
            p = build_parser(opts, tname, multiple, name, typegiven, default)
            try:
                rem = p.parse_command_line(argv)
                status = "ok"
            except Exception as e:
                status, rem = "raise", e
            except BaseException as e:  # noqa
                status, rem = "base", e
            case = {"tier": tier, "type": tname, "multiple": multiple, "name": name, "defkind": defkind,
                    "typegiven": typegiven, "default": repr(default), "channel": "unknown", "argv": argv}
            if status != "raise":
                st.violation("unknown-option:%s:%s" % (variant, "accepted" if status == "ok" else
                                                         "base-exception-" + type(rem).__name__),
                             "undefined option in %r was not rejected with an error (%r)" % (argv, rem), case)
            else:
                st.nontriv(("unknown", variant, len(argv), argv[1].startswith("--b")))
            got, _ = read_value(p, name)
            if not same(got, expected_default(multiple, default)):
                st.violation("unknown-option:%s:target-changed" % variant,
                             "%r changed option %r to %r" % (argv, name, got), case)
            for bn, bgot, bwant in bystander_problems(p, 9 if len(argv) == 3 else 5):
                st.violation("defaults:%s-changed:unknown-option" % bn,
                             "%r: unset option %s is %r, default %r" % (argv, bn, bgot, bwant), case)
            st.outcome(("unknown", variant, status))

    # ------------------------------------------------------------------
    def replay(self, case):
        if case.get("locale"):
            from mc.core import Stats
            st = Stats()
            self._locale_case(st)
            return repr({k: v[0] for k, v in st.violations.items()}) or "ok"
        from tornado import options as opts
        ns = {"datetime": datetime, "NOVAL": NOVAL, "inf": float("inf"), "nan": float("nan")}
        default = eval(case["default"], ns)
        tname, multiple, name = case["type"], case["multiple"], case["name"]
        saved_err = sys.stderr
        sys.stderr = io.StringIO()
        ctx = Ctx()
        try:
            lines = ["OptionParser().define(%r, default=%r, %smultiple=%r)  [+9 bystander options]"
                     % (name, default, "type=%s, " % tname if case["typegiven"] else "", multiple)]
            if case["channel"] == "unknown":
                p = build_parser(opts, tname, multiple, name, case["typegiven"], default)
                try:
                    r = "returned %r" % (p.parse_command_line(case["argv"]),)
                except BaseException as e:  # noqa
                    r = "raised %s: %s" % (type(e).__name__, e)
                lines += ["parse_command_line(%r)" % (case["argv"],), " real     : " + r,
                          " expected : raises an Exception, all options keep their defaults",
                          " options now: %r" % (p.as_dict(),)]
                return "\n".join(lines)
            want = eval(case["want"], ns)
            entry = (case["payload"], want, case["kind"], case["form"])
            res = execute(opts, ctx, tname, multiple, name, case["typegiven"], default, case["channel"],
                          case["payload"])
            probs, got = full_judge(tname, multiple, name, default, case["channel"], entry, res)
            if case["channel"].startswith("cfg"):
                with open(ctx.path, encoding="utf-8") as f:
                    lines.append("parse_config_file of:\n" + "".join("    | " + ln for ln in f))
            else:
                lines.append("parse_command_line(%r)" % (cli_args(case["channel"], name, case["payload"])[0],))
            if res[0] == "ok":
                lines.append(" real     : returned %r, option value %r" % (res[2], got))
            else:
                lines.append(" real     : raised %s: %s" % (type(res[1]).__name__, res[1]))
            lines.append(" expected : kind=%s denoted value=%r" % (case["kind"], want))
            for sig, msg in probs:
                lines.append(" PROBLEM %s: %s" % (sig, msg))
            if not probs:
                lines.append(" no problem (property holds for this case)")
            return "\n".join(lines)
        finally:
            sys.stderr = saved_err
            ctx.close()


CHECK = C44()
