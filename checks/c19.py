"""C19 Compiled templates produce what the template language defines.

Shape I (programs): bounded exhaustive enumeration of template ASTs
(mc/tmpl_c19.py), rendered to source, compiled and generated with the real
tornado.template and compared with a direct interpreter of the AST written
from the documentation.  Four families, each enumerated completely:

  S  single-file structure: every AST up to N nodes / depth D over
     text, expressions, set, comment, break/continue and all block kinds
     (if/elif/else, for/while(+else), try/except/else/finally, apply, block)
  X  lexical: every sequence of up to K atoms over literal characters
     (quotes, backslash, braces, "!", "%", "#", whitespace, non-ASCII, <pre>),
     the three escapes, expression/comment/whitespace tags and two wrappers,
     under every whitespace configuration
  D  ill-formed: every base AST up to B nodes with exactly one injected
     diagnosed error (missing/extra end, stray intermediate tag, break or
     continue outside a loop, unknown operator, empty tag/expression,
     missing terminator, missing argument) at every position
  M  multi-file: every combination of up to three files (extends / include /
     block override) up to T nodes in total, under every per-file
     whitespace default and loader whitespace setting
"""
import itertools

from mc.core import Check, h
from mc import tmpl_c19 as T

NPARTS = 32

TXT = ("text", "a\n")


# ---------------------------------------------------------------- family S
_GRAMMARS = {}


def s_grammars(tier):
    """[(grammar, max nodes, configs)]; built once (in the parent, before the
    workers fork)."""
    if ("S", tier) in _GRAMMARS:
        return _GRAMMARS[("S", tier)]
    leaves = [TXT, ("expr", "s", " "), ("expr", "v", ""), ("expr", "1/0", " "),
              ("set", "v", "n"), ("cmt", "#", " c ")]
    loop_leaves = [("break",), ("continue",), ("expr", "i", " ")]
    # S2: directives and the unescaped tags at every position of small files
    leaves2 = [("text", " \n "), ("expr", "s", " "), ("raw", "s"), ("module", "M(s)"),
               ("module", "B()"), ("autoescape", "None"), ("autoescape", "esc2"),
               ("whitespace", "oneline"), ("cmt", "%", " x"), ("import", "from math import pi"),
               ("expr", "o", ""), ("expr", "b", " ")]
    heads2 = T.std_heads(conds=("n",), seqs=("xs",), elifs=(), excepts=("",), try_full=False,
                         loop_else=False, whiles=False)
    cfg1 = [{}]
    cfg2 = [{}, {"lkw": {"autoescape": None}}, {"lkw": {"autoescape": "esc2"}, "lns": True},
            {"mode": "direct", "tkw": {"autoescape": None}},
            {"mode": "direct", "tkw": {"autoescape": "esc2", "whitespace": "single"}}]
    if tier == "quick":
        heads = T.std_heads(elifs=("n",), excepts=("", "KeyError"), seqs=("xs",), try_full=True)
        out = [(T.Grammar(leaves, loop_leaves, heads, 2), 4, cfg1),
               (T.Grammar(leaves2, [], heads2, 2), 3, cfg2)]
    else:
        heads = T.std_heads(elifs=("n", "z"), excepts=("", "KeyError", "ZeroDivisionError"),
                            applies=("wrap", "drop"), try_full=True)
        small = [TXT, ("expr", "v", ""), ("expr", "1/0", " "), ("set", "v", "s")]
        heads_s = T.std_heads(conds=("n",), seqs=("xs",), elifs=(), excepts=("",),
                              loop_else=True, try_full=True)
        out = [(T.Grammar(leaves, loop_leaves, heads, 3), 4, cfg1),
               (T.Grammar(small, [("break",), ("continue",)], heads_s, 3), 5, cfg1),
               (T.Grammar(leaves2, [], heads2, 2), 3, cfg2)]
    for g, n, _ in out:
        for size in range(n + 1):
            g.nodes(size)
            g.bodies(size)
    _GRAMMARS[("S", tier)] = out
    return out


def s_cases(tier, part):
    for g, n, cfgs in s_grammars(tier):
        yield from s_cases_g(g, n, cfgs, part)


def s_cases_g(g, n, cfgs, part):
    idx = 0
    for size in range(n + 1):
        if size == 0:
            if part == 0:
                yield {"entry": "t.txt", "files": {"t.txt": ()}}
            continue
        for k in range(1, size + 1):
            firsts = g.nodes(k)
            rests = g.bodies(size - k)
            for f in firsts:
                idx += 1
                if idx % NPARTS != part:
                    continue
                for rest in rests:
                    if f[0] == "text" and rest and rest[0][0] == "text":
                        continue
                    body = (f,) + rest
                    for cfg in cfgs:
                        w = dict(cfg)
                        w.update(entry="t.txt", files={"t.txt": body})
                        yield w
                    if size <= 3 and len(cfgs) == 1:
                        # the same template through Template() without a loader
                        yield {"mode": "direct", "entry": "t.txt", "files": {"t.txt": body}}


# ---------------------------------------------------------------- family X
X_CHARS = ["a", " ", "\n", "\t", "{", "}", "!", "%", "#", "\"", "'", "\\", "é", "<pre>", "\r\n"]
X_TAGS = [("lit", "{{"), ("lit", "{%"), ("lit", "{#"), ("expr", "s", ""), ("expr", "n", " "),
          ("cmt", "#", "{{ s }}{% end %}"), ("cmt", "%", " {{ s }} {# "),
          ("whitespace", "single"), ("whitespace", "oneline"), ("whitespace", "all"),
          ("wrap", "if"), ("wrap", "apply")]
X_ATOMS = X_CHARS + X_TAGS
X_CONFIGS = [
    {"entry": "t.txt"},
    {"entry": "t.html"},
    {"entry": "t.txt", "lkw": {"whitespace": "oneline"}},
]
X_CONFIGS_MORE = [
    {"entry": "t.js"},
    {"entry": "t.html", "lkw": {"whitespace": "all"}},
    {"entry": "t.txt", "lkw": {"whitespace": "single"}},
    {"mode": "direct", "entry": "t", "tkw": {}},
    {"mode": "direct", "entry": "t", "tkw": {"whitespace": "single"}},
    {"mode": "direct", "entry": "t", "tkw": {"whitespace": "oneline"}},
    {"mode": "direct", "entry": "t", "tkw": {"compress_whitespace": True}},
    {"mode": "direct", "entry": "t", "tkw": {"compress_whitespace": False, "name": "x.html"}},
    {"mode": "direct", "entry": "t", "tkw": {"name": "x.html"}},
    {"mode": "direct", "entry": "t", "tkw": {"name": "x.js"}, "bsrc": True},
    {"entry": "t.html", "bsrc": True},
]


def x_body(atoms):
    """Atoms -> body; None if adjacent characters would form a tag opener."""
    out = []
    for i, a in enumerate(atoms):
        if isinstance(a, str):
            if out and out[-1][0] == "text":
                t = out[-1][1] + a
                if "{{" in t or "{%" in t or "{#" in t:
                    return None
                out[-1] = ("text", t)
            else:
                out.append(("text", a))
        elif a[0] == "wrap":
            rest = x_body(atoms[i + 1:])
            if rest is None:
                return None
            if a[1] == "if":
                out.append(("if", "n", rest, ()))
            else:
                out.append(("apply", "wrap", rest))
            return tuple(out)
        else:
            out.append(a)
    return tuple(out)


def x_cases(tier, part):
    k = 3 if tier == "quick" else 4
    idx = 0
    for length in range(0, k + 1):
        for atoms in itertools.product(X_ATOMS, repeat=length):
            idx += 1
            if idx % NPARTS != part:
                continue
            body = x_body(atoms)
            if body is None:
                continue
            cfgs = X_CONFIGS + (X_CONFIGS_MORE if length <= (2 if tier == "quick" else 3) else [])
            for cfg in cfgs:
                w = dict(cfg)
                w["files"] = {cfg["entry"]: body}
                yield w


# ---------------------------------------------------------------- family D
BAD_ANY = ["op", "op2", "empty_block", "empty_block0", "empty_expr", "empty_expr0",
           "unterm_expr", "unterm_block", "unterm_cmt"]
BAD_ARGS = [("set", "", ""), ("import", "import"), ("import", "from"), ("include", ""),
            ("extends", ""), ("apply", "", (TXT,)), ("block", "", (TXT,)),
            ("apply", "", ()), ("block", "", ())]


def d_grammar(tier):
    # the multi-line comment makes every later ParseError line depend on newlines inside comments
    leaves = [TXT, ("expr", "s", " "), ("cmt", "#", " a\n b\n")]
    heads = T.std_heads(conds=("n",), seqs=("xs",), elifs=(), excepts=("",), try_full=False,
                        loop_else=False)
    return T.Grammar(leaves, [], heads, 2), (2 if tier == "quick" else 3)


def d_insertions(parent, loop):
    """Error nodes that are errors when placed directly in a body whose
    enclosing container kind is `parent` (None = file level)."""
    out = [("bad", k) for k in BAD_ANY] + list(BAD_ARGS)
    if parent is None:
        out.append(("bad", "extra_end"))
    for inter, ok in T.INTER_OK.items():
        if parent not in ok:
            out.append(("bad", inter))
    if not loop:
        out += [("break",), ("continue",)]
    return out


def d_mutants(body, parent=None, loop=False):
    """All bodies with exactly one injected error."""
    for pos in range(len(body) + 1):
        for bad in d_insertions(parent, loop):
            yield body[:pos] + (bad,) + body[pos:]
    for i, node in enumerate(body):
        if node[0] in T.CONTAINERS:
            yield body[:i] + (("noend", node),) + body[i + 1:]
            b, cls = T.parts_of(node)
            k = node[0]
            inner_loop = True if k in ("for", "while") else (False if k == "apply" else loop)
            if k == "apply" and loop:
                continue      # break inside apply inside a loop: EITHER, not a diagnosed class
            for nb in d_mutants(b, k, inner_loop):
                yield body[:i] + (T.rebuild(node, nb, cls),) + body[i + 1:]
            for ci, cl in enumerate(cls):
                for nb in d_mutants(cl[-1], k, loop if k in ("for", "while") else inner_loop):
                    ncl = cls[:ci] + (cl[:-1] + (nb,),) + cls[ci + 1:]
                    yield body[:i] + (T.rebuild(node, b, ncl),) + body[i + 1:]


def d_cases(tier, part):
    g, n = d_grammar(tier)
    idx = 0
    for body in g.bodies_upto(n):
        idx += 1
        if idx % NPARTS != part:
            continue
        for mb in d_mutants(body):
            yield {"entry": "t.txt", "files": {"t.txt": mb}}
            # the same error in an included / extended file: the file name matters
            yield {"entry": "e.txt", "files": {"e.txt": (TXT, ("include", "t.txt")), "t.txt": mb}}
        yield {"mode": "direct", "entry": "t.txt", "files": {"t.txt": body + (("bad", "op"),)}}


# ---------------------------------------------------------------- family M
def m_cases(tier, part):
    idx = 0
    plan = [(2, 3), (3, 2)] if tier == "quick" else [(2, 4), (3, 3)]
    for nfiles, total in plan:
        for names, exts, bodies in T.m_structures(total, nfiles):
            idx += 1
            if idx % NPARTS != part:
                continue
            for file_exts in itertools.product(("html", "txt"), repeat=nfiles):
                for lkw in ({}, {"whitespace": "oneline"}):
                    yield T.m_world(names, exts, bodies, file_exts, lkw)
    # nested include/extends chains of three files in which one file switches autoescaping off: what
    # follows the inner include must again be generated under the outer file's own setting
    for names, exts, bodies in T.m_structures(3, 3):
        if len(bodies[0]) < 2 and exts[0] is None:
            continue
        idx += 1
        if idx % NPARTS != part:
            continue
        for off in (0, 1, 2):
            pre = [(), (), ()]
            pre[off] = (("autoescape", "None"),)
            yield T.m_world(names, exts, bodies, ("html", "html", "html"), {}, pre=pre)


FAMILIES = {"S": s_cases, "X": x_cases, "D": d_cases, "M": m_cases}


class C19(Check):
    id = "C19"
    level = "exploration"
    design_ref = "DESIGN.md §2 C19 / C20"
    rule = ("four exhaustively enumerated families of template ASTs (S structure: all ASTs <= N "
            "nodes; X lexical: all atom sequences <= K under every whitespace configuration; "
            "D: every base AST with one injected diagnosed error at every position; M: all "
            "<=3-file extends/include/block combinations), each compiled and generated by the "
            "real tornado.template and compared with the reference interpreter; non-trivial = "
            "distinct template sources whose meaning the documentation fixes (output, exception "
            "or ParseError line) and that contain at least one tag")
    claim = ("Within the bounds, every template of the documented language generates exactly the "
             "bytes (or raises the exception) a direct interpretation of the documentation "
             "defines, literal text is reproduced byte-for-byte modulo the selected whitespace "
             "mode, and every template with one diagnosed syntax error raises ParseError naming "
             "the file and the line of the offending tag.")
    technique = ("bounded exhaustive enumeration of template ASTs rendered to source, executed on "
                 "the real tornado.template (DictLoader / Template) against an independent "
                 "reference interpreter of the AST")
    assumptions = [
        "expressions are evaluated by Python's eval in the reference (the expression language is "
        "Python by definition); the statement level is interpreted directly",
        "whitespace filtering applies per literal chunk between tags (fixed by "
        "template_test.test_whitespace_directive); runs of space/tab/newline only",
        "EITHER (executed, not judged): '{' directly before a tag, <pre> chunks are accepted "
        "filtered or unfiltered, set/for inside apply visible outside, break inside apply or in "
        "a loop's else, duplicate block names, block override through an included file, clause "
        "orders Python rejects, empty raw/if/autoescape arguments, unknown whitespace mode, "
        "several autoescape/extends directives, extends inside a block, missing files",
        "{% module %} is run with a stand-in _tt_modules object as tornado.web provides it",
        "a missing {% end %} may be reported on any line from the opening tag to the end of file",
    ]

    _named = {}

    def partitions(self, tier):
        s_grammars(tier)
        return [(fam, p) for fam in FAMILIES for p in range(NPARTS)] + [("two-directories", 0)]

    def run_partition(self, part, tier, st):
        fam, p = part
        if fam == "two-directories":
            bad, n = T.run_two_directories()
            st.ev(n)
            st.nontriv(("two-directories", n))
            for sig, msg in bad:
                st.violation(sig, msg, {"two_directories": True})
            return
        for w in FAMILIES[fam](tier, p):
            self.one(T.norm_world(w), fam, st)

    def one(self, w, fam, st):
        v, exp, real = T.judge(w)
        st.ev()
        kind = exp["kind"]
        if kind == "either":
            for c in exp["classes"]:
                st.note("either:" + c)
            st.outcome("either:" + real[0])
            return
        srcs = tuple(sorted((n, fs.src) for n, fs in exp["rend"].items()))
        if kind == "perr":
            st.nontriv((srcs, w["mode"]))
            st.note("expect:ParseError")
            st.outcome(("perr", tuple(sorted(set(exp["allowed"].values())))))
        else:
            if any("{" in s for _, s in srcs):
                st.nontriv((srcs, w["mode"], tuple(sorted(w["lkw"].items())),
                            tuple(sorted(w["tkw"].items()))))
            st.note("expect:" + kind)
            st.outcome(h((kind, real[1])) if v is None else "bad")
            if exp.get("pre"):
                st.note("either:pre-chunk-filtered-or-not")
        if len(st.samples) < 2 and kind == "ok" and len(real[1]) > 12 and fam in ("S", "M") \
                and len(srcs[0][1]) > 40:
            st.sample({"family": fam, "sources": dict(srcs), "output": repr(real[1])})
        if v is not None:
            key = (v[0], T.world_skeleton(w))
            if key not in self._named:         # shrink once per structural class
                self._named[key] = T.name_violation(w, v[0])
            sig, small = self._named[key]
            v2, exp2, real2 = T.judge(small)
            msg = "%s | %s" % (v2[1] if v2 else v[1], T.describe(small, exp2).replace("\n", " "))
            st.violation(sig, msg[:600], {"world": small, "family": fam})

    def replay(self, case):
        if case.get("two_directories"):
            return repr(T.run_two_directories())
        w = T.norm_world(case["world"])
        v, exp, real = T.judge(w)
        out = [T.describe(w, exp), "real:      %r" % (real,)]
        if exp["kind"] == "ok":
            out.append("reference: output %r" % sorted(exp["outs"]))
        elif exp["kind"] == "exc":
            out.append("reference: raises %s" % exp["exc"])
        elif exp["kind"] == "perr":
            out.append("reference: ParseError at %r" % sorted(exp["allowed"].items()))
        else:
            out.append("reference: EITHER %r" % exp["classes"])
        out.append("verdict:   %s" % ("agree" if v is None else "%s -- %s" % v))
        return "\n".join(out)


CHECK = C19()
