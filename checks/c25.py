"""C25 Outgoing cookies are emitted exactly as set.

Shape I.  set_cookie / set_signed_cookie / clear_cookie are called inside a
real Application/HTTPServer on an in-memory socket.  The Set-Cookie lines are
taken from the raw response bytes (strict RFC 9112 reader), split the way an
RFC 6265 user agent does, compared with an independently computed attribute
list, and the name=value pairs are sent back verbatim in a `Cookie:` header of
a second request on the same connection where `request.cookies` /
`get_signed_cookie` must return exactly what was set.

Three enumerated families:
  S  one string argument (name, value, domain, path, samesite, legacy kwargs,
     signed name/value, clear_cookie arguments) over all strings <= bound;
  A  the full product of the typed attribute arguments (expires, expires_days,
     max_age, httponly, secure, samesite, path, domain);
  P  all programs of <= d cookie operations over names {a, b, A} ("setting the
     same name twice emits only the last setting").
"""
import datetime
import itertools
import time

from mc.core import Check
from mc import webout_c07 as wo
from mc.vloop import EPOCH

# DESIGN.md C25 alphabet (+ "0" so that octal escapes \0oo can be formed)
ALPHA_STR = ["a", " ", ";", ",", "=", '"', "\\", "\r", "\n", "\x00", "\x7f", "\xe9", "\u0100", "0"]
ALPHA_BYTES = [b"a", b" ", b";", b",", b"=", b'"', b"\\", b"\r", b"\n", b"\x00", b"\x7f",
               b"\xc3\xa9", b"\xe9", b"0"]
DAY = 86400


# --------------------------------------------------------------- operations
# An op is (api, args tuple, kwargs dict); api in set / clear / signed.
def apply_op(handler, op):
    api, args, kw = op
    if api == "error":
        import tornado.web
        raise tornado.web.HTTPError(args[0])       # the handler ends in an error page: cookies set so far still go out
    if api.startswith("try"):
        # the handler catches the rejection and carries on: a call that raised is not a setting
        try:
            apply_op(handler, (api[3:], args, kw))
        except Exception as e:
            return "caught:" + type(e).__name__
        return None
    if api == "set":
        handler.set_cookie(*args, **kw)
    elif api == "clear":
        handler.clear_cookie(*args, **kw)
    else:
        handler.set_signed_cookie(*args, **kw)


class Unspecified:
    """Marker: the statement does not say whether this attribute is requested."""


def ts_of(expires):
    if isinstance(expires, (int, float)):
        return expires
    if isinstance(expires, datetime.datetime):
        if expires.tzinfo is None:
            expires = expires.replace(tzinfo=datetime.timezone.utc)   # documented: naive = UTC
        return expires.timestamp()
    import calendar
    return calendar.timegm(tuple(expires))


def ref_setting(op):
    """Independent reference: -> (name str, value (str | bytes for signed),
    {attr-name: bytes | None (flag) | Unspecified | (Unspecified, bytes)})
    written from the set_cookie documentation and RFC 6265."""
    api, args, kw = op
    kw = dict(kw)
    name = args[0]
    if isinstance(name, bytes):
        name = name.decode("utf-8")
    if api == "clear":
        value = ""
        kw["expires"] = EPOCH - 365 * DAY
    else:
        value = args[1]
        if api == "set" and isinstance(value, bytes):
            value = value.decode("utf-8")
    if api == "signed":
        kw.setdefault("expires_days", 30)
        kw.pop("version", None)
    attrs = {}

    def text(attr, v):
        if v is None:
            return
        if v == "":
            attrs[attr] = (Unspecified, b"")      # "" = not requested; absent or empty
        else:
            attrs[attr] = v

    text("domain", kw.pop("domain", None))
    text("path", kw.pop("path", "/"))
    text("samesite", kw.pop("samesite", None))
    expires = kw.pop("expires", None)
    days = kw.pop("expires_days", None)
    if expires is not None and not isinstance(expires, datetime.datetime) and not expires:
        # expires=0 / (): a timestamp, or "unset" (the expires_days rule treats
        # a false value as unset) -- the documentation does not say
        attrs["expires"] = Unspecified
    elif isinstance(expires, str):
        # a string is not a documented timestamp type: the call may raise; if it is accepted the attribute is
        # that very string (and nothing else may appear)
        attrs["expires"] = expires
    elif expires is not None:
        attrs["expires"] = wo.http_date(ts_of(expires))
    elif days is not None:
        attrs["expires"] = wo.http_date(EPOCH + days * DAY)
    max_age = kw.pop("max_age", None)
    if max_age is not None and str(max_age) != "":     # an empty string requests nothing (like domain="")
        attrs["max-age"] = str(max_age)
    if kw.pop("httponly", False):
        attrs["httponly"] = None
    if kw.pop("secure", False):
        attrs["secure"] = None
    for k, v in kw.items():                        # legacy, case-insensitive kwargs
        text(k.lower(), v)
    return name, value, attrs


def ref_program(prog):
    """name -> (value, attrs) of the last setting of every name."""
    final = {}
    for op in prog:
        if op[0] == "error":
            break                          # nothing after it is executed
        name, value, attrs = ref_setting(op)
        final[name] = (op[0], value, attrs)
    return final


# -------------------------------------------------------------- application
class Box:
    def __init__(self):
        self.prog = []
        self.rec = []
        self.read = None
        self.signed = {}
        self.want_signed = []


def build_app(box):
    import tornado.web

    class Set(tornado.web.RequestHandler):
        def get(self):
            for op in box.prog:
                if op[0] == "error":
                    box.rec.append("ok")
                try:
                    box.rec.append(apply_op(self, op) or "ok")
                except Exception as e:
                    if op[0] != "error":
                        box.rec.append(type(e).__name__)
                    raise
            self.write("BODY")

    class Read(tornado.web.RequestHandler):
        def get(self):
            box.read = {k: m.value for k, m in self.request.cookies.items()}
            box.read_gc = {k: self.get_cookie(k, "<default>") for k in box.read}
            for n in box.want_signed:
                box.signed[n] = self.get_signed_cookie(n)
            self.write("READ")

    return tornado.web.Application([("/set", Set), ("/read", Read)], cookie_secret="c25-secret")


class Result:
    pass


def run_case(app, box, prog):
    """Execute one program; -> Result with everything the oracle needs."""
    res = Result()
    box.prog, box.rec, box.read, box.signed = prog, [], None, {}
    box.want_signed = []
    with wo.World() as w:
        c = wo.Conn(w, app)
        res.out1 = c.send(wo.request(b"/set"))
        res.rec = list(box.rec)
        res.closed1 = c.closed
        res.resps, res.problems = wo.read_responses(res.out1, ["GET"], c.closed)
        res.cookies = []
        res.out2 = None
        res.read = None
        res.read_gc = None
        res.signed = {}
        if not res.problems and res.resps and not c.closed:
            res.cookies = [wo.ua_parse_set_cookie(v) for v in res.resps[0].get_all("set-cookie")]
            if res.cookies and all(r == "ok" or r.startswith("caught:") for r in res.rec):
                pairs = b"; ".join(n + b"=" + v for n, v, _ in res.cookies)
                box.want_signed = [op[1][0] for op in prog if op[0] == "signed"
                                   and isinstance(op[1][0], str)]
                # (cookies of other software on the same domain, with names http.cookies refuses, come first)
                res.out2 = c.send(wo.request(b"/read", b"Cookie: ui[theme]=dark; path=x; " + pairs + b"\r\n"))
                res.read = box.read
                res.read_gc = getattr(box, "read_gc", None)
                res.signed = dict(box.signed)
        res.errors = c.errors()
        res.closed = c.closed
    return res


def show(want):
    return {k: ("<absent or empty>" if isinstance(v, tuple) else
                "<unspecified>" if v is Unspecified else v) for k, v in want.items()}


def attr_matches(want, got_present, got):
    """want: bytes-able | None (flag) | Unspecified | (Unspecified, bytes)."""
    if want is Unspecified:
        return True
    if isinstance(want, tuple):
        return (not got_present) or got in (None, b"")
    if not got_present:
        return False
    if want is None:
        return got is None or got == b""
    if isinstance(want, str):
        # header text is latin-1 on the wire (what Tornado's own request side, and its client, decode with): a
        # character U+0080..U+00FF sent as two UTF-8 bytes reads back as two other characters
        # ... and exactly the requested string: a user agent trims the value, so an attribute that begins or ends
        # with whitespace cannot arrive as requested - the call has to raise
        try:
            return got is not None and got == want.encode("latin-1")
        except UnicodeEncodeError:
            pass
    return got is not None and got in wo.trimmed(wo.enc_options(want))


def judge(prog, res, notes):
    """-> None | (symptom, detail)"""
    rejected = any(r != "ok" and not r.startswith("caught:") for r in res.rec)
    if not rejected:
        # the caught calls raised (allowed); the others are what the response owes
        prog = [((op[0][3:],) + tuple(op[1:]) if op[0].startswith("try") else op)
                for op, r in zip(prog, res.rec) if r == "ok"]
    if res.problems or not res.resps:
        sym = wo.worst_problem(res.problems or ["missing response"])
        if sym == "no-response":
            if rejected:
                sym = "no-response-after-rejected-call"
            elif res.closed1:
                sym = "no-response-connection-dropped"
            else:
                sym = "no-response-connection-stays-open"
        return sym, "; ".join(res.problems)[:300]
    r = res.resps[0]
    if rejected:
        return None                       # the call raised: nothing promised about cookies
    want_code = 403 if any(op[0] == "error" for op in prog) else 200
    if r.code != want_code:
        if r.code == 500 and not res.cookies:
            notes.append("either:rejected-at-flush-with-clean-error-page")
            return None
        return "unexpected-status", "status %d with cookies %r" % (r.code, res.cookies)
    final = ref_program(prog)
    got_names = [n for n, _, _ in res.cookies]
    want_names = sorted(n.encode("latin-1", "replace") for n in final)
    if sorted(got_names) != want_names:
        if len(got_names) > len(set(got_names)):
            return "same-name-emitted-twice", "Set-Cookie names %r" % got_names
        if len(got_names) > len(want_names):
            return "extra-cookie", "Set-Cookie names %r, set %r" % (got_names, want_names)
        return "cookie-name-differs", "Set-Cookie names %r, set %r" % (got_names, want_names)
    for name_b, val_b, attrs in res.cookies:
        name = name_b.decode("latin-1")
        api, value, want = final[name]
        seen = {}
        for k, v in attrs:
            ks = k.decode("latin-1")
            if k in seen or ks not in KNOWN_ATTRS:
                # a name no API argument can produce, or the same attribute twice:
                # the attribute list was extended from inside a value
                return ("attribute-injected",
                        "cookie %r carries %r; requested %r" % (name, attrs, show(want)))
            seen[k] = v
        for k in sorted(set(seen) | {a.encode() for a in want}):
            ks = k.decode("latin-1")
            if ks not in want:
                return ("attribute-unexpected:" + ks,
                        "cookie %r carries %r; requested %r" % (name, attrs, show(want)))
            w = want[ks]
            if w is Unspecified or isinstance(w, tuple):
                notes.append("either:%s-false-value" % ks)
            if not attr_matches(w, k in seen, seen.get(k)):
                what = "missing" if k not in seen else "value-differs"
                return ("attribute-%s:%s" % (what, ks),
                        "cookie %r carries %r; requested %r" % (name, attrs, show(want)))
        # round trip through the request side
        if res.read is None:
            return "readback-failed", "second request got %r" % (res.out2,)
        if api == "signed":
            if name not in res.read:
                return "value-readback-differs", "request.cookies = %r" % (res.read,)
            want_v = value if isinstance(value, bytes) else value.encode("utf-8")
            if res.signed.get(name) != want_v:
                return ("signed-value-readback-differs",
                        "get_signed_cookie(%r) = %r, set %r" % (name, res.signed.get(name), value))
        elif res.read.get(name) == value and res.read_gc is not None and res.read_gc.get(name) != value:
            return ("get_cookie-differs-from-request.cookies",
                    "get_cookie(%r) = %r, request.cookies has %r" % (name, res.read_gc.get(name), value))
        elif res.read.get(name) != value:
            return ("value-readback-differs",
                    "sent back %r, request.cookies = %r, set %r=%r" % (
                        name_b + b"=" + val_b, res.read, name, value))
    if res.read is not None and set(res.read) != set(final):
        return "extra-cookie-read-back", "request.cookies = %r, set %r" % (res.read, sorted(final))
    return None


KNOWN_ATTRS = {"domain", "path", "expires", "max-age", "secure", "httponly", "samesite"}

# ------------------------------------------------------------------ family S
S_SLOTS = [
    ("set_cookie.name", "str", lambda x: ("set", (x, "v"), {})),
    ("set_cookie.name[bytes]", "bytes", lambda x: ("set", (x, "v"), {})),
    ("set_cookie.value", "str", lambda x: ("set", ("a", x), {})),
    ("set_cookie.value[bytes]", "bytes", lambda x: ("set", ("a", x), {})),
    ("set_cookie.domain", "str", lambda x: ("set", ("a", "v"), {"domain": x})),
    ("set_cookie.path", "str", lambda x: ("set", ("a", "v"), {"path": x})),
    ("set_cookie.samesite", "str", lambda x: ("set", ("a", "v"), {"samesite": x})),
    ("set_cookie.expires[str]", "str", lambda x: ("set", ("a", "v"), {"expires": x})),
    ("set_cookie.max_age", "str", lambda x: ("set", ("a", "v"), {"max_age": x})),
    ("set_cookie.kwargs.Domain", "str", lambda x: ("set", ("a", "v"), {"Domain": x})),
    ("set_cookie.kwargs.Path", "str", lambda x: ("set", ("a", "v"), {"Path": x})),
    ("set_cookie.kwargs.SameSite", "str", lambda x: ("set", ("a", "v"), {"SameSite": x})),
    ("set_cookie.kwargs.Expires", "str", lambda x: ("set", ("a", "v"), {"Expires": x})),
    ("set_cookie.kwargs.Max-Age", "str", lambda x: ("set", ("a", "v"), {"Max-Age": x})),
    ("set_signed_cookie.name", "str", lambda x: ("signed", (x, "v"), {})),
    ("set_signed_cookie.value", "str", lambda x: ("signed", ("a", x), {})),
    ("set_signed_cookie.value[bytes]", "bytes", lambda x: ("signed", ("a", x), {})),
    ("set_signed_cookie.domain", "str", lambda x: ("signed", ("a", "v"), {"domain": x})),
    ("clear_cookie.name", "str", lambda x: ("clear", (x,), {})),
    ("clear_cookie.domain", "str", lambda x: ("clear", ("a",), {"domain": x})),
    ("clear_cookie.path", "str", lambda x: ("clear", ("a",), {"path": x})),
]
S_BY_ID = {s[0]: s for s in S_SLOTS}


def s_family(slot_id):
    fam = slot_id.replace("[bytes]", "")
    if ".kwargs." in fam:
        return "set_cookie.kwargs"
    if fam.endswith((".domain", ".path", ".samesite", ".max_age", ".expires[str]")):
        return "cookie.attribute-argument"
    if fam.endswith(".name"):
        return "cookie.name"
    return fam


def s_strings(typ, maxlen):
    alpha = ALPHA_BYTES if typ == "bytes" else ALPHA_STR
    empty = b"" if typ == "bytes" else ""
    for k in range(0, maxlen + 1):
        for t in itertools.product(alpha, repeat=k):
            yield empty.join(t)


def s_wrap(typ, form, s, sid=""):
    if form == "alone":
        return s
    if sid.endswith("expires[str]"):
        return "Wed, 01 Jan 2030 00:00:00 GMT" + s       # a parsable date followed by the enumerated text
    return (b"ok" + s + b"ok") if typ == "bytes" else ("ok" + s + "ok")


def plain(x):
    xs = x.decode("latin-1") if isinstance(x, bytes) else x
    return bool(wo.COOKIE_OCTETS.match(xs))


# ------------------------------------------------------------------ family A
UTC = datetime.timezone.utc
A_EXPIRES = [None, 0, 1, 1700003600, time.gmtime(1700003600),
             datetime.datetime(2023, 11, 15, 0, 0, 0),
             datetime.datetime(2023, 11, 15, 2, 0, 0,
                               tzinfo=datetime.timezone(datetime.timedelta(hours=2)))]
A_DAYS = [None, 0, 1, -1]
A_MAX_AGE = [None, 0, 1, -1, 3600]
A_BOOL = [False, True]
A_SAMESITE = [None, "", "Lax", "None"]
A_PATH = ["/", "", "/a"]
A_DOMAIN = [None, "", "x.y"]


def a_ops(ei, di, tier="thorough"):
    """All typed attribute combinations with expires=A_EXPIRES[ei],
    expires_days=A_DAYS[di] (None arguments are simply not passed).  The quick
    tier leaves out samesite="None" and domain="" (3 x 2 instead of 4 x 3)."""
    samesite = A_SAMESITE if tier == "thorough" else A_SAMESITE[:3]
    domain = A_DOMAIN if tier == "thorough" else [None, "x.y"]
    for ma, ho, se, ss, pa, do in itertools.product(A_MAX_AGE, A_BOOL, A_BOOL, samesite,
                                                    A_PATH, domain):
        kw = {"expires": A_EXPIRES[ei], "expires_days": A_DAYS[di], "max_age": ma,
              "httponly": ho, "secure": se, "samesite": ss, "path": pa, "domain": do}
        kw = {k: v for k, v in kw.items() if v is not None and not (k in ("httponly", "secure")
                                                                   and v is False)}
        yield ("set", ("a", "v"), kw)
        if ei == 0 and ma is None:
            if di == 0:
                yield ("clear", ("a",), {k: v for k, v in kw.items()})
            skw = dict(kw)
            yield ("signed", ("a", "v"), skw)        # expires_days given (or default 30)
            if di == 0:
                skw2 = dict(kw)
                skw2["expires_days"] = None          # session cookie
                yield ("signed", ("a", "v"), skw2)
                skw3 = dict(kw)
                skw3["version"] = 1
                yield ("signed", ("a", "v"), skw3)


# ------------------------------------------------------------------ family P
def p_ops():
    ops = []
    for n in ("a", "b", "A"):
        ops += [("set", (n, "1"), {}),
                ("set", (n, "2"), {"domain": "x"}),
                ("set", (n, "3"), {"httponly": True, "secure": True, "samesite": "Lax"}),
                ("set", (n, "4"), {"max_age": 5, "path": "/p"}),
                ("set", (n, "2"), {}),                      # the same value as above, without its attributes
                ("clear", (n,), {}),
                ("clear", (n,), {"path": "/p"}),
                ("signed", (n, "5"), {})]
    ops.append(("error", (403,), {}))
    return ops


P_OPS = p_ops()
# calls that are refused at different depths of set_cookie (argument check, attribute check, timestamp formatting,
# attribute name, serialise-now check), caught by the handler
T_OPS = [("tryset", ("a", "x y"), {}), ("tryset", ("a", "6"), {"domain": "x;y"}), ("tryset", ("a", "7"), {"Path": "/p "}),
         ("tryset", ("a", "8"), {"expires": "tomorrow"}), ("tryset", ("a", "9"), {"Bogus": "1"}),
         ("tryset", ("a", "7"), {"SameSite": "Lax "}), ("tryclear", ("a",), {"path": "/p;x"}),
         ("tryclear", ("a",), {"Path": "/p "}), ("trysigned", ("a", "5"), {"domain": "x;y"}),
         ("tryset", ("a", "6"), {"domain": "\u0100"})]


def describe(prog):
    return [[op[0], list(op[1]), {k: repr(v) if not isinstance(v, (str, int, bool, bytes))
                                  else v for k, v in op[2].items()}] for op in prog]


class C25(Check):
    id = "C25"
    level = "exploration"
    design_ref = "DESIGN.md §2 C25"
    rule = ("family S: every string of length <= 2 (quick) / <= 3 (thorough; <= 4 for the value "
            "slots) over {a SP ; , = \" \\ CR LF NUL DEL e-acute U+0100 0} "
            "(bytes slots: same with UTF-8 / raw 0xE9), alone and as ok<s>ok, in each of 19 "
            "argument slots of set_cookie / set_signed_cookie / clear_cookie incl. legacy kwargs; "
            "family A: full product of typed attribute arguments (7 expires x 4 expires_days x 5 "
            "max_age x httponly x secure x 4 samesite x 3 path x 3 domain -- quick: 3 samesite x 2 "
            "domain --, plus clear/signed "
            "variants); family P: all programs of <= 3 (quick) / <= 4 (thorough) operations from 21 "
            "(set/clear/signed with different attribute sets on "
            "names a,b,A).  Each case = real request, Set-Cookie lines split as an RFC 6265 user "
            "agent, pairs sent back in a Cookie header of a second request.  Non-trivial = S: "
            "argument contains a non cookie-octet; A: >=1 non-default attribute; P: some name set "
            ">= 2 times")
    claim = ("Within the bounds, every cookie operation either raises or yields exactly one "
             "Set-Cookie per name (last setting), carrying exactly the requested attributes "
             "(independent reference) and a name=value pair that request.cookies / "
             "get_signed_cookie read back as exactly the name and value set.")
    technique = ("bounded exhaustive enumeration of cookie arguments and short cookie programs on "
                 "the real RequestHandler in an in-memory server, against an RFC 6265 user-agent "
                 "splitter, an independent attribute reference and a request-side round trip")
    assumptions = [
        "the user agent stores and returns the name=value pair verbatim (RFC 6265 5.2/5.4)",
        "attribute value '' and expires=0 count as 'not specified' (absent or empty accepted); "
        "max_age=0 is a requested attribute (RFC 6265 5.2.2: Max-Age=0 expires the cookie)",
        "a call accepted but refused at flush with a clean 500 page without the cookie is "
        "counted as a (late) rejection",
        "wall clock frozen at EPOCH inside tornado.web; str attribute values may appear as "
        "latin-1 or UTF-8",
    ]

    # ---- bounds
    def s_bound(self, tier, form, slot_id):
        if tier == "quick":
            return 2
        if form == "alone" and ".value" in slot_id:
            return 4
        return 3

    def p_depth(self, tier):
        return 3 if tier == "quick" else 4

    def partitions(self, tier):
        parts = []
        shards = 1 if tier == "quick" else 6
        for sid, _, _ in S_SLOTS:
            for form in ("alone", "embedded"):
                for k in range(shards):
                    parts.append(("S", sid, form, k, shards))
        for ei in range(len(A_EXPIRES)):
            for di in range(len(A_DAYS)):
                parts.append(("A", ei, di))
        for i in range(len(P_OPS)):
            parts.append(("P", i))
        parts.append(("T", 0))
        return parts

    # ---- execution
    def run_partition(self, part, tier, st):
        with wo.frozen_web_clock():
            box = Box()
            app = build_app(box)
            if part[0] == "S":
                _, sid, form, shard, shards = part
                _, typ, mk = S_BY_ID[sid]
                for j, s in enumerate(s_strings(typ, self.s_bound(tier, form, sid))):
                    if j % shards != shard:
                        continue
                    x = s_wrap(typ, form, s, sid)
                    self.one(app, box, [mk(x)], st, s_family(sid),
                             {"family": "S", "slot": sid, "form": form, "s": s},
                             None if plain(x) else (sid, x))
            elif part[0] == "A":
                for op in a_ops(part[1], part[2], tier):
                    self.one(app, box, [op], st, op[0] + ".attributes",
                             {"family": "A", "ei": part[1], "di": part[2],
                              "op": describe([op])[0]},
                             (op[0], repr(sorted(op[2].items()))) if op[2] else None)
            elif part[0] == "T":
                # an accepted setting (or none), then a call for the same / another name that raises and is caught, then
                # possibly one more operation: the refused call must leave no trace and take nothing away
                firsts = [None] + [op for op in P_OPS if op[1] and op[1][0] in ("a", "b")]
                lasts = [None] + [op for op in P_OPS if op[0] != "error" and op[1][0] == "a"]
                for fi, f in enumerate(firsts):
                    for ti, t in enumerate(T_OPS):
                        for li, l in enumerate(lasts):
                            prog = [op for op in (f, t, l) if op is not None]
                            self.one(app, box, prog, st, "rejected-call",
                                     {"family": "T", "ops": [fi, ti, li]}, ("T", fi, ti, li))
            else:
                first = P_OPS[part[1]]
                depth = self.p_depth(tier)
                for k in range(0, depth):
                    for rest in itertools.product(range(len(P_OPS)), repeat=k):
                        prog = [first] + [P_OPS[i] for i in rest]
                        names = [op[1][0] for op in prog]
                        self.one(app, box, prog, st, "program",
                                 {"family": "P", "ops": [part[1]] + list(rest)},
                                 tuple([part[1]] + list(rest))
                                 if len(names) > len(set(names)) else None)
                st.setmax("program_depth", depth)

    def one(self, app, box, prog, st, family, case, nontriv_key):
        res = run_case(app, box, prog)
        notes = []
        bad = judge(prog, res, notes)
        st.ev()
        for n in notes:
            st.note(n)
        if nontriv_key is not None:
            st.nontriv(nontriv_key)
        if bad:
            sym, detail = bad
            if family == "program":
                sym = sym.split(":")[0]     # one signature whatever attribute survives
            st.outcome("%s|%s" % (family, sym))
            st.violation("%s:%s" % (family, sym),
                         "%r: %s -- %s; wire: %r; logged: %r" % (
                             describe(prog), sym, detail, res.out1[-200:], res.errors[:3]), case)
        else:
            rejected = [r for r in res.rec if r != "ok"]
            st.outcome("%s|%s|%s" % (family, rejected[0] if rejected else "accepted",
                                     len(res.cookies)))
            if not rejected and res.cookies and len(st.samples) < 2 and case.get("family") != "S":
                st.sample({"program": describe(prog),
                           "set_cookie_lines": [v for v in res.resps[0].get_all("set-cookie")],
                           "request.cookies": res.read})

    def replay(self, case):
        with wo.frozen_web_clock():
            if case["family"] == "S":
                _, typ, mk = S_BY_ID[case["slot"]]
                prog = [mk(s_wrap(typ, case["form"], case["s"], case["slot"]))]
            elif case["family"] == "A":
                want = case["op"]
                prog = [[op] for op in a_ops(case["ei"], case["di"])
                        if describe([op])[0] == want][0]
            elif case["family"] == "T":
                fi, ti, li = case["ops"]
                firsts = [None] + [op for op in P_OPS if op[1] and op[1][0] in ("a", "b")]
                lasts = [None] + [op for op in P_OPS if op[0] != "error" and op[1][0] == "a"]
                prog = [op for op in (firsts[fi], T_OPS[ti], lasts[li]) if op is not None]
            else:
                prog = [P_OPS[i] for i in case["ops"]]
            box = Box()
            res = run_case(build_app(box), box, prog)
            notes = []
            bad = judge(prog, res, notes)
            out = ["program           : %r" % (describe(prog),),
                   "calls             : %r" % (res.rec,),
                   "wire (/set)       : %r" % (res.out1,),
                   "Set-Cookie (UA)   : %r" % (res.cookies,),
                   "closed/error logs : %r %r" % (res.closed, res.errors)]
            if all(r == "ok" for r in res.rec):
                out.append("expected (ref)    : %r" % (
                    {n: (v, show(at)) for n, (_, v, at) in ref_program(prog).items()},))
            out.append("request.cookies   : %r   signed: %r" % (res.read, res.signed))
            out.append("verdict           : %s" % ("VIOLATION %s: %s" % bad if bad else "ok"))
            return "\n".join(out)


CHECK = C25()
