"""C08 The HTTP client decodes any response stream exactly as a strict parser does.
Shapes I x S: a grammar of valid and near-valid responses x client options
(method, decompress_response, streaming_callback, timeouts) x segmentations,
on the real SimpleAsyncHTTPClient whose connection is a real IOStream on a
FakeSocket; reference = mc.httph.read_responses (+ stdlib zlib)."""
import gzip
import io
import zlib

from mc.core import Check, h
from mc import enum as en
from mc.clienth import make_client, response_summary
from mc.httph import read_responses
from mc.vloop import World

MAXBODY = 64


def gz(data):
    buf = io.BytesIO()
    with gzip.GzipFile(fileobj=buf, mode="wb", mtime=0, compresslevel=9) as f:
        f.write(data)
    return buf.getvalue()


def resp(status=b"HTTP/1.1 200 OK", headers=(b"X-H: 1", b"x-h: 2"), framing=(), body=b"", eol=b"\r\n", pre=b""):
    lines = [status] + list(headers) + list(framing)
    return pre + eol.join(lines) + eol + eol + body


def chunked(chunks, term=b"\r\n", last=b"0\r\n\r\n", fmt=None):
    out = b""
    for c in chunks:
        out += (fmt or (lambda n: b"%x" % n))(len(c)) + b"\r\n" + c + term
    return out + last


TE = (b"Transfer-Encoding: chunked",)
GZ = gz(b"hello hello hello hello")
BOMB = gz(b"A" * 5000)


def inputs():
    """(label, bytes, verdict_override) verdict_override in None/'either'."""
    v = []
    add = lambda label, data, ov=None: v.append((label, data, ov))
    add("cl", resp(framing=(b"Content-Length: 5",), body=b"hello"))
    add("cl0", resp(framing=(b"Content-Length: 0",)))
    add("cl-extra", resp(framing=(b"Content-Length: 5",), body=b"helloXYZ"))
    add("cl-short", resp(framing=(b"Content-Length: 9",), body=b"hello"))
    add("cl-two-equal", resp(framing=(b"Content-Length: 5", b"Content-Length: 5"), body=b"hello"))
    add("cl-two-differ", resp(framing=(b"Content-Length: 5", b"Content-Length: 6"), body=b"hello!"))
    add("cl-list", resp(framing=(b"Content-Length: 5, 5",), body=b"hello"), "either")
    for bad in (b"+5", b"5x", b"0x5", b"", b"-1", b"5 5", b"\xd9\xa5"):
        add("cl-bad:%r" % bad, resp(framing=(b"Content-Length: " + bad,), body=b"hello"))
    add("cl-big", resp(framing=(b"Content-Length: 65",), body=b"x" * 65))
    add("cl-max", resp(framing=(b"Content-Length: 64",), body=b"x" * 64))
    add("chunked", resp(framing=TE, body=chunked([b"hel", b"lo"])))
    add("chunked-empty", resp(framing=TE, body=chunked([])))
    add("chunked-upper", resp(framing=(b"transfer-encoding: CHUNKED",), body=chunked([b"0123456789abcdef"], fmt=lambda n: b"%X" % n)))
    add("chunked-max", resp(framing=TE, body=chunked([b"x" * 32, b"y" * 32])))
    add("chunked-over", resp(framing=TE, body=chunked([b"x" * 32, b"y" * 33])))
    add("chunked-ext", resp(framing=TE, body=chunked([b"hello"], fmt=lambda n: b"%x;a=b" % n)), "either")
    add("chunked-trailers", resp(framing=TE, body=chunked([b"hello"], last=b"0\r\nX-T: 1\r\n\r\n")), "either")
    for label, body in (("space", chunked([b"hello"], fmt=lambda n: b" %x" % n)),
                        ("0x", chunked([b"hello"], fmt=lambda n: b"0x%x" % n)),
                        ("neg", chunked([b"hello"], fmt=lambda n: b"-%x" % n)),
                        ("empty", chunked([b"hello"], fmt=lambda n: b"")),
                        ("term-XX", chunked([b"hello"], term=b"XX")),
                        ("term-none", chunked([b"hello"], term=b"")),
                        ("final-XX", chunked([b"hello"], last=b"0\r\nXX")),
                        ("truncated", chunked([b"hello"])[:-4]),
                        ("truncated-data", b"5\r\nhel")):
        add("chunked-bad:" + label, resp(framing=TE, body=body))
    add("chunked-lf", resp(framing=TE, body=b"5\nhello\n0\n\n"), "either")
    add("cl+te", resp(framing=(b"Content-Length: 5",) + TE, body=chunked([b"hello"])))
    add("te-gzip", resp(framing=(b"Transfer-Encoding: gzip",), body=b"hello"))
    add("te-list", resp(framing=(b"Transfer-Encoding: gzip, chunked",), body=chunked([b"hello"])))
    add("close-delimited", resp(body=b"hello world"))
    add("close-delimited-empty", resp())
    add("close-delimited-max", resp(body=b"z" * 64))
    add("close-delimited-over", resp(body=b"z" * 65))
    add("close-delimited-far-over", resp(body=b"z" * 500))
    add("http10", resp(status=b"HTTP/1.0 200 OK", body=b"old"))
    for code in (b"204 No Content", b"304 Not Modified"):
        add("nobody:%s" % code[:3], resp(status=b"HTTP/1.1 " + code))
        add("nobody:%s:cl0" % code[:3], resp(status=b"HTTP/1.1 " + code, framing=(b"Content-Length: 0",)))
        add("nobody:%s:cl5-nobody" % code[:3], resp(status=b"HTTP/1.1 " + code, framing=(b"Content-Length: 5",)), "either")
        add("nobody:%s:cl5-body" % code[:3], resp(status=b"HTTP/1.1 " + code, framing=(b"Content-Length: 5",), body=b"hello"), "either")
        add("nobody:%s:te" % code[:3], resp(status=b"HTTP/1.1 " + code, framing=TE, body=chunked([b"hello"])), "either")
        add("nobody:%s:extra" % code[:3], resp(status=b"HTTP/1.1 " + code, body=b"junk"), "either")
    add("404", resp(status=b"HTTP/1.1 404 Not Found", framing=(b"Content-Length: 2",), body=b"no"))
    add("500-chunked", resp(status=b"HTTP/1.1 500 Oops", framing=TE, body=chunked([b"err"])))
    final = resp(framing=(b"Content-Length: 2",), body=b"ok")
    add("interim1", resp(status=b"HTTP/1.1 100 Continue", headers=()) + final)
    add("interim2", resp(status=b"HTTP/1.1 100 Continue", headers=()) + resp(status=b"HTTP/1.1 102 Processing", headers=(b"X-I: 1",)) + final)
    # RFC 9110 8.6: a server MUST NOT send Content-Length in a 1xx response; a reader may refuse or ignore it
    add("interim-cl0", resp(status=b"HTTP/1.1 100 Continue", headers=(), framing=(b"Content-Length: 0",)) + final, "either")
    add("interim-cl", resp(status=b"HTTP/1.1 100 Continue", headers=(), framing=(b"Content-Length: 3",), body=b"abc") + final)
    add("interim-te", resp(status=b"HTTP/1.1 100 Continue", headers=(), framing=TE, body=chunked([b"a"])) + final)
    for code in (b"103 Early Hints", b"104 Upload Resumption Supported", b"199 Whatever", b"110 X"):
        add("interim:%s" % code[:3].decode(), resp(status=b"HTTP/1.1 " + code, headers=(b"X-I: 0",)) + final)
    add("interim:100+104", resp(status=b"HTTP/1.1 100 Continue", headers=())
        + resp(status=b"HTTP/1.1 104 Upload Resumption Supported", headers=()) + final)
    # a redirect that is not followed (budget used up) is an ordinary response: its body belongs to the caller
    LOC = (b"Location: http://srv.example/next",)
    add("3xx:302-cl", resp(status=b"HTTP/1.1 302 Found", headers=LOC, framing=(b"Content-Length: 5",), body=b"moved"))
    add("3xx:301-chunked", resp(status=b"HTTP/1.1 301 Moved", headers=LOC, framing=TE, body=chunked([b"mo", b"ved"])))
    add("3xx:307-close", resp(status=b"HTTP/1.1 307 Temporary Redirect", headers=LOC, body=b"moved"))
    # an interim response followed by a final response the reader must refuse
    I100 = resp(status=b"HTTP/1.1 100 Continue", headers=())
    add("interim+bad-status", I100 + resp(status=b"HTTP/1.1 2x0 OK", framing=(b"Content-Length: 2",), body=b"ok"))
    add("interim+bad-cl", I100 + resp(framing=(b"Content-Length: 5x",), body=b"hello"))
    add("interim+cl+te", I100 + resp(framing=(b"Content-Length: 5",) + TE, body=chunked([b"hello"])))
    add("interim+truncated-head", I100 + resp(framing=(b"Content-Length: 2",), body=b"ok")[:30])
    add("interim+short-body", I100 + resp(framing=(b"Content-Length: 9",), body=b"hello"))
    add("interim-only", resp(status=b"HTTP/1.1 100 Continue", headers=()))
    for sl in (b"HTTP/1.1 200 ", b"HTTP/1.1 200", b"HTTP/1.1 20 OK", b"HTTP/1.1 2000 OK", b"HTTP/2.0 200 OK",
               b"HTTP/1.1  200 OK", b"http/1.1 200 OK", b"HTTP/1.1 200 OK\x00", b"ICY 200 OK", b"", b"HTTP/1.1 2x0 OK",
               b"HTTP/1.1\t200\tOK", b"HTTP/1.1 200 caf\xe9"):
        add("status:%r" % sl, resp(status=sl, framing=(b"Content-Length: 2",), body=b"ok"))
    add("eol-lf", resp(framing=(b"Content-Length: 2",), body=b"ok", eol=b"\n"), "either")
    add("fold", resp(headers=(b"X-H: 1", b"  more"), framing=(b"Content-Length: 2",), body=b"ok"), ("fold", "1 more"))
    for lab, cont, want in (("nbsp", b" 2\xa0", "1 2\xa0"), ("nel-lead", b" \x852", "1 \x852"), ("ff", b" 2\x0c", "reject"),
                            ("vt-lead", b" \x0b2", "reject"), ("us", b" 2\x1f", "reject"), ("cr", b" 2\r", "reject")):
        add("fold:" + lab, resp(headers=(b"X-H: 1", cont), framing=(b"Content-Length: 2",), body=b"ok"), ("fold", want))
    add("leading-blank", resp(framing=(b"Content-Length: 2",), body=b"ok", pre=b"\r\n"), "either")
    add("hdr-no-colon", resp(headers=(b"X-H 1",), framing=(b"Content-Length: 2",), body=b"ok"))
    add("hdr-space-colon", resp(headers=(b"X-H : 1",), framing=(b"Content-Length: 2",), body=b"ok"))
    add("hdr-nul", resp(headers=(b"X-H: a\x00b",), framing=(b"Content-Length: 2",), body=b"ok"))
    add("hdr-obs-text", resp(headers=(b"X-H: \xe9",), framing=(b"Content-Length: 2",), body=b"ok"))
    add("truncated-head", resp(framing=(b"Content-Length: 2",), body=b"ok")[:30])
    add("empty-stream", b"")
    # gzip
    GH = (b"Content-Encoding: gzip",)
    add("gzip-cl", resp(headers=GH, framing=(b"Content-Length: %d" % len(GZ),), body=GZ))
    add("gzip-chunked", resp(headers=GH, framing=TE, body=chunked([GZ[:10], GZ[10:]])))
    add("gzip-close", resp(headers=GH, body=GZ))
    add("gzip-upper", resp(headers=(b"content-encoding: GZIP",), framing=(b"Content-Length: %d" % len(GZ),), body=GZ))
    add("gzip-truncated", resp(headers=GH, framing=(b"Content-Length: %d" % (len(GZ) - 6),), body=GZ[:-6]))
    add("gzip-truncated-hard", resp(headers=GH, framing=(b"Content-Length: 12",), body=GZ[:12]))
    add("gzip-corrupt", resp(headers=GH, framing=(b"Content-Length: %d" % len(GZ),), body=GZ[:12] + b"\xff\xff" + GZ[14:]))
    add("gzip-garbage-after", resp(headers=GH, framing=(b"Content-Length: %d" % (len(GZ) + 4),), body=GZ + b"JUNK"))
    add("gzip-two-members", resp(headers=GH, framing=(b"Content-Length: %d" % (2 * len(GZ)),), body=GZ + GZ), "either")
    add("gzip-notgzip", resp(headers=GH, framing=(b"Content-Length: 5",), body=b"hello"))
    add("gzip-bomb", resp(headers=GH, framing=(b"Content-Length: %d" % len(BOMB),), body=BOMB))
    add("gzip-exact-max", resp(headers=GH, framing=TE, body=chunked([gz(b"q" * 64)])))
    add("gzip-over-max", resp(headers=GH, framing=TE, body=chunked([gz(b"q" * 65)])))
    add("gzip-empty-body", resp(headers=GH, framing=(b"Content-Length: 0",)), "either")
    # responses that cannot have a body but announce a content coding
    add("gzip-head-only", resp(headers=GH, framing=(b"Content-Length: %d" % len(GZ),)))
    add("gzip-304", resp(status=b"HTTP/1.1 304 Not Modified", headers=GH))
    add("gzip-304-cl", resp(status=b"HTTP/1.1 304 Not Modified", headers=GH, framing=(b"Content-Length: %d" % len(GZ),)))
    add("gzip-204", resp(status=b"HTTP/1.1 204 No Content", headers=GH))
    # a header line ending in CR CR LF
    add("eol:crcrlf-header", resp(headers=(b"X-H: 1\r",), framing=(b"Content-Length: 5",), body=b"hello"))
    add("eol:crcrlf-cl", resp(framing=(b"Content-Length: 5\r",), body=b"hello"))
    add("eol:crcrlf-te", resp(framing=(b"Transfer-Encoding: chunked\r",), body=chunked([b"hello"])))
    add("eol:crcrlf-status", resp(status=b"HTTP/1.1 200 OK\r", framing=(b"Content-Length: 5",), body=b"hello"))
    add("deflate", resp(headers=(b"Content-Encoding: deflate",), framing=(b"Content-Length: 5",), body=b"hello"))
    return v


def gunzip_strict(data):
    """-> ('ok', bytes) | ('truncated',) | ('corrupt',) | ('garbage', bytes)"""
    d = zlib.decompressobj(16 + zlib.MAX_WBITS)
    try:
        out = d.decompress(data)
        out += d.flush()
    except zlib.error:
        return ("corrupt",)
    if not d.eof:
        return ("truncated",)
    if d.unused_data:
        return ("garbage", out)
    return ("ok", out)


def reference(data, method, decompress):
    """-> ('accept', code, headers(dict lower->list), body) | ('reject', why) | ('either', why)"""
    rs, probs = read_responses(data, [method], True)
    extra = [p for p in probs if "unexpected bytes after the last response" in p]
    hard = [p for p in probs if p not in extra]
    if hard or len(rs) != 1:
        return ("reject", (hard or ["no response"])[0][:40])
    r = rs[0]
    if extra:
        return ("either", "bytes-after-complete-message")
    hdrs = {}
    for k, v in r.headers:
        hdrs.setdefault(k.decode("latin1").lower(), []).append(v.decode("latin1"))
    body = r.body
    if decompress and method != "HEAD" and r.code not in (204, 304):
        ce = b",".join(r.get_all("content-encoding")).lower()
        if ce == b"gzip":
            g = gunzip_strict(body)
            if g[0] == "ok":
                body = g[1]
            elif g[0] == "garbage":
                return ("either", "bytes-after-gzip-trailer")
            else:
                return ("reject", "gzip-" + g[0])
    if len(body) > MAXBODY:
        return ("reject", "body-over-max_body_size")
    return ("accept", r.code, hdrs, body)


def execute(data, segs, method, decompress, streaming, timeouts, maxbody=None):
    from tornado.httpclient import HTTPRequest
    chunks = []
    with World() as w:
        client = make_client(w, max_body_size=MAXBODY if maxbody is None else maxbody)
        kw = dict(method=method, decompress_response=decompress, max_redirects=0)
        if streaming:
            kw["streaming_callback"] = chunks.append
        if not timeouts:
            kw.update(connect_timeout=0, request_timeout=0)
        fut = client.fetch(HTTPRequest("http://srv.example/x", **kw), raise_error=False)
        w.pump()
        conn = client.tcp_client.conns[0]
        sock = conn["sock"]
        for s in segs:
            sock.feed(s)
            w.pump()
        sock.feed_eof()
        w.pump()
        needed_timer = False
        if not fut.done():
            needed_timer = True
            w.run_all_timers(10)
            w.pump()
        res = response_summary(fut)
        logs = [(r[0], r[1], r[2][:60], r[3]) for r in w.logs.records if r[1] in ("ERROR", "CRITICAL")]
        errs = [str(c.get("message"))[:80] for c in w.loop_errors()]
        closed = sock.closed
        client.close()
    return res, b"".join(chunks), needed_timer, logs, errs, closed


def judge(label, ov, data, method, decompress, streaming, timeouts, obs):
    res, streamed, needed_timer, logs, errs, closed = obs
    bad = []
    ref = reference(data, method, decompress)
    fold = None
    if isinstance(ov, tuple) and ov[0] == "fold":
        # obs-fold: the client may refuse it; if it accepts, the value is the unfolded one (only SP / HTAB trimmed),
        # and a folded line with a character that no field value may contain must not be accepted
        fold = ov[1]
        ov = "either"
    if ov == "either":
        # classes where the strict reader and a lenient-but-correct client may differ
        ref = ("either", "designated:" + label.split(":")[0])
    if fold is not None and res[0] == "ok":
        if fold == "reject":
            bad.append(("accepted-rejected-stream:fold-with-bad-char", "folded header line with a control character accepted: "
                        "headers %r" % (res[3].get("x-h"),)))
        elif res[3].get("x-h") != [fold]:
            bad.append(("headers:fold", "folded header X-H read as %r, expected %r" % (res[3].get("x-h"), [fold])))
    if res[0] == "pending":
        bad.append(("never-completes", "fetch still pending after EOF and all timers"))
        return bad, ref
    if res[0] in ("raised", "cancelled"):
        bad.append(("fetch-future-" + res[0], "fetch(raise_error=False) future: %r" % (res,)))
        return bad, ref
    if needed_timer:
        bad.append(("completed-only-by-timeout:" + ("timeouts-on" if timeouts else "timeouts-off"),
                    "after the whole stream and EOF the fetch was still pending; result after timers %r" % (res[:3],)))
    if res[0] == "ok":
        body = streamed if streaming else (res[4] or b"")
        if len(body) > MAXBODY:
            bad.append(("delivered-over-max_body_size", "%d body bytes delivered, max_body_size %d" % (len(body), MAXBODY)))
        # whatever the verdict class: a response to HEAD and a 204/304 never carries a body
        if body and (method == "HEAD" or res[1] in (204, 304)):
            bad.append(("body-on-bodiless-response", "fetch returned code %r (method %s) with body %r" % (res[1], method, body[:30])))
        if ref[0] == "reject":
            bad.append(("accepted-rejected-stream:" + ref[1].split(" ")[0].split(":")[0],
                        "reference rejects (%s) but fetch returned %r body %r" % (ref[1], res[1], body[:30])))
        elif ref[0] == "accept":
            if res[1] != ref[1]:
                bad.append(("code", "code %r, reference %r" % (res[1], ref[1])))
            if body != ref[3]:
                bad.append(("body", "body %r, reference %r" % (body[:40], ref[3][:40])))
            for k in ("x-h", "x-i"):
                if res[3].get(k, []) != ref[2].get(k, []):
                    bad.append(("headers", "header %s %r, reference %r" % (k, res[3].get(k), ref[2].get(k))))
    else:
        if ref[0] == "accept":
            bad.append(("rejected-valid-stream", "reference accepts (code %r, %d bytes) but fetch failed with %r"
                        % (ref[1], len(ref[3]), res[1:3])))
        if streaming and len(streamed) > MAXBODY:
            bad.append(("delivered-over-max_body_size", "%d body bytes streamed before the error" % len(streamed)))
    if not closed:
        bad.append(("socket-left-open", "connection not closed after the fetch completed"))
    for l in logs:
        bad.append(("error-log:%s" % (l[3] or l[2][:20]), "log %r" % (l,)))
        break
    if errs:
        bad.append(("loop-exception", repr(errs[:2])))
    return bad, ref


CONFIGS = [(m, d, s, t) for m in ("GET", "HEAD") for d in (False, True) for s in (False, True) for t in (True, False)]


class C08(Check):
    id = "C08"
    level = "model_checking"
    rule = ("~110 response streams from a grammar (status-line variants, Content-Length / chunked / close-delimited / "
            "truncated bodies, chunk-syntax variants, 1xx interim responses with and without framing headers, 204/304, "
            "header syntax variants, gzip valid / truncated / corrupt / trailing garbage / bomb) x {GET, HEAD} x "
            "decompress_response x streaming_callback x {default timeouts, no timeouts} x every single cut of the "
            "stream plus byte-at-a-time, EOF at the end; state = (input, config, segmentation) execution; "
            "non-trivial = inputs the reference does not plainly accept, or segmented executions")
    claim = ("fetch() on the real client must return exactly (code, selected headers, body) of the strict reference "
             "reader when it accepts, an error when it rejects, never more than max_body_size body bytes (buffered or "
             "streamed, after decompression), identically for every segmentation, complete without the help of a "
             "timeout once the stream has ended, close its socket and log nothing at ERROR.")
    technique = "exhaustive enumeration of a response grammar x client options x segmentations on the real code vs a strict reference reader"
    assumptions = ["EITHER: bytes after a complete message or gzip trailer, bare-LF line ends, obs-fold, a leading blank line, "
                   "chunk extensions / trailers, 204/304 carrying framing headers or bytes, list-valued Content-Length"]

    def partitions(self, tier):
        return [(i, 64) for i in range(64)]

    def run_partition(self, part, tier, st):
        s, nsl = part
        k = 0
        for label, data, ov in inputs():
            for cfg in CONFIGS:
                k += 1
                if k % nsl != s:
                    continue
                self.run_case(label, data, ov, cfg, tier, st)
        if s == 0:
            self.run_zero_limit(st)

    def run_zero_limit(self, st):
        """max_body_size=0 is a limit (no body bytes at all), not 'unset'."""
        want_labels = ("cl", "cl0", "chunked", "gzip-cl", "gzip-empty-body")
        for label, data, ov in inputs():
            if label not in want_labels and not (label == "cl-max"):
                continue
            for decompress in (False, True):
                for streaming in (False, True):
                    obs = execute(data, [data], "GET", decompress, streaming, True, maxbody=0)
                    st.ev()
                    key = h(("maxbody0", label, decompress, streaming))
                    st.states.add(key)
                    st.nontrivial.add(key)
                    ref = reference(data, "GET", False)
                    res, streamed = obs[0], obs[1]
                    body_len = len(ref[3]) if ref[0] == "accept" else None
                    if res[0] == "ok":
                        got = streamed if streaming else (res[4] or b"")
                        if got or body_len:
                            st.violation("max_body_size-0:body-delivered", "input %s with max_body_size=0: fetch returned %r with %d "
                                         "body bytes (wire body %r bytes)" % (label, res[1], len(got), body_len),
                                         {"label": label, "cfg": ["GET", decompress, streaming, True], "segs": [len(data)], "maxbody": 0})
                    elif body_len == 0 and ov != "either":
                        st.violation("max_body_size-0:empty-body-refused", "input %s (empty body) refused with max_body_size=0: %r"
                                     % (label, res[:3]), {"label": label, "cfg": ["GET", decompress, streaming, True],
                                                          "segs": [len(data)], "maxbody": 0})
                    if streaming and streamed and res[0] != "ok":
                        st.violation("max_body_size-0:bytes-streamed-before-error", "input %s: %d bytes streamed with max_body_size=0"
                                     % (label, len(streamed)), {"label": label, "cfg": ["GET", decompress, streaming, True],
                                                                "segs": [len(data)], "maxbody": 0})

    def run_case(self, label, data, ov, cfg, tier, st):
        method, decompress, streaming, timeouts = cfg
        segs_list = [[data]]
        if timeouts and len(data) > 1:
            step = 1 if tier == "thorough" else 3
            segs_list += [en.segments(data, (c,)) for c in range(1, len(data), step)]
            segs_list.append([data[i:i + 1] for i in range(len(data))])
        base = None
        for segs in segs_list:
            obs = execute(data, segs, *cfg)
            st.ev()
            st.transitions += len(segs) + 1
            key = h((label, cfg, tuple(len(x) for x in segs)))
            st.states.add(key)
            bad, ref = judge(label, ov, data, method, decompress, streaming, timeouts, obs)
            if ref[0] != "accept" or len(segs) > 1:
                st.nontrivial.add(key)
            if ref[0] == "either":
                st.note("either:" + ref[1])
            st.outcome(h((obs[0][:2], ref[0])))
            # what must not depend on segmentation: success vs failure, and on success the whole result
            # (bytes streamed before a failure may legitimately differ)
            summary = ("error",) if obs[0][0] != "ok" else (obs[0][1], obs[0][4], obs[1])
            if base is None:
                base = summary
                if len(st.samples) < 3 and ref[0] == "reject":
                    st.sample({"label": label, "config": cfg, "stream": data[:120].decode("latin1"), "reference": list(ref)[:2],
                               "result": repr(obs[0][:3])})
            elif summary != base:
                st.violation("segmentation-dependent:" + label.split(":")[0],
                             "input %s config %r: segmentation %r gives %r, unsegmented %r"
                             % (label, cfg, [len(x) for x in segs][:6], summary, base),
                             {"label": label, "cfg": cfg, "segs": [len(x) for x in segs]})
            for sig, msg in bad:
                st.violation(sig + (":gzip" if label.startswith("gzip") else ""),
                             "input %s (%r..) config method=%s decompress=%r streaming=%r timeouts=%r segmentation %r: %s"
                             % (label, data[:60], method, decompress, streaming, timeouts, [len(x) for x in segs][:6], msg),
                             {"label": label, "cfg": cfg, "segs": [len(x) for x in segs]})

    def replay(self, case):
        label = case["label"]
        data, ov = [(d, o) for l, d, o in inputs() if l == label][0]
        cfg = tuple(case["cfg"])
        segs, p = [], 0
        for n in case["segs"]:
            segs.append(data[p:p + n])
            p += n
        obs = execute(data, segs, *cfg, maxbody=case.get("maxbody"))
        bad, ref = judge(label, ov, data, cfg[0], cfg[1], cfg[2], cfg[3], obs)
        return "input %s %r\nconfig %r\nreference %r\nobserved %r\nverdict %r" % (label, data, cfg, ref, obs, bad)


CHECK = C08()
