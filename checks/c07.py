"""C07 Application data cannot inject header lines or split a response.

Shape I (pure input enumeration).  Every header-producing API of
RequestHandler (and the lower-level HTTPConnection.write_headers used by
HTTPServer callables) is called inside a real Application / HTTPServer on an
in-memory socket with every string up to the bound over an alphabet of
controls, separators and non-ASCII code points.  The oracle looks only at the
bytes on the wire, read by the strict RFC 9112 reader of mc.httph, and
compares them *structurally* with the response the same API produces for a
harmless twin argument ("zq"): the two may differ in the intended field only.
"""
import html
import itertools

from mc.core import Check
from mc import webout_c07 as wo

# DESIGN.md C07 alphabet: CR LF NUL SP HTAB : ; , " DEL 0x80 0xFF U+0100 U+2028 a
ALPHA_STR = ["\r", "\n", "\x00", " ", "\t", ":", ";", ",", '"', "\x7f", "\x80", "\xff",
             "\u0100", "\u2028", "a"]
ALPHA_BYTES = [c.encode("latin-1") for c in ALPHA_STR if ord(c) < 256]
TWIN = "zq"
REQ1 = wo.request(b"/t")
REQ2 = wo.request(b"/ok")


class Slot:
    def __init__(self, id, kind, call, typ="str", mode="web", finishes=False, value_free=False, twin_call=None):
        self.id, self.kind, self.call, self.typ = id, kind, call, typ
        self.twin_call = twin_call      # how the harmless twin reaches the same field when this slot refuses every string
        self.mode, self.finishes, self.value_free = mode, finishes, value_free
        # violation signature family: one defect = one signature
        fam = id.replace("[bytes]", "")
        if fam.startswith("set_cookie.kwargs."):
            fam = "set_cookie.kwargs"
        elif kind.startswith("ck.attr:"):
            fam = "cookie.attribute-argument"
        elif kind == "ck.name":
            fam = "cookie.name"
        self.family = fam


def _raise_http_error(h, x):
    from tornado.web import HTTPError
    raise HTTPError(400, reason=x)


def _raw(reason="OK", name="X-T", value="v"):
    from tornado.httputil import HTTPHeaders, ResponseStartLine
    return (ResponseStartLine("HTTP/1.1", 200, reason),
            HTTPHeaders({"Content-Length": "4", name: value}))


SLOTS = [
    Slot("set_header.name", "hname", lambda h, x: h.set_header(x, "v")),
    Slot("add_header.name", "hname", lambda h, x: h.add_header(x, "v")),
    Slot("set_header.value", "hvalue:x-t", lambda h, x: h.set_header("X-T", x)),
    Slot("set_header.value[bytes]", "hvalue:x-t", lambda h, x: h.set_header("X-T", x), "bytes"),
    Slot("add_header.value", "hvalue:x-t", lambda h, x: h.add_header("X-T", x)),
    Slot("add_header.value[bytes]", "hvalue:x-t", lambda h, x: h.add_header("X-T", x), "bytes"),
    Slot("set_status.reason", "reason", lambda h, x: h.set_status(200, x)),
    Slot("HTTPError.reason", "reason+body", _raise_http_error, finishes=True),
    Slot("send_error.reason", "reason+body", lambda h, x: h.send_error(400, reason=x),
         finishes=True),
    Slot("redirect.url", "hvalue:location", lambda h, x: h.redirect(x), finishes=True),
    Slot("redirect.url[bytes]", "hvalue:location", lambda h, x: h.redirect(x), "bytes",
         finishes=True),
    Slot("set_cookie.name", "ck.name", lambda h, x: h.set_cookie(x, "v")),
    Slot("set_cookie.name[bytes]", "ck.name", lambda h, x: h.set_cookie(x, "v"), "bytes"),
    Slot("set_cookie.value", "ck.value", lambda h, x: h.set_cookie("a", x)),
    Slot("set_cookie.value[bytes]", "ck.value", lambda h, x: h.set_cookie("a", x), "bytes"),
    Slot("set_cookie.domain", "ck.attr:domain", lambda h, x: h.set_cookie("a", "v", domain=x)),
    Slot("set_cookie.path", "ck.attr:path", lambda h, x: h.set_cookie("a", "v", path=x)),
    Slot("set_cookie.samesite", "ck.attr:samesite",
         lambda h, x: h.set_cookie("a", "v", samesite=x)),
    Slot("set_cookie.kwargs.Domain", "ck.attr:domain",
         lambda h, x: h.set_cookie("a", "v", Domain=x)),
    Slot("set_cookie.kwargs.Path", "ck.attr:path", lambda h, x: h.set_cookie("a", "v", Path=x)),
    Slot("set_cookie.kwargs.SameSite", "ck.attr:samesite",
         lambda h, x: h.set_cookie("a", "v", SameSite=x)),
    Slot("set_cookie.kwargs.Expires", "ck.attr:expires",
         lambda h, x: h.set_cookie("a", "v", Expires=x)),
    Slot("set_cookie.expires[str]", "ck.attr:expires", lambda h, x: h.set_cookie("a", "v", expires=x),
         twin_call=lambda h, x: h.set_cookie("a", "v", Expires=x)),
    Slot("set_cookie.max_age[str]", "ck.attr:max-age", lambda h, x: h.set_cookie("a", "v", max_age=x)),
    Slot("set_cookie.kwargs.Max-Age", "ck.attr:max-age",
         lambda h, x: h.set_cookie("a", "v", **{"Max-Age": x})),
    Slot("clear_cookie.name", "ck.name", lambda h, x: h.clear_cookie(x)),
    Slot("clear_cookie.domain", "ck.attr:domain", lambda h, x: h.clear_cookie("a", domain=x)),
    Slot("clear_cookie.path", "ck.attr:path", lambda h, x: h.clear_cookie("a", path=x)),
    Slot("set_signed_cookie.name", "ck.name", lambda h, x: h.set_signed_cookie(x, "v"),
         value_free=True),
    Slot("conn.write_headers.reason", "reason", lambda x: _raw(reason=x), mode="raw"),
    Slot("conn.write_headers.name", "hname", lambda x: _raw(name=x), mode="raw"),
    Slot("conn.write_headers.value", "hvalue:x-t", lambda x: _raw(value=x), mode="raw"),
]
SLOT_BY_ID = {s.id: s for s in SLOTS}


def wrap(slot, form, s):
    if form == "alone":
        return s
    return (b"ok" + s + b"ok") if slot.typ == "bytes" else ("ok" + s + "ok")


def twin_of(slot, form):
    return wrap(slot, form, TWIN.encode() if slot.typ == "bytes" else TWIN)


# additionally every string one symbol longer than the full-alphabet bound over this core
CORE_STR = ["\r", "\n", "\x00", ":", ";", "\u0100", "a", " "]
CORE_BYTES = [b"\r", b"\n", b"\x00", b":", b";", b"\xff", b"a", b" "]


def strings(slot, maxlen, core_len=0):
    alpha = ALPHA_BYTES if slot.typ == "bytes" else ALPHA_STR
    core = CORE_BYTES if slot.typ == "bytes" else CORE_STR
    empty = b"" if slot.typ == "bytes" else ""
    for k in range(0, maxlen + 1):
        for t in itertools.product(alpha, repeat=k):
            yield empty.join(t)
    for k in range(maxlen + 1, core_len + 1):
        for t in itertools.product(core, repeat=k):
            yield empty.join(t)


# ------------------------------------------------------------ applications
class Box:
    def __init__(self):
        self.case = None      # (slot, x) | "raise"
        self.rec = []


def build_web_app(box):
    import tornado.web

    class T(tornado.web.RequestHandler):
        def get(self):
            if box.case == "raise":
                raise ValueError("twin of a rejected call")
            slot, x = box.case
            try:
                if slot.finishes:
                    box.rec.append("ok")      # the call itself produces the response
                slot.call(self, x)
                if not slot.finishes:
                    box.rec.append("ok")
            except tornado.web.HTTPError:
                raise
            except Exception as e:
                box.rec[:] = [type(e).__name__]
                raise
            if not slot.finishes:
                self.write("BODY")

    class OK(tornado.web.RequestHandler):
        def get(self):
            self.write("OK2")

    return tornado.web.Application([("/t", T), ("/ok", OK)], cookie_secret="c07-secret")


def build_raw_app(box):
    from tornado.httputil import HTTPHeaders, ResponseStartLine

    def app(request):
        conn = request.connection
        if request.path == "/ok":
            conn.write_headers(ResponseStartLine("HTTP/1.1", 200, "OK"),
                               HTTPHeaders({"Content-Length": "3"}), b"OK2")
            conn.finish()
            return
        try:
            if box.case == "raise":
                raise ValueError("twin of a rejected call")
            slot, x = box.case
            start, headers = slot.call(x)
            conn.write_headers(start, headers, b"BODY")
            box.rec.append("ok")
        except Exception as e:
            # the application sees the rejection and answers something safe
            box.rec[:] = [type(e).__name__]
            conn.write_headers(ResponseStartLine("HTTP/1.1", 500, "Rejected"),
                               HTTPHeaders({"Content-Length": "0"}))
        conn.finish()

    return app


# ------------------------------------------------------------------ oracle
class Observation:
    """What one case did on the wire."""

    def __init__(self, outs, closed, errors, rec):
        self.outs, self.closed, self.errors, self.rec = outs, closed, errors, rec
        self.r1, self.p1 = wo.read_responses(outs[0], ["GET"], closed and not outs[1])
        self.r1 = self.r1[0] if self.r1 else None


def observe(app, box, case):
    box.case, box.rec = case, []
    outs, closed, errors = wo.exchange(app, [REQ1, REQ2])
    return Observation(outs, closed, errors, list(box.rec))


def locate(r0, slot, x0):
    """Index of the one header line of the twin response that carries the
    application-supplied item (None for the status line)."""
    kind = slot.kind
    if kind.startswith("reason"):
        return None
    if kind == "hname":
        want = x0.lower().encode()
        idx = [i for i, (n, v) in enumerate(r0.headers) if n.lower() == want]
    elif kind.startswith("hvalue:"):
        want = kind.split(":", 1)[1].encode()
        x0b = x0 if isinstance(x0, bytes) else x0.encode()
        idx = [i for i, (n, v) in enumerate(r0.headers) if n.lower() == want and v == x0b]
    else:
        idx = [i for i, (n, v) in enumerate(r0.headers) if n.lower() == b"set-cookie"]
    if len(idx) != 1:
        raise AssertionError("twin response of %s does not carry exactly one intended line: %r"
                             % (slot.id, r0.headers))
    return idx[0]


def same_as_rejection(r, rr, notes):
    """Is r the error response an application exception produces (cookies set
    before the error are documented to survive clear())?"""
    hs = [(n, v) for n, v in r.headers if n.lower() != b"set-cookie"]
    if (r.code, r.reason, r.body) != (rr.code, rr.reason, rr.body) or hs != rr.headers:
        return False
    if len(hs) != len(r.headers):
        notes.append("either:cookie-survives-error-page")
    return True


def compare(slot, x, x0, r, r0, notes):
    """Structural comparison of the accepted response r with the twin r0.
    -> None | (symptom, detail)."""
    kind = slot.kind
    empty = len(x) == 0
    opts = wo.enc_options(x)
    if r.code != r0.code:
        return "status-code-differs", "%r vs twin %r" % (r.code, r0.code)
    reason_str = None
    if kind.startswith("reason"):
        std = {b"Unknown", b"Bad Request", b"OK"}
        if r.reason in opts and not empty:
            reason_str = x
        elif r.reason in std:
            notes.append("either:reason-replaced-by-standard-phrase")
            reason_str = r.reason.decode()
        elif empty and r.reason == b"":
            reason_str = ""
        else:
            return "status-line-differs", "reason %r, passed %r" % (r.reason, x)
    elif r.reason != r0.reason:
        return "status-line-differs", "reason %r vs twin %r" % (r.reason, r0.reason)
    if kind == "reason+body":
        want = html.unescape(r0.body.decode("utf-8")).replace(x0, reason_str)
        try:
            got = html.unescape(r.body.decode("utf-8"))
        except UnicodeDecodeError:
            got = None
        if got != want:
            return "body-differs", "body %r, expected text %r" % (r.body, want)
    elif r.body != r0.body:
        return "body-differs", "body %r vs twin %r" % (r.body, r0.body)

    idx = locate(r0, slot, x0)
    got_h, twin_h = list(r.headers), list(r0.headers)
    if len(got_h) != len(twin_h):
        return ("extra-header-line" if len(got_h) > len(twin_h) else "header-line-missing",
                "%d header lines, twin has %d: %r" % (len(got_h), len(twin_h), got_h))
    for i, ((n, v), (n0, v0)) in enumerate(zip(got_h, twin_h)):
        if i != idx:
            if n.lower() == b"content-length" and kind == "reason+body":
                continue          # framing already verified by the reader
            if (n, v) != (n0, v0):
                return "header-lines-differ", "line %d is %r, twin has %r" % (i, (n, v), (n0, v0))
            continue
        if kind == "hname":
            if v != v0 or n.lower() not in {o.lower() for o in opts}:
                return "header-lines-differ", "line %r, intended name %r value %r" % ((n, v), x, v0)
        elif kind.startswith("hvalue:"):
            if n != n0 or v not in wo.trimmed(opts):
                return "header-lines-differ", "line %r, intended value %r" % ((n, v), x)
        else:
            if n != n0:
                return "header-lines-differ", "line %r vs twin %r" % ((n, v), (n0, v0))
            bad = compare_cookie(slot, x, v, v0, notes)
            if bad:
                return bad
    return None


def compare_cookie(slot, x, v, v0, notes):
    kind = slot.kind
    opts = wo.trimmed(wo.enc_options(x))
    name, val, attrs = wo.ua_parse_set_cookie(v)
    name0, val0, attrs0 = wo.ua_parse_set_cookie(v0)
    attrs.sort(key=lambda a: a[0])
    attrs0.sort(key=lambda a: a[0])
    want_attrs = attrs0
    ok_name = name == name0
    ok_val = val == val0 or slot.value_free
    if kind == "ck.name":
        ok_name = name in opts
    elif kind == "ck.value":
        xs = x.decode("latin-1") if isinstance(x, bytes) else x
        if wo.COOKIE_OCTETS.match(xs):
            # RFC 6265 4.1.1: cookie-value = *cookie-octet / DQUOTE *cookie-octet DQUOTE
            ok_val = val in opts or val in {b'"' + o + b'"' for o in opts}
        else:
            # quoting / escaping of other octets is the serialiser's choice;
            # the attribute structure below is still asserted
            notes.append("either:cookie-value-quoting")
            ok_val = True
    else:
        a = kind.split(":", 1)[1].encode()
        if not any(o for o in opts):
            # empty attribute value = attribute not requested; absent or empty is fine
            attrs = [t for t in attrs if not (t[0] == a and not t[1])]
            want_attrs = [t for t in attrs0 if t[0] != a]
        else:
            want_attrs = None
            if len(attrs) == len(attrs0):
                want_attrs = []
                for t, t0 in zip(attrs, attrs0):
                    if t0[0] == a and t[0] == a and t[1] in opts:
                        want_attrs.append(t)
                    else:
                        want_attrs.append(t0)
    if not ok_name or not ok_val:
        return "cookie-pair-differs", "Set-Cookie %r: pair %r=%r, passed %r" % (v, name, val, x)
    if attrs != want_attrs:
        sym = ("cookie-attribute-injected" if len(attrs) > len(attrs0)
               else "cookie-attributes-differ")
        return sym, "Set-Cookie %r: attributes %r, twin has %r, passed %r" % (v, attrs, attrs0, x)
    return None


def legal(slot, x):
    """RFC view (only for the non-triviality statistic): may x appear in this
    position at all?"""
    xs = x.decode("latin-1") if isinstance(x, bytes) else x
    kind = slot.kind
    if kind in ("hname", "ck.name"):
        return bool(wo.TOKEN_STR.match(xs))
    ctl = any(ord(c) < 0x20 and c != "\t" or ord(c) == 0x7f for c in xs)
    if kind.startswith("ck.attr"):
        return not ctl and ";" not in xs and "\t" not in xs
    return not ctl


def judge(slot, form, x, x0, ob, twin, rej, st=None):
    """-> (verdict string, None | (symptom, detail))."""
    notes = []
    verdict, bad = _judge(slot, x, x0, ob, twin, rej, notes)
    if st is not None:
        for n in notes:
            st.note(n)
    return verdict, bad


def _judge(slot, x, x0, ob, twin, rej, notes):
    called_ok = ob.rec == ["ok"]
    where = "rejected:" + (ob.rec[0] if ob.rec else "?") if not called_ok else "accepted"
    # "No CR, LF or NUL byte ... inside the header block": raw scan, independent
    # of how far the reader gets
    head_lines = ob.outs[0].split(b"\r\n\r\n", 1)[0].split(b"\r\n")
    if any(c in ln for ln in head_lines for c in (b"\x00", b"\r", b"\n")):
        return where, ("ctl-on-wire", "; ".join(ob.p1)[:300])
    # DEL is not a field-vchar, but the statement only names CR/LF/NUL and the
    # line is otherwise the intended one: no verdict (EITHER), structure still compared
    xs = x.decode("latin-1") if isinstance(x, bytes) else x
    problems = list(ob.p1)
    if "\x7f" in xs:
        kept = [p for p in problems if not p.startswith("bad header value")]
        if len(kept) != len(problems):
            notes.append("either:DEL-in-field-value-on-wire")
        problems = kept
        if len(problems) == 1 and problems[0].startswith("bad status line") \
                and slot.kind.startswith("reason") and b"\x7f" in head_lines[0]:
            notes.append("either:DEL-in-reason-phrase-on-wire")
            return where, None
    if problems or ob.r1 is None:
        sym = wo.worst_problem(problems or ["missing response"])
        if sym == "no-response":
            if ob.closed:
                sym = "no-response-connection-dropped"
            elif ob.outs[1]:
                sym = "no-response-next-response-takes-its-place"
            else:
                sym = "no-response-connection-hangs"
        return where, (sym, "; ".join(problems)[:300])
    if ob.outs[1] != twin.outs[1]:
        return where, ("second-response-differs", "after the response: %r" % ob.outs[1][:120])
    if not called_ok:
        if same_as_rejection(ob.r1, rej.r1, notes):
            return where, None
        return where, ("rejected-call-leaves-trace", "response %r %r %r" % (
            ob.r1.code, ob.r1.headers, ob.r1.body[:80]))
    if ob.r1.code == rej.r1.code and ob.r1.code != twin.r1.code and \
            same_as_rejection(ob.r1, rej.r1, notes):
        notes.append("either:rejected-at-flush-with-clean-error-page")
        return "rejected-late", None
    return where, compare(slot, x, x0, ob.r1, twin.r1, notes)


class Context:
    """Per (slot, form): application, twin and rejection observations."""

    def __init__(self, slot, form):
        self.slot, self.form = slot, form
        self.box = Box()
        self.app = build_web_app(self.box) if slot.mode == "web" else build_raw_app(self.box)
        self.x0 = twin_of(slot, form)
        tslot = slot
        if slot.twin_call is not None:
            tslot = Slot(slot.id, slot.kind, slot.twin_call, slot.typ, slot.mode, slot.finishes, slot.value_free)
        self.twin = observe(self.app, self.box, (tslot, self.x0))
        self.rej = observe(self.app, self.box, "raise")
        for ob, what in ((self.twin, "twin"), (self.rej, "rejection twin")):
            if ob.p1 or ob.r1 is None or not ob.outs[1] or ob.closed:
                raise AssertionError("%s of %s is not a clean exchange: %r %r"
                                     % (what, slot.id, ob.p1, ob.outs))
        if self.twin.rec != ["ok"]:
            raise AssertionError("twin call of %s raised %r" % (slot.id, self.twin.rec))
        locate(self.twin.r1, slot, self.x0)

    def run(self, s, st=None):
        x = wrap(self.slot, self.form, s)
        ob = observe(self.app, self.box, (self.slot, x))
        verdict, bad = judge(self.slot, self.form, x, self.x0, ob, self.twin, self.rej, st)
        return x, ob, verdict, bad


class C07(Check):
    id = "C07"
    level = "exploration"
    design_ref = "DESIGN.md §2 C07"
    rule = ("every string of length <= 2 (quick) / <= 3 (thorough) over {CR LF NUL SP HTAB : ; , \" DEL "
            "0x80 0xFF U+0100 U+2028 a} (bytes slots: the 13 single-byte symbols), plus length 3 "
            "(quick) / 4 (thorough) over {CR LF NUL : ; U+0100 a SP}, each alone and embedded as ok<s>ok, "
            "through each of 32 API slots (set_header/add_header name+value str/bytes, set_status / "
            "HTTPError / send_error reason, redirect url, set_cookie name/value/domain/path/samesite/expires/max_age/"
            "legacy kwargs, clear_cookie, set_signed_cookie name, HTTPConnection.write_headers "
            "reason/name/value) in a real Application/HTTPServer; request followed by a second "
            "request on the same connection; wire bytes read by a strict RFC 9112 reader and "
            "compared structurally with the response for the harmless twin argument; non-trivial = "
            "distinct (slot, argument) whose argument is not legal in that position per RFC 9110/"
            "6265 (token / field-value / no ';'), i.e. a validator has to act")
    claim = ("Within the bound, no enumerated application string passed to any listed API can add, "
             "remove or alter a header line, the status line, the body or the following response, "
             "nor put CR/LF/NUL into the header block: each case is either rejected (exception at "
             "the call, or a clean error page) or differs from the harmless twin only in the "
             "intended field.")
    technique = ("bounded exhaustive enumeration of argument strings x API slots on the real "
                 "RequestHandler/HTTP1Connection code in an in-memory server, against a strict "
                 "client-side reader and a differential harmless-twin reference")
    assumptions = [
        "argument types follow the annotations (header names and reason phrases are str; bytes "
        "only where the signature or native_str/utf8 accepts them)",
        "str may reach the wire as latin-1 or UTF-8 (both accepted); quoting of cookie values "
        "outside RFC 6265 cookie-octets is the serialiser's choice (structure still asserted)",
        "set_status replacing an invalid reason by a standard phrase counts as rejection",
        "a cookie stored before the application exception may survive on the error page "
        "(documented clear() behaviour)",
        "HTTP/1.1 GET, no output transforms, default Application settings",
    ]

    def bound(self, tier):
        """(max length over the full alphabet, max length over the 7-symbol core)"""
        return (2, 3) if tier == "quick" else (3, 4)

    def shards(self, tier):
        return 1 if tier == "quick" else 6

    def partitions(self, tier):
        n = self.shards(tier)
        return [(i, form, k) for i in range(len(SLOTS)) for form in ("alone", "embedded")
                for k in range(n)]

    def run_partition(self, part, tier, st):
        i, form, shard = part
        slot = SLOTS[i]
        n = self.shards(tier)
        with wo.frozen_web_clock():
            ctx = Context(slot, form)
            for j, s in enumerate(strings(slot, *self.bound(tier))):
                if j % n != shard:
                    continue
                x, ob, verdict, bad = ctx.run(s, st)
                st.ev()
                if not legal(slot, x):
                    st.nontriv((slot.id, x))
                if bad:
                    sym, detail = bad
                    st.outcome("%s|%s|%s" % (slot.id, verdict, sym))
                    st.violation(
                        "%s:%s" % (slot.family, sym),
                        "%s(%r) [%s]: %s -- %s; wire after request 1: %r; logged: %r" % (
                            slot.id, x, verdict, sym, detail, ob.outs[0][:160], ob.errors[:3]),
                        {"slot": slot.id, "form": form, "s": s})
                else:
                    st.outcome("%s|%s" % (slot.id, verdict))
                    if verdict == "accepted" and len(st.samples) < 2 and len(s) >= 2:
                        st.sample({"slot": slot.id, "arg": x, "wire": ob.outs[0][:200]})
        st.setmax("max_len_full_alphabet", self.bound(tier)[0])
        st.setmax("max_len_core_alphabet", self.bound(tier)[1])

    def replay(self, case):
        slot = SLOT_BY_ID[case["slot"]]
        out = []
        with wo.frozen_web_clock():
            ctx = Context(slot, case["form"])
            x, ob, verdict, bad = ctx.run(case["s"])
        out.append("API slot      : %s   argument: %r   (twin argument: %r)" % (slot.id, x, ctx.x0))
        out.append("call          : %s" % (ob.rec,))
        out.append("wire (req 1)  : %r" % ob.outs[0])
        out.append("wire (req 2)  : %r" % ob.outs[1])
        out.append("closed        : %r   error logs: %r" % (ob.closed, ob.errors))
        out.append("reader        : %r" % (ob.p1,))
        out.append("twin (req 1)  : %r" % ctx.twin.outs[0])
        out.append("expected      : an exception at the call (then %r ...) or the twin response "
                   "with only the intended field replaced" % ctx.rej.outs[0][:40])
        out.append("verdict       : %s %s" % (verdict, "VIOLATION %s: %s" % bad if bad else "ok"))
        return "\n".join(out)


CHECK = C07()
