"""C40 Selector-thread loop never deadlocks, loses events or hangs on close.
Shape S (threads): the real tornado.platform.asyncio.SelectorThread runs under
the controlled scheduler mc.tsched with shim threading / select / socketpair
installed as module attributes; the loop thread executes small driver programs
(add/remove readers and writers, readiness events, close) and may run queued
loop callbacks at any point; every interleaving up to a preemption bound."""
import errno
import select as _real_select
import socket as _real_socket
import threading as _real_threading

from mc.core import Check, h
from mc import devex
from mc.tsched import Sched, ShimCondition, ShimThread, ShimModule, Deadlock, Horizon, Abort

DRIVERS = {
    "one-reader": ["add_reader f1", "ready f1", "settle", "remove_reader f1", "settle", "close"],
    "reader-then-ready-twice": ["add_reader f1", "ready f1", "settle", "ready f1", "settle", "close"],
    "ready-before-add": ["ready f1", "add_reader f1", "settle", "close"],
    "reader-and-writer": ["add_reader f1", "add_writer f2", "ready f2", "ready f1", "settle", "remove_writer f2", "settle", "close"],
    "immediate-close": ["close"],
    "add-then-close": ["add_reader f1", "ready f1", "close"],
    "remove-then-close-fd": ["add_reader f1", "settle", "remove_reader f1", "closefd f1", "add_reader f3", "ready f3", "settle", "close"],
    "re-add": ["add_reader f1", "remove_reader f1", "add_reader f1", "ready f1", "settle", "close"],
    "close-twice": ["add_reader f1", "settle", "close", "close"],
    # both fds are ready in one select round; the first callback removes the registration of the second
    "callback-removes-other": ["add_writer f2", "add_reader f1 removes_writer:f2", "ready f2", "ready f1", "settle",
                               "unready f2", "ready f1", "settle", "close"],
    "remove-then-close-same-fd": ["add_reader f1", "settle", "remove_reader f1", "closefd f1", "settle", "close"],
    # a write-only registration that never became writable is removed and its fd closed; another fd then becomes readable
    "remove-writer-then-close-fd": ["add_reader f3", "add_writer f1", "settle", "remove_writer f1", "closefd f1", "ready f3",
                                    "settle", "close"],
    # through AddThreadSelectorEventLoop (the wrapper Tornado puts around a loop without add_reader): whatever the
    # teardown order on the asyncio side, closing the wrapper stops and joins the selector thread
    "wrapper:close": ["add_reader f1", "ready f1", "settle", "wclose"],
    "wrapper:real-loop-closed-first": ["add_reader f1", "settle", "realclose", "wclose"],
    "wrapper:close-twice": ["add_reader f1", "wclose", "wclose"],
}


class Fd:
    def __init__(self, name, n):
        self.name, self.n = name, n
        self.ready = False
        self.closed = False
        self.dispatched = 0

    def fileno(self):
        return self.n

    def __repr__(self):
        return self.name


def run(ch, driver, waker_capacity=2, sched_factory=None, program=None):
    """sched_factory / program are used by the model-conformance part (checks/c40_model.py): an observing or
    path-driven scheduler, and a loop-thread program that replaces the fixed driver."""
    import tornado.platform.asyncio as tpa
    sched = sched_factory(ch) if sched_factory is not None else Sched(ch, horizon=3000)
    sched.register_main("loop")
    box = {"st": None, "pre": set(tpa._selector_loops)}
    problems = []
    fds = {n: Fd(n, 100 + i) for i, n in enumerate(("f1", "f2", "f3"))}
    state = {"inflight": 0, "max_inflight": 0, "selects": 0}

    class WSock:
        def __init__(self, buf, n, role):
            self.buf, self.n, self.role = buf, n, role
            self.closed = False
            self.blocking = True        # like a real socket until setblocking(False)

        def setblocking(self, b):
            self.blocking = bool(b)

        def fileno(self):
            return self.n

        def send(self, data):
            sched.point("waker.send")
            if self.closed:
                raise OSError(errno.EBADF, "closed")
            if len(self.buf) >= waker_capacity:
                if not self.blocking:
                    raise BlockingIOError(errno.EAGAIN, "full")
                # a blocking socket: the sending thread sleeps until the peer has drained the buffer
                sched.block_until(lambda: len(self.buf) < waker_capacity or self.closed, "waker.send(blocking)")
                if self.closed:
                    raise OSError(errno.EBADF, "closed")
            self.buf.append(data[:1])
            return 1

        def recv(self, n):
            sched.point("waker.recv")
            if not self.buf:
                if not self.blocking:
                    raise BlockingIOError(errno.EAGAIN, "empty")
                sched.block_until(lambda: bool(self.buf) or self.closed, "waker.recv(blocking)")
                if not self.buf:
                    return b""
            out = b"".join(self.buf)
            del self.buf[:]
            return out

        def close(self):
            self.closed = True

        def __repr__(self):
            return "waker_" + self.role
    wbuf = []
    waker_r, waker_w = WSock(wbuf, 50, "r"), WSock(wbuf, 51, "w")
    by_no = {50: waker_r, 51: waker_w}
    by_no.update({f.n: f for f in fds.values()})

    def obj(x):
        return by_no.get(x, x) if isinstance(x, int) else x

    def readable(x):
        x = obj(x)
        if isinstance(x, WSock):
            return bool(x.buf)
        return x.ready

    def any_closed(lst):
        return any(getattr(obj(x), "closed", False) for x in lst)

    def shim_select(rl, wl, xl, timeout=None):
        sched.point("select:enter")
        state["inflight"] += 1
        state["selects"] += 1
        state["max_inflight"] = max(state["max_inflight"], state["inflight"])
        try:
            if any_closed(list(rl) + list(wl)):
                raise OSError(errno.EBADF, "bad file descriptor")

            def ready():
                return [r for r in rl if readable(r)], [x for x in wl if readable(x)]
            if timeout != 0:
                sched.block_until(lambda: any(ready()) or any_closed(list(rl) + list(wl)), "select")
                if any_closed(list(rl) + list(wl)):
                    raise OSError(errno.EBADF, "bad file descriptor")
            r, wr = ready()
            return r, wr, []
        finally:
            state["inflight"] -= 1

    class FakeLoop:
        def __init__(self):
            self.queue = []

        def call_soon(self, cb, *args, context=None):
            if sched.cur is not sched.main:
                problems.append(("call_soon-from-selector-thread", "call_soon (not threadsafe) used from %s" % sched.cur.name))
            self.queue.append((cb, args))

        def call_soon_threadsafe(self, cb, *args, context=None):
            sched.point("call_soon_threadsafe")
            self.queue.append((cb, args))

        def create_task(self, coro):
            try:
                coro.send(None)
            except StopIteration:
                return None
            problems.append(("thread-manager-did-not-finish-first-step", ""))

        def run_one(self):
            cb, args = self.queue.pop(0)
            cb(*args)

        closed = False

        def is_closed(self):
            return self.closed

        def close(self):
            self.closed = True
            del self.queue[:]       # a closed loop never runs what was still queued
    loop = FakeLoop()
    saved = (tpa.threading, tpa.select, tpa.socket)
    tpa.threading = ShimModule(_real_threading, Condition=lambda: ShimCondition(sched),
                               Thread=lambda **kw: ShimThread(sched, **kw))
    tpa.select = ShimModule(_real_select, select=shim_select)
    tpa.socket = ShimModule(_real_socket, socketpair=lambda: (waker_r, waker_w))
    result = {"deadlock": None, "horizon": False, "crash": None}
    st = None
    trace = []

    def make_cb(fd, then=None):
        def cb():
            if sched.cur is not sched.main:
                problems.append(("callback-on-selector-thread", "%s callback ran on %s" % (fd.name, sched.cur.name)))
            inst = box["st"]
            if inst is not None and fd not in inst._readers and fd not in inst._writers:
                problems.append(("dispatched-after-removal", "%s callback ran although %s is no longer registered" % (fd.name, fd.name)))
            fd.dispatched += 1
            fd.ready = False       # the handler consumes the event
            if then is not None:
                then()
        return cb

    def selector_idle():
        ts = [t for t in sched.threads if t is not sched.main and not t.done]
        return all(t.pred is not None and not t.pred() for t in ts)

    def check_quiescent(where):
        regs = {}
        if st is not None:
            regs = dict(st._readers)
            regs.update(st._writers)
        for f in fds.values():
            if f.ready and f in regs and not f.closed:
                problems.append(("lost-event", "%s: %s is registered and ready but was not dispatched (dispatched %d)"
                                 % (where, f.name, f.dispatched)))
    if hasattr(sched, "bind"):
        sched.bind(box=box, tpa=tpa, loop=loop, fds=fds, wbuf=wbuf, waker_r=waker_r)
    try:
        if program is not None:
            import types
            program(types.SimpleNamespace(tpa=tpa, loop=loop, fds=fds, sched=sched, box=box, make_cb=make_cb))
            st = box["st"]
        elif driver.startswith("wrapper:"):
            wrapper = tpa.AddThreadSelectorEventLoop(loop)
            st = box["st"] = wrapper._selector
        else:
            st = box["st"] = tpa.SelectorThread(loop)
        for op in (DRIVERS[driver] if program is None else ()):
            # the loop may run queued callbacks before the next driver operation
            while loop.queue and ch.choose(2, "run-queued-callback-first") == 0:
                loop.run_one()
                sched.point("loop:after-callback")
            trace.append(op)
            name, _, arg = op.partition(" ")
            arg, _, extra = arg.partition(" ")
            if name == "add_reader":
                then = None
                if extra.startswith("removes_writer:"):
                    other = fds[extra.split(":")[1]]
                    then = (lambda other=other: st.remove_writer(other))
                st.add_reader(fds[arg], make_cb(fds[arg], then))
            elif name == "unready":
                fds[arg].ready = False
            elif name == "add_writer":
                st.add_writer(fds[arg], make_cb(fds[arg]))
            elif name == "remove_reader":
                st.remove_reader(fds[arg])
            elif name == "remove_writer":
                st.remove_writer(fds[arg])
            elif name == "ready":
                fds[arg].ready = True
                sched.point("env:ready")
            elif name == "closefd":
                fds[arg].closed = True
                sched.point("env:closefd")
            elif name == "settle":
                n = 0
                while True:
                    n += 1
                    if n > 200:
                        problems.append(("no-quiescence", "settle did not reach quiescence"))
                        break
                    if loop.queue:
                        loop.run_one()
                        sched.point("loop:after-callback")
                    elif st._thread is None or selector_idle():
                        break
                    else:
                        # the loop thread sleeps until a callback is queued or the selector thread goes idle
                        sched.block_until(lambda: bool(loop.queue) or selector_idle(), "loop:wait")
                check_quiescent("settle after %r" % (trace,))
            elif name == "realclose":
                loop.close()        # the asyncio side closes the wrapped loop itself (no shutdown_asyncgens)
            elif name == "wclose":
                wrapper.close()
                if not loop.closed:
                    problems.append(("wrapper-close-left-real-loop-open", "AddThreadSelectorEventLoop.close() did not close the wrapped loop"))
                if not st._closed or (st._thread is not None and not st._thread.t.done):
                    problems.append(("close-returned-with-thread-running", "selector thread still alive after the wrapper's close()"))
            elif name == "close":
                st.close()
                if st._thread is not None and not st._thread.t.done:
                    problems.append(("close-returned-with-thread-running", "selector thread still alive after close()"))
        sched.finish()
    except Deadlock as e:
        result["deadlock"] = str(e)
    except Horizon:
        result["horizon"] = True
    except Abort:
        result["crash"] = "abort"
    except Exception as e:
        import traceback
        tb = traceback.extract_tb(e.__traceback__)[-1]
        result["crash"] = "%s: %s at %s:%d" % (type(e).__name__, str(e)[:60], tb.name, tb.lineno)
    finally:
        sched.cleanup()
        tpa.threading, tpa.select, tpa.socket = saved
        box["closed_flag"] = getattr(st, "_closed", None)
        if st is not None:
            tpa._selector_loops.discard(st)
            st._closed = True
        for x in [x for x in tpa._selector_loops if x not in box["pre"]] + [x for x in (box.get("st"),) if x is not None]:
            tpa._selector_loops.discard(x)          # instance of an abandoned execution
            x._closed = True                        # its finalizers (async generator, atexit) must not run the shims again
    result.update({"problems": problems, "trace": trace, "max_inflight": state["max_inflight"], "selects": state["selects"],
                   "dispatched": {f.name: f.dispatched for f in fds.values()},
                   "thread_errors": [(t.name, repr(t.exc)[:100]) for t in sched.threads if t.exc is not None],
                   "closed_flag": box.get("closed_flag")})
    return result


def judge(driver, o):
    bad = []
    if o["deadlock"]:
        bad.append(("deadlock", "after %r: %s" % (o["trace"], o["deadlock"])))
    if o["horizon"]:
        bad.append(("livelock", "step horizon exceeded after %r" % (o["trace"],)))
    if o["crash"]:
        bad.append(("exception:" + o["crash"].split(":")[0], o["crash"]))
    for sig, msg in o["problems"]:
        bad.append((sig, msg))
    if o["max_inflight"] > 1:
        bad.append(("two-selects-in-flight", "%d select calls were in progress at once" % o["max_inflight"]))
    if o["thread_errors"]:
        bad.append(("selector-thread-raised", repr(o["thread_errors"])))
    if not bad and "close" in DRIVERS[driver] and o["closed_flag"] is not True:
        bad.append(("not-closed", "close() did not complete"))
    return bad


class C40(Check):
    id = "C40"
    level = "model_checking"
    rule = ("PRIMARY: 11 loop-thread driver programs (add/remove reader and writer, readiness before/after registration, repeated "
            "readiness, fd closed after removal, immediate close, close twice) on the real SelectorThread with shim "
            "threading.Condition/Thread, select.select and socketpair (waker capacity 2, so BlockingIOError is reachable); "
            "scheduling points at every condition acquire/release/wait, thread start/join, waker send/recv, select "
            "enter/exit, call_soon_threadsafe, readiness events and after each loop callback; the loop thread may also "
            "run queued callbacks before each driver operation; every interleaving with at most P preemptions/deviations; "
            "state = one schedule; non-trivial = schedules with >= 1 preemption.  SECONDARY: models/SelectorThread.tla (one "
            "action per stretch of code between two synchronisation operations; loop thread doing <= 3 (thorough 4) "
            "operations on one fd in any order, callbacks and close() at any time) is checked by TLC for every "
            "schedule - invariants (start-select assertion, no crash of the selector thread, one outstanding result, "
            "closed => thread finished) and liveness under weak fairness (readiness of a registered fd is eventually "
            "dispatched, close() completes) - and bound to the code both ways: every edge of TLC's reachable state "
            "graph is replayed on the real code under the scheduler with the abstract state compared after every "
            "step, and every schedule explored on the one-fd drivers (<= 2 / 3 preemptions) is simulated in the graph")
    claim = ("On every explored schedule at most one select() is in progress, callbacks run only on the loop thread, every "
             "readiness of a registered fd is dispatched before the system goes quiescent, there is no deadlock or "
             "livelock, no exception in either thread, and close() returns with the selector thread finished.")
    technique = ("preemption-bounded exhaustive thread-schedule exploration (CHESS style) of the real code under a controlled "
                 "scheduler; plus explicit-state model checking (TLC) of a TLA+ model with two-way trace conformance against the code")
    assumptions = ["scheduling points are the synchronisation operations; the few unsynchronised attribute accesses are atomic under the GIL",
                   "the kernel is replaced by shim select/socketpair whose readiness the harness decides"]

    MODEL_MAXOPS = {"quick": 3, "thorough": 4}

    def partitions(self, tier):
        bounds = (3,) if tier == "quick" else (5,)
        parts = [(d, b) for d in DRIVERS for b in bounds]
        # secondary: TLA+ model (TLC) + conformance in both directions; the graph is built here, in the parent,
        # and inherited by the forked workers
        from checks import c40_model
        try:
            c40_model.load_graph(self.MODEL_MAXOPS[tier])
        except Exception:
            pass                      # reported by the "tlc" partition
        parts.append(("model:tlc", 0))
        parts += [("model:edges", i) for i in range(32)]
        ops_needed = {"re-add": 4}
        parts += [("model:sim", d) for d in c40_model.MODEL_DRIVERS
                  if ops_needed.get(d, 3) <= self.MODEL_MAXOPS[tier]]
        return parts

    def run_model_partition(self, part, tier, st):
        from checks import c40_model
        try:
            g = c40_model.load_graph(self.MODEL_MAXOPS[tier])
        except Exception as e:
            if part[0] == "model:tlc":
                st.error("TLC could not be run on models/SelectorThread.tla: %r" % (e,))
            return
        if part[0] == "model:tlc":
            st.ev()
            st.setmax("model_states", len(g.states))
            st.sample({"tlc": {k: v for k, v in g.tlc.items() if k != "tail"}, "model": "models/SelectorThread.tla"})
            if not g.tlc["ok"]:
                st.violation("model:tlc-reports-an-error", "TLC did not finish with 'No error has been found': ...%s"
                             % g.tlc["tail"][-700:], {"kind": "tlc"})
            elif not g.states or g.init is None:
                st.error("TLC state graph could not be parsed")
        elif part[0] == "model:edges":
            if g.tlc["ok"] and g.states:
                c40_model.run_edges(g, part[1], 32, st)
        else:
            if g.tlc["ok"] and g.states:
                c40_model.run_simulation(g, part[1], 2 if tier == "quick" else 3, st)

    def run_partition(self, part, tier, st):
        if str(part[0]).startswith("model:"):
            return self.run_model_partition(part, tier, st)
        driver, bound = part

        def on_exec(ch, o):
            st.ev()
            st.transitions += len(ch.trace)
            key = h((driver, tuple(ch.choices())))
            st.states.add(key)
            if any(ch.choices()):
                st.nontrivial.add(key)
            st.outcome(h((driver, tuple(sorted(o["dispatched"].items())), o["selects"])))
            for sig, msg in judge(driver, o):
                st.violation(sig, "driver %s schedule %r: %s" % (driver, ch.choices(), msg),
                             {"driver": driver, "choices": ch.choices()})
        n, edges, capped = devex.explore(lambda ch: run(ch, driver), bound=bound, on_exec=on_exec, max_execs=120000)
        if capped:
            st.note("cap_hit")
        st.setmax("preemption_bound_completed", bound)
        if len(st.samples) < 1:
            o = run(devex.Chooser(), driver)
            st.sample({"driver": driver, "program": DRIVERS[driver], "schedules_explored": n, "default_schedule_dispatched": o["dispatched"]})

    def replay(self, case):
        if case.get("kind") in ("model-path", "model-sim"):
            from checks import c40_model
            return c40_model.replay(case)
        if case.get("kind") == "tlc":
            from checks import c40_model
            return c40_model.load_graph(3).tlc["tail"]
        o = run(devex.Chooser(case["choices"]), case["driver"])
        return "%r\nverdict %r" % (o, judge(case["driver"], o))


CHECK = C40()
