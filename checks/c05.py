"""C05 Every started request ends with exactly one finish or close notification.
Shape S (crash points): for each request of a small set, every byte offset at
which the peer disconnects (EOF / ECONNRESET) or goes silent (timeouts fire),
and response-phase disconnect points, with synchronous, asynchronous and gated
delegates (raw HTTPMessageDelegate and the web.Application path), on the real
HTTPServer over a FakeSocket.  A recording proxy around the message delegate
counts the notifications."""
import asyncio
import errno

from mc.core import Check, h
from mc.vloop import World

REQS = {
    "get": (b"GET /sync HTTP/1.1\r\nHost: h\r\n\r\n", [b""]),
    "cl": (b"POST /sync HTTP/1.1\r\nHost: h\r\nContent-Length: 9\r\n\r\nabcdefghi", [b"abcdefghi"]),
    "chunked": (b"POST /sync HTTP/1.1\r\nHost: h\r\nTransfer-Encoding: chunked\r\n\r\n4\r\nabcd\r\n5\r\nefghi\r\n0\r\n\r\n",
                [b"abcdefghi"]),
    "pair": (b"POST /sync HTTP/1.1\r\nHost: h\r\nContent-Length: 3\r\n\r\nabcGET /sync HTTP/1.1\r\nHost: h\r\n\r\n",
             [b"abc", b""]),
    "expect": (b"POST /sync HTTP/1.1\r\nHost: h\r\nExpect: 100-continue\r\nContent-Length: 4\r\n\r\nwxyz", [b"wxyz"]),
    "close": (b"POST /sync HTTP/1.1\r\nHost: h\r\nConnection: close\r\nContent-Length: 2\r\n\r\nhi", [b"hi"]),
    "http10": (b"POST /sync HTTP/1.0\r\nContent-Length: 2\r\n\r\nhi", [b"hi"]),
}
RAISING = ("raw-finish-raises", "raw-headers-raise", "raw-headers-fail-async")
def _gz(data):
    import gzip
    import io
    buf = io.BytesIO()
    with gzip.GzipFile(fileobj=buf, mode="wb", mtime=0) as f:
        f.write(data)
    return buf.getvalue()


_PLAIN = b"hello world " * 3
_GZ = _gz(_PLAIN)
# served with decompress_request=True: a complete gzip body, and one whose last 6 bytes never come (Content-Length says so)
REQS["gzip"] = (b"POST /sync HTTP/1.1\r\nHost: h\r\nContent-Encoding: gzip\r\nContent-Length: %d\r\n\r\n" % len(_GZ) + _GZ, [_PLAIN])
REQS["gzip-trunc"] = (b"POST /sync HTTP/1.1\r\nHost: h\r\nContent-Encoding: gzip\r\nContent-Length: %d\r\n\r\n" % (len(_GZ) - 6) + _GZ[:-6],
                      [_PLAIN])
MODES = ["raw-finish-raises", "raw-headers-raise", "raw-headers-fail-async", "raw-sync", "raw-reqtimeout", "raw-async0", "raw-gated-headers", "raw-gated-data", "raw-respond-later", "raw-never",
         "app-sync", "app-async", "app-stream", "app-stream-async", "app-early-error", "app-early-finish"]
FAULTS = ["eof", "reset", "silence", "none"]


class Recorder:
    def __init__(self):
        self.delegates = []
        self.gates = []          # futures the harness releases
        self.later = []          # callables that send the delayed response


def make_proxy_class():
    from tornado import httputil

    class Proxy(httputil.HTTPMessageDelegate):
        def __init__(self, inner, rec):
            self.inner = inner
            self.ev = []
            rec.delegates.append(self)

        def headers_received(self, start_line, headers):
            self.ev.append(("headers",))
            return self.inner.headers_received(start_line, headers)

        def data_received(self, chunk):
            self.ev.append(("data", bytes(chunk)))
            return self.inner.data_received(chunk)

        def finish(self):
            self.ev.append(("finish",))
            return self.inner.finish()

        def on_connection_close(self):
            self.ev.append(("close",))
            return self.inner.on_connection_close()
    return Proxy


def make_server_delegate(mode, rec):
    from tornado import httputil, iostream, web
    Proxy = make_proxy_class()

    def respond(conn):
        try:
            conn.write_headers(httputil.ResponseStartLine("HTTP/1.1", 200, "OK"),
                               httputil.HTTPHeaders({"Content-Length": "2"}), b"ok")
            conn.finish()
        except Exception as e:
            rec.respond_error = type(e).__name__

    class Raw(httputil.HTTPMessageDelegate):
        def __init__(self, conn):
            self.conn = conn

        def headers_received(self, start_line, headers):
            if mode == "raw-headers-raise":
                raise RuntimeError("application bug in headers_received")
            if mode == "raw-headers-fail-async":
                f = asyncio.Future()
                f.set_exception(RuntimeError("lookup failed"))
                return f
            if mode == "raw-reqtimeout":
                self.conn.set_body_timeout(5)       # per-request timeout on a server without a global one
            if mode == "raw-async0":
                return asyncio.sleep(0)
            if mode == "raw-gated-headers":
                f = asyncio.Future()
                rec.gates.append(f)
                return f

        def data_received(self, chunk):
            if mode == "raw-async0":
                return asyncio.sleep(0)
            if mode == "raw-gated-data":
                f = asyncio.Future()
                rec.gates.append(f)
                return f

        def finish(self):
            if mode == "raw-finish-raises":
                raise RuntimeError("application bug in finish")
            if mode == "raw-never":
                return
            if mode == "raw-respond-later":
                rec.later.append(lambda: respond(self.conn))
                return
            respond(self.conn)

        def on_connection_close(self):
            pass

    if mode.startswith("raw"):
        class SD(httputil.HTTPServerConnectionDelegate):
            def start_request(self, server_conn, request_conn):
                return Proxy(Raw(request_conn), rec)
        return SD()

    gate = {}

    class Sync(web.RequestHandler):
        def go(self):
            self.write("ok")
        get = post = go

        def on_finish(self):
            rec.handler_events.append(("on_finish", id(self)))

        def on_connection_close(self):
            rec.handler_events.append(("on_connection_close", id(self)))
            super().on_connection_close()

    class Async(Sync):
        async def go(self):
            f = asyncio.Future()
            rec.gates.append(f)
            await f
            self.write("o")
            try:
                await self.flush()
            except iostream.StreamClosedError:
                return
            f2 = asyncio.Future()
            rec.gates.append(f2)
            await f2
            self.write("k")
        get = post = go

    @web.stream_request_body
    class Stream(Sync):
        def data_received(self, chunk):
            rec.handler_events.append(("data", bytes(chunk)))

    @web.stream_request_body
    class StreamAsync(Async):
        async def data_received(self, chunk):
            rec.handler_events.append(("data", bytes(chunk)))
            await asyncio.sleep(0)

    @web.stream_request_body
    class EarlyError(Stream):
        def prepare(self):
            raise web.HTTPError(403)

    @web.stream_request_body
    class EarlyFinish(Stream):
        def prepare(self):
            self.finish("early")

    cls = {"app-sync": Sync, "app-async": Async, "app-stream": Stream, "app-stream-async": StreamAsync,
           "app-early-error": EarlyError, "app-early-finish": EarlyFinish}[mode]
    app = web.Application([("/sync", cls)])

    class SD(httputil.HTTPServerConnectionDelegate):
        def start_request(self, server_conn, request_conn):
            return Proxy(app.start_request(server_conn, request_conn), rec)

        def on_close(self, server_conn):
            app.on_close(server_conn)
    return SD()


def execute(reqname, mode, k, fault, release_first, j=None):
    from tornado.httpserver import HTTPServer
    from tornado.iostream import IOStream
    data, bodies = REQS[reqname]
    rec = Recorder()
    rec.handler_events = []
    rec.respond_error = None
    with World() as w:
        sd = make_server_delegate(mode, rec)
        gzkw = {"decompress_request": True} if reqname.startswith("gzip") else {}
        if mode == "raw-reqtimeout":
            server = HTTPServer(sd, idle_connection_timeout=10, **gzkw)
        else:
            server = HTTPServer(sd, idle_connection_timeout=10, body_timeout=5, **gzkw)
        sock = w.socket()
        stream = IOStream(sock)
        server.handle_stream(stream, ("1.2.3.4", 1))
        w.pump()

        def release_all():
            n = 0
            while n < 10 and (any(not g.done() for g in rec.gates) or rec.later):
                n += 1
                for g in list(rec.gates):
                    if not g.done():
                        g.set_result(None)
                w.pump()
                for fn in list(rec.later):
                    rec.later.remove(fn)
                    fn()
                w.pump()
        if j is not None and 0 < j < k:
            sock.feed(data[:j])          # an earlier segment boundary (thorough tier)
            w.pump()
            sock.feed(data[j:k])
        else:
            sock.feed(data[:k])
        w.pump()
        if release_first:
            release_all()
        if fault == "eof":
            sock.feed_eof()
        elif fault == "reset":
            sock.feed_error(OSError(errno.ECONNRESET, "reset"))
        elif fault == "silence":
            w.advance(30)
        w.pump()
        release_all()
        w.pump()
        mid = [list(d.ev) for d in rec.delegates]
        # shutdown: closing all connections must complete
        t = w.spawn(server.close_all_connections())
        w.pump()
        release_all()
        w.run_all_timers(20)
        w.pump()
        done = t.done()
        if done and t.exception() is not None:
            done = "raised:" + type(t.exception()).__name__
        leftover = len(server._connections)
        logs = [(r[0], r[1], r[2][:60], r[3]) for r in w.logs.records
                if r[0] != "tornado.access" and (r[1] in ("ERROR", "CRITICAL"))]
        errs = [str(c.get("message"))[:90] for c in w.loop_errors()]
        return {"events": [list(d.ev) for d in rec.delegates], "mid": mid, "shutdown_done": done,
                "leftover": leftover, "logs": logs, "loop_errors": errs, "closed": sock.closed,
                "handler": list(rec.handler_events), "out": bytes(sock.sent)}


def judge(reqname, mode, k, fault, o, notes=None):
    data, bodies = REQS[reqname]
    bad = []
    notes = notes if notes is not None else []
    for i, ev in enumerate(o["events"]):
        kinds = [e[0] for e in ev]
        nh, nf, nc = kinds.count("headers"), kinds.count("finish"), kinds.count("close")
        body = b"".join(e[1] for e in ev if e[0] == "data")
        want = bodies[i] if i < len(bodies) else None
        if nh > 1:
            bad.append(("headers-twice", "delegate %d got headers %d times" % (i, nh)))
        if nh == 0:
            if nf or kinds.count("data"):
                bad.append(("finish-or-data-without-headers", "delegate %d events %r" % (i, ev)))
            continue
        if nf + nc != 1:
            what = "both" if (nf and nc) else "none" if nf + nc == 0 else "%d-finish-%d-close" % (nf, nc)
            bad.append(("notifications:%s" % what, "delegate %d after headers: finish=%d close=%d events %r"
                        % (i, nf, nc, [e[0] for e in ev])))
        if want is not None:
            if nf and body != want:
                bad.append(("finished-with-wrong-body", "delegate %d finished with body %r, sent %r" % (i, body, want)))
            elif not want.startswith(body):
                bad.append(("body-not-a-prefix", "delegate %d chunks %r not a prefix of %r" % (i, body, want)))
        after = kinds[max([j for j, x in enumerate(kinds) if x in ("finish", "close")] or [len(kinds)]) + 1:]
        if after:
            # not part of the statement (it only counts finish/close and constrains the chunks): reported as a note
            notes.append("data-after-finish-or-close")
    if fault == "silence" and mode in ("raw-sync", "raw-reqtimeout", "raw-async0", "app-sync", "app-stream"):
        # 30 s of silence exceed the 5 s body timeout: a delegate still waiting for its body must have been told
        for i, ev in enumerate(o["mid"]):
            kinds = [e[0] for e in ev]
            if "headers" in kinds and "finish" not in kinds and "close" not in kinds:
                bad.append(("body-timeout-not-enforced", "delegate %d got headers, the peer then sent nothing for 30 s "
                            "(body timeout 5 s) and the delegate was not told: %r" % (i, kinds)))
    if o["shutdown_done"] is not True:
        bad.append(("close_all_connections:%s" % o["shutdown_done"], "close_all_connections() %r; connections left %d"
                    % (o["shutdown_done"], o["leftover"])))
    elif o["leftover"]:
        bad.append(("connections-left", "%d connections still registered" % o["leftover"]))
    if not o["closed"]:
        bad.append(("socket-open-after-shutdown", "fd still open after close_all_connections"))
    if mode in ("app-stream", "app-stream-async", "app-early-error", "app-early-finish"):
        # a streaming handler exists from the headers on: when its delegate is told that the connection closed, so is
        # the handler (that is what releases a coroutine waiting for the rest of the body) - also if it answered early
        nclose_d = sum(1 for ev in o["events"] for e in ev if e[0] == "close")
        nclose_h = sum(1 for e in o["handler"] if e[0] == "on_connection_close")
        if nclose_h < nclose_d:
            bad.append(("handler-not-told-of-close", "delegates were told of a close %d times, handlers %d times (handler events %r)"
                        % (nclose_d, nclose_h, [e[0] for e in o["handler"]])))
    hk = [e for e in o["handler"] if e[0] in ("on_finish", "on_connection_close")]
    if len(set(hk)) != len(hk):
        bad.append(("handler-notified-twice", "handler events %r" % hk))
    for l in o["logs"]:
        if mode in RAISING and l[3] == "RuntimeError":
            continue            # the application's own exception is logged, as it should be
        bad.append(("error-log:%s" % (l[3] or l[2][:24]), "log %r" % (l,)))
        break
    if o["loop_errors"]:
        bad.append(("loop-exception", "%r" % o["loop_errors"][:2]))
    return bad


def all_cases(tier):
    for reqname, (data, _) in REQS.items():
        for mode in MODES:
            for fault in FAULTS:
                ks = range(0, len(data) + 1) if fault != "none" else [len(data)]
                for k in ks:
                    for rf in ((False, True) if ("gated" in mode or "later" in mode or "async" in mode) else (False,)):
                        yield (reqname, mode, k, fault, rf)
                        if tier == "thorough" and reqname in ("cl", "chunked", "pair", "expect") and fault in ("eof", "silence"):
                            for j in range(1, k, 3):
                                yield (reqname, mode, k, fault, rf, j)


class C05(Check):
    id = "C05"
    level = "model_checking"
    rule = ("7 requests (no body, Content-Length, chunked, pipelined pair, Expect: 100-continue, Connection: close, "
            "HTTP/1.0) x 13 delegate modes (raw delegate: sync / sync with a per-request set_body_timeout on a server without a "
            "global one / awaiting / gated headers_received / gated "
            "data_received / response sent later / never responds; web.Application: sync, async with a flush "
            "between two gates, stream_request_body sync and async) x every byte offset k of the request at which "
            "the peer sends EOF, ECONNRESET or goes silent for 30 s (idle and body timeouts fire), with gates "
            "released before or after the fault; then close_all_connections(); state = one execution; "
            "non-trivial = executions where a delegate had received headers when the fault hit")
    claim = ("A recording proxy around every HTTPMessageDelegate shows, for every crash point, that a delegate "
             "which received headers gets exactly one of finish / on_connection_close, nothing afterwards, body "
             "chunks forming a prefix of (or exactly) the sent body; close_all_connections() completes and leaves "
             "no connection or open socket; a delegate whose body stalls beyond the (global or per-request) body "
             "timeout is told before shutdown; nothing is logged at ERROR.")
    technique = "exhaustive crash-point enumeration (every byte offset x fault kind x delegate mode) on the real code"
    assumptions = ["the fault reaches the server at a quiescent point (after everything fed so far was processed)"]

    def partitions(self, tier):
        return [(i, 48) for i in range(48)]

    def run_partition(self, part, tier, st):
        s, nsl = part
        for i, case in enumerate(all_cases(tier)):
            if i % nsl != s:
                continue
            try:
                o = execute(*case)
            except Exception as e:
                import traceback
                st.violation("harness-crash:" + type(e).__name__, "case %r: %s" % (case, traceback.format_exc()[-300:]),
                             {"case": case})
                continue
            st.ev()
            st.transitions += 4
            key = h(case)
            st.states.add(key)
            if any(("headers",) in ev for ev in o["mid"]):
                st.nontrivial.add(key)
            st.outcome(h(([[e[0] for e in ev] for ev in o["events"]], o["shutdown_done"])))
            if i % 3001 == 0:
                st.sample({"case": case, "delegate_events": [[e[0] for e in ev] for ev in o["events"]]})
            notes = []
            verdict = judge(case[0], case[1], case[2], case[3], o, notes)
            for nkey in notes:
                st.note(nkey)
            for sig, msg in verdict:
                st.violation("%s:%s" % (case[1].split("-")[0], sig),
                             "request %s mode %s cut at byte %d fault %s release_first=%r%s: %s"
                             % (case[:5] + ((" first segment %d bytes" % case[5]) if len(case) > 5 else "", msg)),
                             {"case": case})

    def replay(self, case):
        c = tuple(case["case"])
        o = execute(*c)
        return "case %r\n%r\nverdict %r" % (c, o, judge(c[0], c[1], c[2], c[3], o))


CHECK = C05()
