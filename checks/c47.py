"""C47 The WSGI container presents requests and responses faithfully.

Shape I.  A real HTTPServer with `WSGIContainer(app)` (default executor =
tornado.concurrent.dummy_executor: the app runs synchronously on the virtual
loop, no thread exists) on an in-memory socket.

* layer "req"  – product method x path (escapes) x query x Host form x request
  header set x HTTP version; the app records the environ; every CGI / wsgi.*
  key is compared with a reference written from PEP 3333 / RFC 3875 / RFC 3986.
* layer "pair" – two pipelined requests with every ordered pair of header sets
  (an environ must describe its own request only).
* layer "resp" – product status x application header set x body shape (write()
  callable, list, generator, iterable with close()) x request method x HTTP
  version; the bytes on the wire are delimited by the strict RFC 9112 reader
  (mc.httph.read_responses) and compared with what the application produced:
  same status and reason, the application's header lines in order and
  unchanged (per name), only Content-Length / Content-Type / Server (and the connection
  management headers that belong to the server) added and only when absent,
  body byte-identical, nothing for HEAD.

The oracle never calls tornado.wsgi / tornado.httputil."""
import re

from mc.core import Check, h

PEER_IP = "1.2.3.4"

# ---- request side domains ---------------------------------------------------
METHODS_Q = ["GET", "POST", "HEAD"]
METHODS_T = METHODS_Q + ["PUT", "DELETE", "OPTIONS"]
BODIES = {"POST": b"a=1&b=%20", "PUT": b"\x00\xff\r\n"}

PATHS_Q = ["/", "/a%20b", "/a%2Fb", "/%E9", "/%c3%a9/x", "/a+b", "/a%", "/a%25"]
PATHS_T = PATHS_Q + ["/a%zz", "/%e", "/a//b/./c", "/a%00b", "/%2525", "/a;p=1", "/*", "/~a",
                     "/a%3Fb", "/a%23b"]
QUERIES_Q = [None, "x=1&y=%20", "", "q=caf\xe9"]      # (the last: a raw obs-text byte in the query)
QUERIES_T = QUERIES_Q + ["?a", "a+b=%2B", "x=%"]

# (Host header value or None, HTTP version, class, allowed SERVER_NAMEs (lower) or None,
#  SERVER_PORT as int or None)
HOSTS_Q = [
    ("example.com", "1.1", "name", {"example.com"}, 80),
    ("example.com:8080", "1.1", "name:port", {"example.com"}, 8080),
    ("127.0.0.1:8080", "1.1", "v4:port", {"127.0.0.1"}, 8080),
    ("[::1]", "1.1", "v6", {"[::1]", "::1"}, 80),
    ("[::1]:8080", "1.1", "v6:port", {"[::1]", "::1"}, 8080),
    ("example.com:", "1.1", "name:empty-port", {"example.com"}, 80),
    (None, "1.0", "absent-1.0", None, None),
    ("example.com:8080", "1.0", "name:port-1.0", {"example.com"}, 8080),
]
HOSTS_T = HOSTS_Q + [
    ("EXAMPLE.com", "1.1", "name-upper", {"example.com"}, 80),
    ("[2001:db8::1]:443", "1.1", "v6:port", {"[2001:db8::1]", "2001:db8::1"}, 443),
    ("example.com:080", "1.1", "name:port-leading-zero", {"example.com"}, 80),
    ("10.0.0.1", "1.1", "v4", {"10.0.0.1"}, 80),
    ("[::1]:", "1.1", "v6:empty-port", {"[::1]", "::1"}, 80),
    ("a-b.c_d", "1.1", "name", {"a-b.c_d"}, 80),
    ("[::ffff:1.2.3.4]:81", "1.1", "v6:port", {"[::ffff:1.2.3.4]", "::ffff:1.2.3.4"}, 81),
]

HDRSETS_Q = [
    [],
    [("Content-Type", "text/plain")],
    [("Content-Type", "a/b"), ("Content-Type", "c/d")],
    [("X-Foo", "1"), ("Accept", "*/*"), ("X-Foo", "2")],
    [("x-foo-bar", "v"), ("Cookie", "a=1; b=2"), ("X-Empty", "")],
    [("Content-Type", "application/x-www-form-urlencoded"), ("X-Latin", "caf\xe9")],
]
HDRSETS_T = HDRSETS_Q + [
    [("Content-Type", "multipart/form-data; boundary=x")],
    [("CONTENT-TYPE", "text/x"), ("content-length", "0")],
    [("Content-Type", "")],
    [("X-Foo", "1"), ("X-Foo", "2"), ("X-Foo", "3"), ("Content-Type", "a/b")],
    [("If-None-Match", "\"x\""), ("Accept-Encoding", "gzip"), ("User-Agent", "u a/1.0 (x; y)")],
]

_HEX = "0123456789abcdefABCDEF"


def ref_unquote(path):
    """RFC 3986 percent-decoding -> (bytes, had_bad_escape)."""
    out = bytearray()
    bad = False
    i = 0
    b = path.encode("latin-1")
    while i < len(b):
        c = b[i:i + 1]
        if c == b"%":
            hx = path[i + 1:i + 3]
            if len(hx) == 2 and hx[0] in _HEX and hx[1] in _HEX:
                out.append(int(hx, 16))
                i += 3
                continue
            bad = True
        out += c
        i += 1
    return bytes(out), bad


def header_key(name):
    return "HTTP_" + name.upper().replace("-", "_")


def csv(v):
    return [x.strip(" \t") for x in v.split(",")]


def build_request(r):
    target = r["path"] + ("" if r["query"] is None else "?" + r["query"])
    lines = ["%s %s HTTP/%s" % (r["method"], target, r["version"])]
    if r["host"] is not None:
        lines.append("Host: " + r["host"])
    for n, v in r["headers"]:
        lines.append("%s: %s" % (n, v))
    body = r["body"]
    has_cl = any(n.lower() == "content-length" for n, v in r["headers"])
    if body and not has_cl:
        lines.append("Content-Length: %d" % len(body))
    if r.get("keepalive"):
        lines.append("Connection: keep-alive")
    return ("\r\n".join(lines) + "\r\n\r\n").encode("latin-1") + body


def check_environ(env, inp, r, hostinfo):
    """Compare one recorded environ with the reference.  Yields
    (key, detail) for every mismatch, ('either:…', None) for EITHER notes."""
    hclass, names, port = hostinfo
    # types: every CGI variable is a native str limited to latin-1
    for k, v in env.items():
        if k.isupper():
            if type(v) is not str:
                yield ("type:" + k.split("_")[0], "%s is %s" % (k, type(v).__name__))
            elif any(ord(c) > 255 for c in v):
                yield ("latin1:" + k.split("_")[0], "%s=%r" % (k, v))
    if env.get("REQUEST_METHOD") != r["method"]:
        yield ("REQUEST_METHOD", "%r != %r" % (env.get("REQUEST_METHOD"), r["method"]))
    want_path, bad = ref_unquote(r["path"])
    want_path = want_path.decode("latin-1")
    script = env.get("SCRIPT_NAME", "")
    if "PATH_INFO" not in env and want_path:
        yield ("PATH_INFO:missing", "no PATH_INFO")
    elif bad:
        yield ("either:bad-escape", None)
    elif isinstance(script, str) and isinstance(env.get("PATH_INFO", ""), str):
        got = script + env.get("PATH_INFO", "")
        if got != want_path:
            kind = ("slash" if "%2F" in r["path"].upper() else
                    "high" if re.search(r"%[89a-fA-F]", r["path"]) else
                    "escape" if "%" in r["path"] else "plain")
            yield ("PATH_INFO:" + kind, "SCRIPT_NAME+PATH_INFO %r != %r" % (got, want_path))
    if env.get("QUERY_STRING", "") != (r["query"] or ""):
        yield ("QUERY_STRING", "%r != %r" % (env.get("QUERY_STRING"), r["query"]))
    if env.get("SERVER_PROTOCOL") != "HTTP/" + r["version"]:
        yield ("SERVER_PROTOCOL", "%r" % (env.get("SERVER_PROTOCOL"),))
    sn, sp = env.get("SERVER_NAME"), env.get("SERVER_PORT")
    bad_name = bad_port = False
    if not isinstance(sn, str) or not sn:
        yield ("SERVER_NAME:empty:host=" + hclass, "SERVER_NAME %r" % (sn,))
    elif names is not None and sn.lower() not in names:
        bad_name = True
    if not isinstance(sp, str) or not re.match(r"^[0-9]+$", sp):
        yield ("SERVER_PORT:not-digits:host=" + hclass, "SERVER_PORT %r" % (sp,))
    elif port is not None and int(sp) != port:
        bad_port = True
    if bad_name or bad_port:
        # one signature per Host form: name and port come from one split
        yield ("SERVER_NAME/PORT:host=" + hclass,
               "Host %r -> SERVER_NAME %r SERVER_PORT %r, expected name in %r and port %d"
               % (r["host"], sn, sp, sorted(names), port))
    if names is None:
        yield ("either:no-host-1.0", None)
    if "REMOTE_ADDR" in env and env["REMOTE_ADDR"] != PEER_IP:
        yield ("REMOTE_ADDR", "%r" % (env["REMOTE_ADDR"],))
    # --- headers ---
    sent = list(r["headers"])
    if r["host"] is not None:
        sent.append(("Host", r["host"]))
    if r["body"] and not any(n.lower() == "content-length" for n, v in sent):
        sent.append(("Content-Length", str(len(r["body"]))))
    if r.get("keepalive"):
        sent.append(("Connection", "keep-alive"))
    combined = {}
    for n, v in sent:
        combined.setdefault(n.lower(), []).append(v.strip(" \t"))
    for special, key in (("content-type", "CONTENT_TYPE"), ("content-length", "CONTENT_LENGTH")):
        vals = combined.pop(special, None)
        multi = "multi" if vals and len(vals) > 1 else "single"
        if vals is None:
            if env.get(key, "") != "":
                yield (key + ":invented", "%s=%r but the request has no such header"
                       % (key, env.get(key)))
        else:
            want = [x for v in vals for x in csv(v)]
            got = env.get(key)
            if got is None and want == [""]:
                continue
            if not isinstance(got, str) or csv(got) != want:
                yield (key + ":" + multi, "%s=%r, request header lines %r" % (key, got, vals))
    want_http = {}
    for n, vals in combined.items():
        want_http.setdefault(header_key(n), []).extend(x for v in vals for x in csv(v))
    for k, want in want_http.items():
        got = env.get(k)
        if not isinstance(got, str) or csv(got) != want:
            yield ("HTTP_:" + ("multi" if len(want) > 1 else "single"),
                   "%s=%r, expected %r" % (k, got, ",".join(want)))
    for k in env:
        if k.startswith("HTTP_") and k not in want_http and k not in ("HTTP_CONTENT_TYPE",
                                                                      "HTTP_CONTENT_LENGTH"):
            yield ("HTTP_:invented", "%s=%r does not come from this request" % (k, env[k]))
    # --- wsgi.* ---
    if env.get("wsgi.version") != (1, 0):
        yield ("wsgi.version", repr(env.get("wsgi.version")))
    if env.get("wsgi.url_scheme") != r.get("scheme", "http"):
        yield ("wsgi.url_scheme", repr(env.get("wsgi.url_scheme")))
    if inp != r["body"]:
        yield ("wsgi.input", "read() gave %r, body was %r" % (inp, r["body"]))
    err = env.get("wsgi.errors")
    if not (hasattr(err, "write") and hasattr(err, "flush")):
        yield ("wsgi.errors", repr(err))
    if env.get("wsgi.multithread") is not False:
        yield ("wsgi.multithread", "%r although no executor was given" % (env.get("wsgi.multithread"),))
    for k in ("wsgi.multiprocess", "wsgi.run_once"):
        if k not in env:
            yield (k + ":missing", "")


# ---- response side domains ----------------------------------------------------
STATUSES_Q = ["200 OK", "404 Not Found", "201 Created  Two Words", "304 Not Modified",
              "204 No Content"]
STATUSES_T = STATUSES_Q + ["500 Oops", "299 X", "403 caf\xe9"]
LEN = "@LEN"
APPHDRS_Q = [
    [],
    [("Content-Type", "text/plain")],
    [("Content-Length", LEN)],
    [("content-length", LEN), ("content-type", "x/y"), ("server", "mine/1.0")],
    [("Set-Cookie", "a=1"), ("X-Dup", "1"), ("Set-Cookie", "b=2"), ("X-Dup", "2")],
    [("X-Latin", "caf\xe9"), ("ETag", "\"abc\""), ("Cache-Control", "no-cache")],
]
APPHDRS_T = APPHDRS_Q + [
    [("Server", "mine/1.0")],
    [("X-Empty", ""), ("Location", "http://example.com/a%20b?x=1")],
    [("Content-Type", "text/plain; charset=latin-1"), ("Content-Length", LEN), ("Vary", "A, B")],
]
# (write() calls, iterable chunks, iterable kind)
BODYSHAPES_Q = [
    ([], [], "list"),
    ([], [b"hello"], "list"),
    ([], [b"he", b"", b"llo"], "gen"),
    ([b"W"], [b"x"], "list"),
    ([], [b"\x00\xff\r\n\r\n0\r\n"], "close"),
]
BODYSHAPES_T = BODYSHAPES_Q + [
    ([b"a", b"b"], [], "tuple"),
    ([], [b"x" * 70000], "gen"),
    ([], [b"a"] * 5, "close"),
]
RESP_REQS_Q = [("GET", "1.1", False), ("HEAD", "1.1", False), ("GET", "1.0", False)]
RESP_REQS_T = RESP_REQS_Q + [("POST", "1.1", False), ("GET", "1.0", True), ("HEAD", "1.0", True)]
SERVER_OWNED = {"connection", "date", "keep-alive", "transfer-encoding"}
DEFAULTABLE = {"content-length", "content-type", "server"}

MULTIPART_BODY = (b'--x\r\nContent-Disposition: form-data; name="a"\r\n\r\n1\r\n--x--\r\n')


def _multipart(headers):
    return any(n.lower() == "content-type" and v.startswith("multipart/") for n, v in headers)


SIMPLE_RESP = {"status": "200 OK", "headers": [("X-Ok", "1")], "writes": [], "chunks": [b"ok"],
               "kind": "list"}
EMPTY_RESP = {"status": "200 OK", "headers": [("X-Ok", "1")], "writes": [], "chunks": [],
              "kind": "list"}

CUR = {"specs": [], "env": [], "closed": 0, "i": 0}


class _Closable:
    def __init__(self, chunks):
        self.it = iter(chunks)

    def __iter__(self):
        return self

    def __next__(self):
        return next(self.it)

    def close(self):
        CUR["closed"] += 1


def wsgi_app(environ, start_response):
    i = CUR["i"]
    CUR["i"] += 1
    spec = CUR["specs"][min(i, len(CUR["specs"]) - 1)]
    env = dict(environ)
    try:
        inp = environ["wsgi.input"].read()
    except Exception as e:       # recorded, judged by the oracle
        inp = "wsgi.input.read raised %r" % (e,)
    CUR["env"].append((env, inp))
    body_len = sum(len(x) for x in spec["writes"]) + sum(len(x) for x in spec["chunks"])
    hdrs = [(n, str(body_len) if v == LEN else v) for n, v in spec["headers"]]
    if spec.get("restart"):
        # PEP 3333 error handling: the application had already called start_response, failed while producing the body
        # and replaces status and headers (nothing has been sent yet) by calling it again with exc_info
        start_response("200 OK", [("Content-Type", "text/x-discarded"), ("X-Discarded", "1")])
        try:
            raise RuntimeError("body production failed")
        except RuntimeError:
            import sys
            write = start_response(spec["status"], hdrs, sys.exc_info())
    else:
        write = start_response(spec["status"], hdrs)
    for wchunk in spec["writes"]:
        write(wchunk)
    chunks = list(spec["chunks"])
    kind = spec["kind"]
    if kind == "list":
        return chunks
    if kind == "tuple":
        return tuple(chunks)
    if kind == "gen":
        return (c for c in chunks)
    return _Closable(chunks)


def execute(reqs, specs, segmented=False, https=False):
    """Run the requests (pipelined in one segment unless segmented) on one
    connection.  Returns dict(env=[(environ, input)], out, closed, logs)."""
    from mc.vloop import World
    from mc.httph import ServerConn
    from tornado.wsgi import WSGIContainer
    from tornado.concurrent import dummy_executor
    CUR.update(specs=specs, env=[], closed=0, i=0)
    with World() as w:
        container = WSGIContainer(wsgi_app)
        assert container.executor is dummy_executor
        c = ServerConn(w, container, peer=(PEER_IP, 12345), **({"protocol": "https"} if https else {}))
        if segmented:
            for r in reqs:
                c.send(build_request(r))
        else:
            c.send(b"".join(build_request(r) for r in reqs))
        logs = [rec for rec in w.logs.records if rec[3] is not None]
        logs += [("loop", "ERROR", repr(e.get("exception") or e.get("message")),
                  type(e.get("exception")).__name__) for e in w.loop_errors()]
        return {"env": list(CUR["env"]), "out": c.output, "closed": c.closed, "logs": logs,
                "iter_closed": CUR["closed"]}


def exc_name(logrec):
    m = re.search(r"exception=([A-Za-z_]+)\(", logrec[2])
    return m.group(1) if m else logrec[3]


def check_response(resp, problems, spec, method):
    """Yield (sig, detail) for every deviation of the wire response from what
    the application produced."""
    status = spec["status"]
    code, reason = int(status[:3]), status[4:]
    for p in problems:
        yield ("framing:" + re.sub(r"[^a-zA-Z ]", "", p)[:30].strip().replace(" ", "-"), p)
    if resp is None:
        return
    if resp.code != code:
        yield ("status-code", "%r != %r" % (resp.code, code))
    if resp.reason != reason.encode("latin-1"):
        yield ("reason" + ("" if reason.isascii() else ":non-ascii"),
               "wire reason %r != %r" % (resp.reason, reason.encode("latin-1")))
    body = b"".join(spec["writes"]) + b"".join(spec["chunks"])
    app_hdrs = [(n, str(len(body)) if v == LEN else v) for n, v in spec["headers"]]
    wire = [(n.decode("latin-1"), v.decode("latin-1")) for n, v in resp.headers]
    # the application's lines unchanged; the relative order of lines with
    # the same name is significant, the order between names is not (RFC 9110 5.3)
    want_by, wire_by = {}, {}
    for n, v in app_hdrs:
        want_by.setdefault(n.lower(), []).append(v)
    for n, v in wire:
        wire_by.setdefault(n.lower(), []).append(v)
    extras = []
    for ln, want in want_by.items():
        got = wire_by.get(ln, [])
        if got[:len(want)] != want:
            yield ("app-header-changed:" + ("repeated" if len(want) > 1 else
                                            "non-ascii" if not want[0].isascii() else "single"),
                   "application sent %s: %r, the wire has %r" % (ln, want, got))
        elif len(got) > len(want):
            extras.extend((ln, v) for v in got[len(want):])
    extras.extend((n, v) for n, v in wire if n.lower() not in want_by)
    app_names = {n.lower() for n, v in app_hdrs}
    for n, v in extras:
        ln = n.lower()
        if ln in SERVER_OWNED:
            continue
        if ln not in DEFAULTABLE:
            yield ("header-invented", "%s: %s was not produced by the application" % (n, v))
        elif ln in app_names:
            yield ("default-overrides-app:" + ln, "%s: %s added although the application set "
                   "its own" % (n, v))
        elif code == 304 and ln in ("content-length", "content-type"):
            # RFC 9110 8.6 / 15.4.5: a 304 carries the metadata of the selected
            # representation; an invented length/type is false
            yield ("default-on-304:" + ln, "%s: %s added to a 304" % (n, v))
        elif ln == "content-length" and code != 204 and not (100 <= code < 200):
            if not re.match(r"^[0-9]+$", v) or int(v) != len(body):
                yield ("default-content-length-wrong", "Content-Length: %s for a body of %d"
                       % (v, len(body)))
    if code == 204 and any(n.lower() in ("content-length", "content-type") for n, v in extras):
        yield ("either:204-default-headers", None)
    if method != "HEAD" and code not in (204, 304):
        if resp.body != body:
            yield ("body", "wire body %r != application body %r" % (resp.body[:60], body[:60]))


class C47(Check):
    id = "C47"
    level = "exploration"
    design_ref = "DESIGN.md §2 C47"
    rule = ("req: full product method x path x query x Host form x header set (HTTP version "
            "tied to the Host form) against a PEP 3333/RFC 3875 reference of every environ key; "
            "pair: every ordered pair of header sets as two pipelined requests; resp: full "
            "product status x application header set x body shape x (request method, version) "
            "with 204/304 restricted to empty bodies, wire bytes delimited by the strict "
            "RFC 9112 reader; non-trivial = requests with an escape, a port, an IPv6 literal, a "
            "body or a header besides Host / responses with application headers or a body")
    claim = ("Within the enumerated request and response shapes the environ seen by the "
             "application is the one PEP 3333 prescribes for that request, building it never "
             "raises, and the client receives exactly the application's status, header lines "
             "and body plus only the documented default headers.")
    technique = ("bounded exhaustive enumeration of request/response shape products on the real "
                 "HTTPServer + WSGIContainer over an in-memory socket against a from-scratch "
                 "PEP 3333 reference and a strict RFC 9112 response reader")
    assumptions = [
        "invalid percent escapes in the path: PATH_INFO unspecified (EITHER, must not raise)",
        "HTTP/1.0 request without Host: SERVER_NAME/SERVER_PORT are the server's choice (EITHER, "
        "non-empty / digits)",
        "IPv6 literal: SERVER_NAME with or without brackets (EITHER); SERVER_PORT compared as "
        "integer; empty port = scheme default (RFC 3986 3.2.3)",
        "HTTP_CONTENT_TYPE / HTTP_CONTENT_LENGTH duplicates are tolerated (RFC 3875 4.1.18)",
        "Connection / Date / Keep-Alive / Transfer-Encoding belong to the server (PEP 3333 "
        "hop-by-hop rule)",
        "default Content-Length/Content-Type on 204 is EITHER (the harness reader tolerates it); "
        "on 304 it is a violation (RFC 9110 8.6: the value would be false)",
        "the application is PEP 3333 conformant (bytes chunks, 'NNN reason' status, correct own "
        "Content-Length, no body with 204/304)",
    ]

    def doms(self, tier):
        if tier == "quick":
            return (METHODS_Q, PATHS_Q, QUERIES_Q, HOSTS_Q, HDRSETS_Q, STATUSES_Q, APPHDRS_Q,
                    BODYSHAPES_Q, RESP_REQS_Q)
        return (METHODS_T, PATHS_T, QUERIES_T, HOSTS_T, HDRSETS_T, STATUSES_T, APPHDRS_T,
                BODYSHAPES_T, RESP_REQS_T)

    def partitions(self, tier):
        M, P, Q, H, HS, S, AH, B, RR = self.doms(tier)
        parts = [("req", mi, hi) for mi in range(len(M)) for hi in range(len(H))]
        parts += [("pair", i) for i in range(len(HS))]
        parts += [("resp", si, ri) for si in range(len(S)) for ri in range(len(RR))]
        return parts

    def run_partition(self, part, tier, st):
        M, P, Q, H, HS, S, AH, B, RR = self.doms(tier)
        if part[0] == "req":
            _, mi, hi = part
            for pi in range(len(P)):
                for qi in range(len(Q)):
                    for si in range(len(HS)):
                        self.eval_case({"layer": "req", "tier": tier,
                                        "reqs": [[mi, pi, qi, hi, si]]}, st)
                        if pi == 0 and qi == 0 and si == 0:
                            self.eval_case({"layer": "req", "tier": tier, "https": True,
                                            "reqs": [[mi, pi, qi, hi, si]]}, st)
        elif part[0] == "pair":
            _, i = part
            hosts = [0, 1]
            for j in range(len(HS)):
                for mi, mj in ((0, 0), (1, 0), (0, 1)):
                    self.eval_case({"layer": "pair", "tier": tier,
                                    "reqs": [[mi, 1, 1, hosts[0], i], [mj, 0, 0, hosts[1], j]]},
                                   st)
        else:
            _, si, ri = part
            for ai in range(len(AH)):
                for bi in range(len(B)):
                    code = int(S[si][:3])
                    if code in (204, 304) and (B[bi][0] or any(B[bi][1])):
                        continue
                    self.eval_case({"layer": "resp", "tier": tier, "resp": [si, ai, bi, ri]}, st)
                    if bi == 0 or ai == 0:
                        self.eval_case({"layer": "resp", "tier": tier, "resp": [si, ai, bi, ri], "restart": True}, st)

    # ------------------------------------------------------------------
    def materialize(self, case):
        M, P, Q, H, HS, S, AH, B, RR = self.doms(case["tier"])
        reqs, infos, specs = [], [], []
        if case["layer"] == "resp":
            si, ai, bi, ri = case["resp"]
            method, version, ka = RR[ri]
            reqs.append({"method": method, "path": "/r", "query": None, "version": version,
                         "host": "example.com" if version == "1.1" else None, "headers": [],
                         "body": BODIES.get(method, b""), "keepalive": ka})
            infos.append(("name" if version == "1.1" else "absent-1.0",
                          {"example.com"} if version == "1.1" else None,
                          80 if version == "1.1" else None))
            specs.append({"status": S[si], "headers": list(AH[ai]), "writes": list(B[bi][0]),
                          "chunks": list(B[bi][1]), "kind": B[bi][2]})
            return reqs, infos, specs
        for mi, pi, qi, hi, si in case["reqs"]:
            host, version, hclass, names, port = H[hi]
            method = M[mi]
            own_cl = any(n.lower() == "content-length" for n, v in HS[si])
            body = b"" if own_cl else BODIES.get(method, b"")
            if body and _multipart(HS[si]):
                body = MULTIPART_BODY
            reqs.append({"method": method, "path": P[pi], "query": Q[qi], "version": version,
                         "host": host, "headers": list(HS[si]), "body": body,
                         "keepalive": version == "1.0" and len(case["reqs"]) > 1})
            infos.append((hclass, names, port))
            specs.append(EMPTY_RESP if method == "HEAD" else SIMPLE_RESP)
        return reqs, infos, specs

    def eval_case(self, case, st):
        from mc.httph import read_responses
        reqs, infos, specs = self.materialize(case)
        if case.get("https"):
            # HTTPServer(protocol="https") (TLS terminated in front): the scheme is https, the default port 443
            for r in reqs:
                r["scheme"] = "https"
            infos = [(hc, names, (443 if (port == 80 and not re.search(r":[0-9]+$", reqs[i]["host"] or "")) else port))
                     for i, (hc, names, port) in enumerate(infos)]
        if case.get("restart"):
            specs = [dict(sp, restart=True) for sp in specs]
        res = execute(reqs, specs, https=bool(case.get("https")))
        st.ev()
        layer = case["layer"]
        hclass = infos[0][0]
        # ---- did the application get called, did anything raise? ----------
        if res["logs"]:
            rec = res["logs"][0]
            name = exc_name(rec)
            if len(res["env"]) < len(reqs):
                where = "environ-raises" if layer != "resp" else "container-raises-before-app"
                detail = "host=" + infos[len(res["env"])][0]
            else:
                where = "response-raises"
                r0, s0 = reqs[0], specs[0]
                body = b"".join(s0["writes"]) + b"".join(s0["chunks"])
                detail = ("HEAD-with-body" if r0["method"] == "HEAD" and body else
                          "status-%s" % s0["status"][:3])
            st.violation("%s:%s:%s" % (where, name, detail),
                         "request %r: %s; wire output %r" % (build_request(reqs[len(res["env"])
                                                                  if len(res["env"]) < len(reqs)
                                                                  else 0])[:80],
                                                              rec[2][-160:], res["out"][:60]),
                         case)
            st.outcome(("raise", where, name))
            return
        n = len(res["env"])
        if n < len(reqs) and _multipart(reqs[n]["headers"]) and not reqs[n]["body"] \
                and res["out"].endswith(b"HTTP/1.1 400 Bad Request\r\n\r\n"):
            # the HTTP server itself refuses a multipart content type without a
            # multipart body: the request is not "accepted", nothing to judge
            st.note("not-accepted-by-server:multipart-without-body")
            st.outcome(("not-accepted", n))
            reqs, infos, specs = reqs[:n], infos[:n], specs[:n]
            if not reqs:
                return
            res["out"] = res["out"][:-len(b"HTTP/1.1 400 Bad Request\r\n\r\n")]
        if len(res["env"]) != len(reqs):
            st.error("application called %d times for %d requests: %r; output %r"
                     % (len(res["env"]), len(reqs), case, res["out"][:80]))
            return
        # ---- environ ------------------------------------------------------
        for i, ((env, inp), r, info) in enumerate(zip(res["env"], reqs, infos)):
            for key, detail in check_environ(env, inp, r, info):
                if key.startswith("either:"):
                    st.note(key)
                    continue
                st.violation("environ:%s%s" % (key, ":second-request" if i and layer == "pair"
                                                and key.endswith("invented") else ""),
                             "request %r: %s" % (build_request(r)[:120], detail), case)
            st.outcome(("env", tuple(sorted((k, repr(v)) for k, v in env.items()
                                            if k.isupper() and k not in ("QUERY_STRING",
                                                                         "PATH_INFO")))))
        # ---- responses ------------------------------------------------------
        resps, problems = read_responses(res["out"], [r["method"] for r in reqs], res["closed"])
        for i, spec in enumerate(specs):
            rp = resps[i] if i < len(resps) else None
            for key, detail in check_response(rp, problems if i == len(specs) - 1 else [],
                                              spec, reqs[i]["method"]):
                if key.startswith("either:"):
                    st.note(key)
                    continue
                st.violation("response:%s" % key,
                             "request %r, application %r: %s"
                             % (build_request(reqs[i])[:60], _short(spec), detail), case)
            if rp is not None:
                st.outcome(("resp", rp.code, tuple(n.lower() for n, v in rp.headers),
                            len(rp.body), rp.framing))
        for spec in specs:
            if spec["kind"] == "close":
                st.note("iterable.close() called" if res["iter_closed"] else
                        "iterable.close() NOT called")
        # ---- coverage bookkeeping -------------------------------------------
        if layer == "resp":
            if specs[0]["headers"] or specs[0]["chunks"] or specs[0]["writes"]:
                st.nontriv(("resp", tuple(case["resp"])))
        else:
            for r in reqs:
                if ("%" in r["path"] or (r["host"] and (":" in r["host"])) or r["body"]
                        or r["headers"]):
                    st.nontriv(("req", build_request(r)))
        if len(st.samples) < 3 and st.evaluations % 97 == 5:
            st.sample({"request": build_request(reqs[0])[:100],
                       "environ": {k: v for k, v in res["env"][0][0].items() if k.isupper()},
                       "wire": res["out"][:120]})

    def replay(self, case):
        from mc.httph import read_responses
        reqs, infos, specs = self.materialize(case)
        res = execute(reqs, specs)
        out = []
        for r, s in zip(reqs, specs):
            out.append("request  %r" % build_request(r))
            out.append("app      %s" % _short(s))
        for (env, inp), r, info in zip(res["env"], reqs, infos):
            out.append("environ  %r input=%r" % ({k: v for k, v in env.items() if k.isupper()},
                                                   inp))
            for key, detail in check_environ(env, inp, r, info):
                out.append("   %s %s" % (key, detail or ""))
        if len(res["env"]) < len(reqs):
            out.append("application NOT called for request %d" % len(res["env"]))
        out.append("wire     %r closed=%r" % (res["out"][:400], res["closed"]))
        out.append("logs     %r" % (res["logs"],))
        resps, problems = read_responses(res["out"], [r["method"] for r in reqs], res["closed"])
        out.append("reader   problems=%r" % (problems,))
        for i, spec in enumerate(specs):
            rp = resps[i] if i < len(resps) else None
            for key, detail in check_response(rp, [], spec, reqs[i]["method"]):
                out.append("   %s %s" % (key, detail or ""))
        return "\n".join(out)


def _short(spec):
    body = b"".join(spec["writes"]) + b"".join(spec["chunks"])
    return "status=%r headers=%r body=%r(%d) via %s%s" % (
        spec["status"], spec["headers"], body[:20], len(body), spec["kind"],
        "+write()" if spec["writes"] else "")


CHECK = C47()
