"""C11 IOStream reads return exactly the incoming bytes, in order, per request.
Shapes I x S: all read programs up to a length bound x all arrival patterns up
to a deviation bound (DevEx) on the real IOStream over a FakeSocket."""
import re

from mc.core import Check, h
from mc import devex
from mc.vloop import World

DATA = b"ab\r\ncdef\nx12;gh\r\n\r\nij\n\nx3;klmnopqr\r\nstuvwxyz0123456789"
# short streams: the whole stream fits in two short reads, so a read is completed while the EOF is processed
SHORT = [b"abcd\nx\n", b"abc\r\nx1;\r\n\r\ny", b""]
RX_BLANK = re.compile(rb"\r?\n\r?\n")
RX_TOK = re.compile(rb"x[0-9]+;")

# (kind, args...)
OPS = [
    ("rb", 3, False), ("rb", 10, False), ("rb", 5, True),
    ("ri", 3, False), ("ri", 6, True), ("ri", 9, False),
    ("ru", b"\n", None), ("ru", b"\r\n", None), ("ru", b"\n", 2), ("ru", b"\r\n", 4),
    ("rur", "blank", None), ("rur", "tok", 16), ("rur", "tok", 3),
    ("ruc",),
    ("ru", b"\r\n\r\n", None), ("ru", b"\r\n\r\n", 30), ("ru", b"\n", 0), ("rur", "tok", 0),
]
REGEX = {"blank": RX_BLANK, "tok": RX_TOK}


def programs(maxlen):
    import itertools
    for n in range(1, maxlen + 1):
        yield from itertools.product(range(len(OPS)), repeat=n)


def run(ch, prog, chunk, bytewise=False, data=None):
    """Execute one read program under one arrival schedule."""
    from tornado.iostream import IOStream, StreamClosedError
    data = DATA if data is None else data
    with World() as w:
        sock = w.socket()
        s = IOStream(sock, read_chunk_size=chunk)
        st = {"pos": 0, "eof": False}

        def deliver():
            if st["pos"] < len(data):
                rest = len(data) - st["pos"]
                if bytewise:
                    k = 1
                else:
                    sizes = []
                    for c in (rest, 1, 2, chunk - 1, chunk, chunk + 1):
                        if 0 < c <= rest and c not in sizes:
                            sizes.append(c)
                    # last options: everything that is left arrives together with the EOF / with a connection reset
                    c = ch.choose(len(sizes) + 2, "seg")
                    if c >= len(sizes):
                        sock.feed(data[st["pos"]:])
                        st["pos"] = len(data)
                        if c == len(sizes):
                            sock.feed_eof()
                        else:
                            import errno
                            sock.feed_error(ConnectionResetError(errno.ECONNRESET, "reset by peer"))
                        st["eof"] = True
                        w.pump()
                        return True
                    k = sizes[c]
                sock.feed(data[st["pos"]:st["pos"] + k])
                st["pos"] += k
            elif not st["eof"]:
                sock.feed_eof()
                st["eof"] = True
            else:
                return False
            w.pump()
            return True

        results = []
        for oi in prog:
            op = OPS[oi]
            if not bytewise:
                while ch.choose(2, "pre-deliver") == 1:
                    if not deliver():
                        break
            buf = None
            try:
                if op[0] == "rb":
                    f = s.read_bytes(op[1], partial=op[2])
                elif op[0] == "ri":
                    buf = bytearray(op[1])
                    f = s.read_into(buf, partial=op[2])
                elif op[0] == "ru":
                    f = s.read_until(op[1], max_bytes=op[2])
                elif op[0] == "rur":
                    f = s.read_until_regex(REGEX[op[1]].pattern, max_bytes=op[2])
                else:
                    f = s.read_until_close()
            except StreamClosedError as e:
                results.append(("fail", "StreamClosedError", type(e.real_error).__name__, st["pos"], True))
                continue
            except Exception as e:
                results.append(("raise", type(e).__name__, str(e)[:60], st["pos"], s.closed()))
                continue
            w.pump()
            while not f.done():
                if not deliver():
                    break
            if not f.done():
                results.append(("pending", None, None, st["pos"], s.closed()))
                # a pending read blocks every later read ("Already reading"); stop here
                break
            e = f.exception()
            if e is not None:
                results.append(("fail", type(e).__name__, type(getattr(e, "real_error", None)).__name__,
                                st["pos"], s.closed()))
            else:
                r = f.result()
                if buf is not None:
                    results.append(("ok", (r, bytes(buf)), None, st["pos"], s.closed()))
                else:
                    results.append(("ok", r, None, st["pos"], s.closed()))
        errs = [x for x in w.logs.records if x[1] in ("ERROR", "CRITICAL")]
        return results, errs


SMALL_CFG = [(10, 9), (12, 8), (10, None), (9, 4)]      # (max_buffer_size, explicit read_chunk_size)


def run_small(ch, sizes, kinds, mbs, chunk):
    """A consumer reads a 60-byte stream in fixed pieces of <= max_buffer_size // 2 through a stream with a tiny
    max_buffer_size and a close callback, returning to the loop between reads: whatever the arrival pattern, every
    read is satisfiable within the limit, so each returns exactly the next bytes and the stream stays open."""
    from tornado.iostream import IOStream
    data = DATA
    with World() as w:
        sock = w.socket()
        s = IOStream(sock, max_buffer_size=mbs, read_chunk_size=chunk)
        closed_cb = []
        s.set_close_callback(lambda: closed_cb.append(1))
        st = {"pos": 0}
        eff = min(chunk or 65536, mbs // 2)

        def deliver():
            rest = len(data) - st["pos"]
            if rest <= 0:
                return False
            opts = []
            for c in (rest, 1, eff, mbs + 1):
                if 0 < c <= rest and c not in opts:
                    opts.append(c)
            k = opts[ch.choose(len(opts), "seg")]
            sock.feed(data[st["pos"]:st["pos"] + k])
            st["pos"] += k
            w.pump()
            return True
        p = 0
        i = 0
        problems = []
        while p + sizes[i % len(sizes)] <= len(data):
            n = sizes[i % len(sizes)]
            kind = kinds[i % len(kinds)]
            while st["pos"] < len(data) and ch.choose(2, "pre-deliver") == 0:
                deliver()           # default: the peer is ahead of the reader
            buf = bytearray(n)
            try:
                if kind == "rbp":
                    f = s.read_bytes(100 * mbs, partial=True)       # "whatever is there": never more than the buffer holds
                else:
                    f = s.read_bytes(n) if kind == "rb" else s.read_into(buf)
            except Exception as e:
                problems.append(("raised", "read %d (%s %d at offset %d) raised %s" % (i, kind, n, p, type(e).__name__)))
                break
            w.pump()
            while not f.done() and deliver():
                pass
            if not f.done():
                problems.append(("pending", "read %d (%s %d at offset %d) pending with the whole stream sent" % (i, kind, n, p)))
                break
            if f.exception() is not None:
                problems.append(("spurious-failure:" + type(getattr(f.exception(), "real_error", None) or f.exception()).__name__,
                                 "read %d (%s %d at offset %d) failed with %r (real_error %r); buffered %d, "
                                 "max_buffer_size %d" % (i, kind, n, p, f.exception(), getattr(f.exception(), "real_error", None),
                                                        s._read_buffer_size, mbs)))
                break
            got = f.result() if kind in ("rb", "rbp") else bytes(buf[:f.result()])
            if kind == "rbp":
                if not (1 <= len(got) <= mbs) or got != data[p:p + len(got)]:
                    problems.append(("contract", "read %d (partial read at offset %d) returned %r, stream has %r" % (i, p, got, data[p:p + 12])))
                    break
                n = len(got)
            if got != data[p:p + n]:
                problems.append(("contract", "read %d (%s %d at offset %d) returned %r, stream has %r" % (i, kind, n, p, got, data[p:p + n])))
                break
            if s._read_buffer_size > mbs:
                problems.append(("over-max_buffer_size", "%d bytes buffered, limit %d" % (s._read_buffer_size, mbs)))
            p += n
            i += 1
            w.pump()            # the consumer yields to the loop between reads
        if not problems and (s.closed() or closed_cb):
            problems.append(("closed-early", "stream closed after %d reads although the peer never closed" % i))
        errs = [x for x in w.logs.records if x[1] in ("ERROR", "CRITICAL")]
        s.close()
        return problems, errs, i


def judge(prog, results, data=None):
    """Return list of (sig, msg).  Reference: the stream alone."""
    bad = []
    p = 0
    closed = False       # reference view: the stream has been closed
    for i, res in enumerate(results):
        op = OPS[prog[i]]
        kind, val, extra, delivered, is_closed = res
        rest = (DATA if data is None else data)[p:]
        name = "%s%s" % (op[0], ":mb" if op[0] in ("ru", "rur") and op[2] is not None else
                         ":partial" if op[0] in ("rb", "ri") and op[2] else "")
        ctx = ":after-close" if closed else ""
        if kind == "raise":
            bad.append(("%s:raised-%s%s" % (name, val, ctx), "op %d %r raised %s %s" % (i, op, val, extra)))
            break
        if kind == "pending":
            bad.append(("%s:pending-after-eof%s" % (name, ctx), "op %d %r still pending after EOF" % (i, op)))
            break
        # what does the reference say?
        must = None   # True = must succeed, False = must fail, None = either (after close)
        overflow = False
        if op[0] == "rb" or op[0] == "ri":
            n, partial = op[1], op[2]
            must = (len(rest) >= 1) if partial else (len(rest) >= n)
        elif op[0] == "ru":
            d, mb = op[1], op[2]
            loc = rest.find(d)
            end = loc + len(d) if loc >= 0 else None
            if end is not None and (mb is None or end <= mb):
                must = True
            else:
                must = False
                overflow = mb is not None and (end is not None or len(rest) > mb)
        elif op[0] == "rur":
            rx, mb = REGEX[op[1]], op[2]
            m = rx.search(rest)
            if m is not None and (mb is None or m.end() <= mb):
                must = True
            else:
                must = False
                overflow = mb is not None and (m is not None or len(rest) > mb)
        else:
            must = True
        if closed:
            must = None
        if kind == "fail":
            if must is True:
                bad.append(("%s:spurious-failure" % name,
                            "op %d %r failed with %s(%s) although the stream satisfies it (rest=%r)"
                            % (i, op, val, extra, rest[:20])))
                break
            if not is_closed:
                bad.append(("%s:failed-but-stream-open" % name, "op %d %r failed, stream not closed" % (i, op)))
            closed = True
            continue
        # kind == ok: contract
        problem = None
        if op[0] == "rb":
            r = val
            if not isinstance(r, bytes):
                problem = "type-%s" % type(r).__name__
            elif op[2]:
                if not (1 <= len(r) <= op[1]) or r != rest[:len(r)]:
                    problem = "contract"
            elif r != rest[:op[1]] or len(r) != op[1]:
                problem = "contract"
            ln = len(r) if isinstance(r, bytes) else 0
        elif op[0] == "ri":
            k, b = val
            if not isinstance(k, int):
                problem = "type-%s" % type(k).__name__
                ln = 0
            else:
                ln = k
                if op[2]:
                    if not (1 <= k <= op[1]) or b[:k] != rest[:k]:
                        problem = "contract"
                elif k != op[1] or b != rest[:k]:
                    problem = "contract"
        elif op[0] == "ru":
            r = val
            d, mb = op[1], op[2]
            ln = len(r) if isinstance(r, bytes) else 0
            if not isinstance(r, bytes):
                problem = "type-%s" % type(r).__name__
            elif r != rest[:ln] or not r.endswith(d) or r.find(d) != ln - len(d):
                problem = "contract"
            elif mb is not None and ln > mb:
                problem = "longer-than-max_bytes"
        elif op[0] == "rur":
            r = val
            rx, mb = REGEX[op[1]], op[2]
            ln = len(r) if isinstance(r, bytes) else 0
            if not isinstance(r, bytes):
                problem = "type-%s" % type(r).__name__
            else:
                m = rx.search(r)
                if r != rest[:ln] or m is None or m.end() != ln or rx.search(r[:-1]) is not None:
                    problem = "contract"
                elif mb is not None and ln > mb:
                    problem = "longer-than-max_bytes"
        else:
            r = val
            ln = len(r) if isinstance(r, bytes) else 0
            if not isinstance(r, bytes):
                problem = "type-%s" % type(r).__name__
            elif closed:
                if r != rest[:ln]:
                    problem = "contract"
            elif r != rest:
                problem = "contract"
        if problem is None and ln > delivered - p:
            problem = "more-than-delivered"
        if problem is None and must is False:
            problem = "succeeded-but-must-fail" + ("-overflow" if overflow else "")
        if problem:
            bad.append(("%s:%s%s" % (name, problem, ctx),
                        "op %d %r returned %r; remaining stream %r" % (i, op, val, rest[:24])))
            break
        p += ln
        if op[0] == "ruc":
            closed = True
    return bad


class C11(Check):
    id = "C11"
    level = "model_checking"
    rule = ("all read programs of length <= L over 14 read kinds (read_bytes / partial, read_into / partial, "
            "read_until with and without max_bytes incl. exact-fit and overflow, read_until_regex with and "
            "without max_bytes, read_until_close) on a 55-byte stream and on two short streams (7 and 14 bytes, so that a read completes while the EOF is "
            "being processed); environment choices: size of the next "
            "segment in {rest, 1, 2, chunk-1, chunk, chunk+1}, 'segment arrives before the next read is "
            "issued', EOF after the data; explored with deviation bound D (quick 2; thorough 5 for programs of two reads, 4 for three reads, 3 with chunk 8) from the default (everything at "
            "once, read issued first) plus the byte-at-a-time schedule; read_chunk_size 4 (and 8 in thorough); "
            "state = one execution; non-trivial = executions with >= 1 short delivery")
    claim = ("Each execution runs the real IOStream on a level-triggered fake socket; every result is checked "
             "against the contract of its own read computed from the stream alone (value, type, first "
             "delimiter/match, max_bytes, nothing beyond what was delivered), must succeed whenever the "
             "stream satisfies it, and nothing stays pending after EOF.")
    technique = "stateless deviation-bounded schedule exploration (DevEx) of the real code with a stream-only reference"
    assumptions = ["FakeSocket models readiness level-triggered like epoll", "default max_buffer_size, except in the small-buffer family: 60-byte stream read in fixed pieces of <= max_buffer_size // 2 "
                   "with max_buffer_size 9..12, explicit read_chunk_size above and below half of it, a close callback installed"]

    def params(self, tier):
        # (max program length, deviation bound, chunk)
        if tier == "quick":
            return [(2, 2, 4)]
        return [(2, 5, 4), (3, 4, 4), (2, 3, 8)]

    def partitions(self, tier):
        parts = []
        for L, D, chunk in self.params(tier):
            progs = [p for p in programs(L) if len(p) == L or L <= 2 or True]
            # in thorough, (3,2,4) only needs the length-3 programs (shorter covered by (2,3,4))
            if L == 3:
                progs = [p for p in progs if len(p) == 3]
            nsl = 64 if len(progs) > 500 else 16
            for s in range(nsl):
                parts.append((L, D, chunk, s, nsl))
        for di in range(len(SHORT)):
            for s in range(8):
                parts.append((2 if tier == "quick" else 3, 2, 4, s, 8, di))
        for ci in range(len(SMALL_CFG)):
            for kinds in (("rb",), ("ri",), ("rb", "ri"), ("rbp", "rb")):
                parts.append(("small", ci, kinds, 2 if tier == "quick" else 3))
        return parts

    def run_small_partition(self, part, st):
        import itertools
        _, ci, kinds, D = part
        mbs, chunk = SMALL_CFG[ci]
        top = mbs // 2
        for k in (1, 2, 3):
            for sizes in itertools.product(range(max(1, top - 3), top + 1), repeat=k):
                if k > 1 and len(set(sizes)) == 1:
                    continue

                def on_exec(ch, obs, sizes=sizes):
                    problems, errs, nreads = obs
                    st.ev()
                    st.transitions += len(ch.trace)
                    key = h(("small", ci, kinds, sizes, tuple(ch.choices())))
                    st.states.add(key)
                    st.nontrivial.add(key)
                    st.outcome(h(("small", nreads, bool(problems))))
                    for sig, msg in problems:
                        st.violation("small-buffer:" + sig, "max_buffer_size=%d read_chunk_size=%r reads %r x %r choices %r: %s"
                                     % (mbs, chunk, sizes, kinds, ch.choices(), msg),
                                     {"small": [ci, list(kinds), list(sizes)], "choices": ch.choices()})
                    if errs and not problems:
                        st.violation("small-buffer:error-log", "log %r" % (errs[:2],),
                                     {"small": [ci, list(kinds), list(sizes)], "choices": ch.choices()})
                devex.explore(lambda ch: run_small(ch, sizes, kinds, mbs, chunk), bound=D, on_exec=on_exec)
        if mbs % 2 == 0 and kinds in (("rb",), ("ri",)):
            # reads of exactly max_buffer_size while the sender is ahead (every recv fills a whole chunk): the buffer
            # reaches the limit exactly, which is not an overflow
            problems, errs, nreads = run_small(devex.Chooser(), (mbs,), kinds, mbs, chunk)
            st.ev()
            st.states.add(h(("small-exact", ci, kinds)))
            for sig, msg in problems:
                st.violation("small-buffer:exactly-max_buffer_size:" + sig, "max_buffer_size=%d read_chunk_size=%r reads of %d bytes, "
                             "sender ahead: %s" % (mbs, chunk, mbs, msg), {"small": [ci, list(kinds), [mbs]], "choices": []})

    def run_partition(self, part, tier, st):
        if part[0] == "small":
            return self.run_small_partition(part, st)
        L, D, chunk, s, nsl = part[:5]
        data = SHORT[part[5]] if len(part) > 5 else None
        progs = list(programs(L))
        if L == 3 and data is None:
            progs = [p for p in progs if len(p) == 3]
        for pi, prog in enumerate(progs):
            if pi % nsl != s:
                continue
            self.explore_prog(prog, D, chunk, st, data, part[5] if len(part) > 5 else None)
        st.setmax("deviation_bound_completed", D)
        st.setmax("max_program_length", L)

    def explore_prog(self, prog, D, chunk, st, data=None, di=None):
        def on_exec(ch, obs):
            results, errs = obs
            st.ev()
            st.transitions += len(ch.trace)
            key = h((prog, chunk, di, tuple(ch.choices())))
            st.states.add(key)
            if any(c for c in ch.choices()):
                st.nontrivial.add(key)
            st.outcome(h(repr([(r[0], r[1]) for r in results])))
            for sig, msg in judge(prog, results, data):
                st.violation(sig, "program %r chunk=%d%s choices %r: %s"
                             % ([OPS[i] for i in prog], chunk, "" if data is None else " stream %r" % data, ch.choices(), msg),
                             {"prog": list(prog), "chunk": chunk, "choices": ch.choices(), "short": di})
            if errs:
                st.violation("error-log:" + errs[0][2][:30], "program %r: log %r" % (prog, errs[:2]),
                             {"prog": list(prog), "chunk": chunk, "choices": ch.choices(), "short": di})
        devex.explore(lambda ch: run(ch, prog, chunk, data=data), bound=D, on_exec=on_exec)
        # byte-at-a-time schedule
        ch = devex.Chooser()
        obs = run(ch, prog, chunk, bytewise=True, data=data)
        st.ev()
        st.states.add(h((prog, chunk, di, "bytewise")))
        for sig, msg in judge(prog, obs[0], data):
            st.violation(sig, "program %r chunk=%d bytewise: %s" % ([OPS[i] for i in prog], chunk, msg),
                         {"prog": list(prog), "chunk": chunk, "choices": "bytewise", "short": di})
        # determinism: replay the default schedule twice
        if len(st.samples) < 2:
            a = run(devex.Chooser(), prog, chunk, data=data)
            b = run(devex.Chooser(), prog, chunk, data=data)
            if repr(a) != repr(b):
                st.error("nondeterministic replay for %r" % (prog,))
            st.sample({"program": [repr(OPS[i]) for i in prog], "default_schedule_results": repr(a[0])[:300]})

    def replay(self, case):
        if case.get("small"):
            ci, kinds, sizes = case["small"]
            mbs, chunk = SMALL_CFG[ci]
            return "max_buffer_size=%d read_chunk_size=%r sizes %r kinds %r\n%r" % (
                mbs, chunk, sizes, kinds, run_small(devex.Chooser(case["choices"]), tuple(sizes), tuple(kinds), mbs, chunk))
        prog = tuple(case["prog"])
        data = SHORT[case["short"]] if case.get("short") is not None else None
        if case["choices"] == "bytewise":
            obs = run(devex.Chooser(), prog, case["chunk"], bytewise=True, data=data)
        else:
            obs = run(devex.Chooser(case["choices"]), prog, case["chunk"], data=data)
        return "program %r\nresults %r\nverdict %r" % ([OPS[i] for i in prog], obs[0], judge(prog, obs[0], data))


CHECK = C11()
