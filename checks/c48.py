"""C48 OAuth 1.0 / 1.0a request signatures (_oauth_signature,
_oauth10a_signature) equal the HMAC-SHA1 signature of RFC 5849.

Shape I: bounded exhaustive enumeration of (consumer secret, token secret,
method, URL, parameters) over a designed alphabet of unreserved, reserved and
non-ASCII characters, on the real functions, against a reference written from
RFC 5849 section 3.4.1 (base string: 3.4.1.1, base string URI: 3.4.1.2,
parameter normalization: 3.4.1.3.2), 3.4.2 (HMAC-SHA1 key) and 3.6
(percent-encoding).  OAuth Core 1.0 (section 9.1/9.2) and 1.0a define the same
base string and the same key, so both functions are held to the same reference.

On a mismatch the reference is re-evaluated with named single deviations
(names not encoded, key not encoded, ...) and the smallest set of deviations
that reproduces Tornado's value becomes the structural signature, so one
defect = one signature however many inputs show it.
"""
import base64
import hashlib
import hmac
import itertools

from mc.core import Check, h
from mc import detrep_c46 as detrep

ALPHA = ["a", "~", "-", " ", "&", "=", "%", "+", "/", "é"]
UNRESERVED = frozenset(b"ABCDEFGHIJKLMNOPQRSTUVWXYZabcdefghijklmnopqrstuvwxyz0123456789-._~")


def strs(maxlen, minlen=0):
    out = []
    for k in range(minlen, maxlen + 1):
        for t in itertools.product(ALPHA, repeat=k):
            out.append("".join(t))
    return out


# --------------------------------------------------------------------------
# reference (RFC 5849), with switchable named deviations for diagnosis only
# --------------------------------------------------------------------------
def pct(s, safe_extra=b""):
    """RFC 5849 3.6: UTF-8, unreserved kept, everything else %XX upper-case."""
    return "".join(chr(c) if (c in UNRESERVED or c in safe_extra) else "%%%02X" % c
                   for c in s.encode("utf-8"))


DEFAULT_PORT = {"http": "80", "https": "443"}


def build_url(u):
    """u = dict(scheme, userinfo, host, port, path, params) -> URL text given
    to Tornado.  ``params`` is a ';'-suffix that is part of the RFC 3986 path."""
    s = u["scheme"] + "://"
    if u.get("userinfo"):
        s += u["userinfo"] + "@"
    s += u["host"]
    if u.get("port"):
        s += ":" + u["port"]
    s += u["path"] + u.get("params", "")
    return s


def ref_signature(consumer_secret, token_secret, method, u, params, dev=frozenset()):
    # 3.4.1.2 base string URI
    scheme = u["scheme"].lower()
    host = u["host"] if "host-not-lowercased" in dev else u["host"].lower()
    authority = host
    if u.get("userinfo"):
        authority = u["userinfo"] + "@" + authority      # EITHER class, never asserted
    port = u.get("port")
    if port and (port != DEFAULT_PORT.get(scheme) or "default-port-kept" in dev):
        authority += ":" + port
    path = u["path"] + ("" if "path-params-dropped" in dev else u.get("params", ""))
    base_uri = scheme + "://" + authority + path
    # 3.4.1.3.2 parameter normalization
    slash = b"/" if "slash-not-encoded" in dev else b""

    def enc(x):
        return pct(x, slash)

    if "param-names-not-encoded" in dev:
        pairs = sorted((k, enc(v)) for k, v in params)          # raw names, raw order
    else:
        pairs = [(enc(k), enc(v)) for k, v in params]
        if "param-sort-on-raw-names" in dev:
            order = sorted(range(len(params)), key=lambda i: params[i])
            pairs = [pairs[i] for i in order]
        else:
            pairs.sort(key=lambda kv: (kv[0].encode("ascii"), kv[1].encode("ascii")))
    normalized = "&".join("%s=%s" % kv for kv in pairs)
    m = method if "method-not-uppercased" in dev else method.upper()
    # 3.4.1.1 concatenation
    base = "&".join([enc(m), enc(base_uri), enc(normalized)])
    # 3.4.2 key
    ts = token_secret or ""
    if "key-not-encoded" in dev:
        key = consumer_secret.encode("utf-8") + b"&" + ts.encode("utf-8")
    else:
        key = (pct(consumer_secret) + "&" + pct(ts)).encode("ascii")
    return base64.b64encode(hmac.new(key, base.encode("ascii"), hashlib.sha1).digest())


DEVIATIONS = ["param-names-not-encoded", "param-sort-on-raw-names", "key-not-encoded",
              "default-port-kept", "path-params-dropped", "host-not-lowercased",
              "method-not-uppercased", "slash-not-encoded"]


def explain(got, cs, ts, method, u, params):
    """Smallest set of named deviations reproducing Tornado's value, or None."""
    for k in (1, 2, 3):
        for devs in itertools.combinations(DEVIATIONS, k):
            if ref_signature(cs, ts, method, u, params, frozenset(devs)) == got:
                return devs
    return None


def features(cs, ts, method, u, params):
    f = []
    if any(pct(k) != k for k, _ in params):
        f.append("name-needs-encoding")
    if any(pct(v) != v for _, v in params):
        f.append("value-needs-encoding")
    if pct(cs) != cs or pct(ts or "") != (ts or ""):
        f.append("secret-needs-encoding")
    if len(params) > 1:
        f.append("multi-param")
    if u["host"] != u["host"].lower() or u["scheme"] != u["scheme"].lower():
        f.append("url-case")
    if u.get("port"):
        f.append("port")
    if u.get("params"):
        f.append("path-params")
    if method != method.upper():
        f.append("method-case")
    return f


# --------------------------------------------------------------------------
# the designed space
# --------------------------------------------------------------------------
U0 = dict(scheme="http", host="example.com", path="/r")
URLS = []
for _scheme in ("http", "HTTP", "https", "hTTps"):
    for _host in ("example.com", "EXAMPLE.com", "Ex-1.Example.COM", "[::1]", "[2001:DB8::1]"):
        for _port in (None, "8080", "80", "443"):
            for _path, _params in (("/", ""), ("/a%20b/C~d", ""), ("/r/-._", ""),
                                   ("/p", ";x=1"), ("/%7Eu", "")):
                URLS.append(dict(scheme=_scheme, host=_host, port=_port, path=_path,
                                 params=_params))
URLS.append(dict(scheme="http", userinfo="Us:pW", host="example.com", path="/r"))
URLS.append(dict(scheme="https", userinfo="u", host="EXAMPLE.com", port="8443", path="/r"))
METHODS = ["GET", "get", "POST", "Post", "delete"]
PSETS = [(("oauth_nonce", "n1"), ("b", "2")), (("z", "a b"), ("A", "é"))]
# values are documented as Any and sent as str(value): values that compare equal but print differently
PSETS_TYPED = [(("page", 1), ("trim_user", True), ("ratio", 1.0)), (("trim_user", True), ("page", 1)),
               (("off", 0), ("flag", False), ("z", 0.0)), (("flag", False), ("off", 0)), (("n", None), ("m", 2))]


def cases(part, tier):
    """Yield (consumer_secret, token_secret|None, method, url-dict, params tuple)."""
    kind = part[0]
    L = 2 if tier == "quick" else 3
    if kind == "single":
        # one parameter: every name (1..L chars) x every value (0..2 chars)
        names = strs(L, 1)
        values = strs(2)
        for n in names[part[1]::part[2]]:
            for v in values:
                yield ("cs", "ts", "GET", U0, ((n, v),))
    elif kind == "pairs":
        # sorting: every unordered pair of distinct names of 1..2 chars
        names = strs(2, 1)
        idx = 0
        for i in range(len(names)):
            for j in range(i + 1, len(names)):
                idx += 1
                if idx % part[2] != part[1]:
                    continue
                # inserted in descending raw order so that sorting is needed
                yield ("cs", None, "POST", U0, ((names[j], "1"), (names[i], "2")))
    elif kind == "triples":
        # three parameters: names from the alphabet (+ some 2-char names in
        # thorough), values from a small set
        names = strs(1, 1) + (["aa", "a ", "a~", "a%", "~a", " a", "éa"] if tier == "thorough" else [])
        vals = ["", "a", " /"] if tier == "quick" else ["", "a", " /", "é&", "="]
        idx = 0
        for combo in itertools.combinations(names, 3):
            for vs in itertools.product(vals, repeat=3):
                idx += 1
                if idx % part[2] != part[1]:
                    continue
                yield ("c s", "t&s", "GET", U0, tuple(zip(reversed(combo), vs)))
    elif kind == "secrets":
        secs = strs(L if tier == "thorough" else 2)
        toks = [None] + strs(2)
        for cs in secs[part[1]::part[2]]:
            for ts in toks:
                yield (cs, ts, "GET", U0, (("a", "1"),))
    elif kind == "urls":
        for u in URLS[part[1]::part[2]]:
            for m in METHODS:
                for ps in PSETS:
                    yield ("cs", "ts", m, u, ps)
                yield ("cs", None, m, u, ())
        if part[1] == 0:
            for ps in PSETS_TYPED + list(reversed(PSETS_TYPED)):
                yield ("cs", "ts", "GET", U0, ps)
    elif kind == "mixin":
        # the signed parameter set a mixin produces for a resource request (both protocol versions, every method)
        for ver in ("1.0", "1.0a"):
            for m in METHODS:
                for u in (U0, URLS[7], URLS[-1 - 2]):
                    for ps in (PSETS[1], (("b", "2"), ("a", "1 /")), ()):
                        yield ("c s", "t&s", m, u, ps, ver)
    else:
        raise AssertionError(part)


def url_class(u):
    if u.get("userinfo"):
        return "userinfo"
    return None


class C48(Check):
    id = "C48"
    level = "exploration"
    design_ref = "DESIGN.md §2 C48"
    rule = ("alphabet {a ~ - SP & = % + / e-acute}; blocks: (single) every name of 1..L chars x "
            "every value of 0..2 chars [L=2 quick, 3 thorough]; (pairs) every unordered pair of "
            "distinct names of 1..2 chars, inserted in descending order; (triples) every 3-subset "
            "of the 1-char names [+7 two-char names thorough] x 3 [5] values per parameter; "
            "(secrets) every consumer secret of 0..2 [0..3] chars x token secret {absent} U 0..2 "
            "chars; (urls) 4 scheme spellings x 3 host spellings x port {none,8080,80,443} x 5 "
            "paths (escapes, ';' path parameters) + 2 userinfo URLs, x 5 method spellings x 3 "
            "parameter sets; both signature functions per case.  non-trivial = something needs "
            "percent-encoding, sorting or case normalization")
    claim = ("Within the enumerated space both functions return exactly the RFC 5849 "
             "HMAC-SHA1 signature (encoded+sorted names and values, normalized base URI, "
             "encoded key).")
    technique = ("bounded exhaustive enumeration of signature inputs on the real "
                 "_oauth_signature/_oauth10a_signature against an RFC 5849 reference written "
                 "from scratch; mismatches classified by named single deviations of the reference")
    assumptions = [
        "URLs carry no query or fragment (callers pass query parameters in `parameters`)",
        "parameter names are distinct (dict); values are str, plus a block of int / bool / float / None values (sent as str(value))",
        "URLs with userinfo: RFC 5849 ties the authority to the Host header, which has no "
        "userinfo; executed, crash-checked, not asserted (EITHER)",
        "OAuth Core 1.0 and 1.0a are held to the RFC 5849 reference (same base string and key "
        "construction in all three documents)",
    ]

    BLOCKS = [("single", 12), ("pairs", 4), ("triples", 4),
              ("secrets", 8), ("urls", 4), ("mixin", 1)]

    def partitions(self, tier):
        return [(b, i, n) for b, n in self.BLOCKS for i in range(n)]

    def _eval_mixin(self, auth, case):
        cs, ts, method, u, params, ver = case
        url = build_url(u)

        class M(auth.OAuthMixin):
            _OAUTH_VERSION = ver

            def _oauth_consumer_token(self):
                return {"key": "ck", "secret": cs}
        try:
            got = M()._oauth_request_parameters(url, {"key": "tk", "secret": ts}, dict(params), method=method)
        except Exception as e:
            return url, {"mixin": ("exc", "%s: %s" % (type(e).__name__, e))}, None
        signed = [(k, v) for k, v in got.items() if k != "oauth_signature"] + [(k, v) for k, v in params if k not in got]
        want = ref_signature(cs, ts, method, u, [(k, str(v)) for k, v in signed])
        sig = got.get("oauth_signature")
        return url, {"mixin": ("ok", sig if isinstance(sig, bytes) else str(sig).encode())}, want

    def _extra_mixin_cases(self, auth, st):
        """Two more entry points that sign: the request-token URL with extra_params (1.0a), and TwitterMixin.twitter_request
        for a POST whose arguments all travel in the query string (post_args={})."""
        import asyncio
        import urllib.parse
        cs, ts = "c s", "t&s"
        for u in (U0, URLS[7]):
            for extra in ({"scope": "a b"}, {"x_auth_access_type": "read", "z": "1&2"}, None):
                class M(auth.OAuthMixin):
                    _OAUTH_VERSION = "1.0a"
                    _OAUTH_REQUEST_TOKEN_URL = build_url(u)

                    def _oauth_consumer_token(self):
                        return {"key": "ck", "secret": cs}
                st.ev()
                jc = {"cs": cs, "ts": None, "method": "GET", "u": u, "params": sorted((extra or {}).items()), "ver": "request-token"}
                try:
                    url = M()._oauth_request_token_url(callback_uri="oob", extra_params=extra)
                except Exception as e:
                    detrep.report(st, "mixin:request-token:exception", "%s: %s" % (type(e).__name__, e), jc)
                    continue
                args = dict(urllib.parse.parse_qsl(urllib.parse.urlsplit(url).query, keep_blank_values=True))
                sig = args.pop("oauth_signature", "")
                want = ref_signature(cs, None, "GET", u, sorted(args.items()))
                st.nontriv(("request-token", build_url(u), repr(extra)))
                if sig.encode() != want:
                    detrep.report(st, "mixin:request-token-signature:%s" % ("extra_params" if extra else "plain"),
                                  "request-token URL %s: oauth_signature %s, RFC 5849 over all the parameters it carries gives %s"
                                  % (url, sig, want.decode()), jc)
        for post_args, kw in (({}, {"id": "7"}), ({}, {}), ({"status": "a b"}, {}), (None, {"q": "x"})):
            sent = {}

            class Resp:
                body = b"{}"

            class Client:
                async def fetch(self, url, **kwargs):
                    sent.update(url=url, **kwargs)
                    return Resp()

            class T(auth.TwitterMixin):
                def _oauth_consumer_token(self):
                    return {"key": "ck", "secret": cs}

                def get_auth_http_client(self):
                    return Client()
            st.ev()
            jc = {"cs": cs, "ts": ts, "method": "POST" if post_args is not None else "GET", "u": U0, "params": sorted(kw.items()), "ver": "twitter"}
            loop = asyncio.new_event_loop()
            try:
                loop.run_until_complete(T().twitter_request("/statuses/x", {"key": "tk", "secret": ts}, post_args=post_args, **kw))
            except Exception as e:
                detrep.report(st, "mixin:twitter:exception", "%s: %s" % (type(e).__name__, e), jc)
                continue
            finally:
                loop.close()
            method = sent.get("method", "GET")
            parts = urllib.parse.urlsplit(sent["url"])
            args = dict(urllib.parse.parse_qsl(parts.query, keep_blank_values=True))
            if sent.get("body"):
                args.update(urllib.parse.parse_qsl(sent["body"], keep_blank_values=True))
            sig = args.pop("oauth_signature", "")
            tu = dict(scheme=parts.scheme, host=parts.netloc, path=parts.path)
            want = ref_signature(cs, ts, method, tu, sorted(args.items()))
            st.nontriv(("twitter", repr(post_args), repr(kw)))
            if sig.encode() != want:
                detrep.report(st, "mixin:twitter-signature:%s" % method, "twitter_request(post_args=%r, %r) sent %s %s with oauth_signature %s; "
                              "RFC 5849 for that method and those parameters gives %s" % (post_args, kw, method, sent["url"], sig, want.decode()), jc)

    def _eval(self, auth, case):
        if len(case) == 6:
            return self._eval_mixin(auth, case)
        cs, ts, method, u, params = case
        url = build_url(u)
        consumer = {"key": "ck", "secret": cs}
        token = None if ts is None else {"key": "tk", "secret": ts}
        out = {}
        for name, fn in (("sig10", auth._oauth_signature), ("sig10a", auth._oauth10a_signature)):
            pd = dict(params)
            try:
                out[name] = ("ok", fn(consumer, method, url, pd, token))
            except Exception as e:
                out[name] = ("exc", "%s: %s" % (type(e).__name__, e))
        want = ref_signature(cs, ts, method, u, [(k, str(v)) for k, v in params])
        return url, out, want

    def run_partition(self, part, tier, st):
        from tornado import auth
        if part[0] == "mixin":
            self._extra_mixin_cases(auth, st)
        for case in cases(part, tier):
            cs, ts, method, u, params = case[:5]
            st.ev()
            url, out, want = self._eval(auth, case)
            if len(case) == 6:
                kind, got = out["mixin"]
                st.nontriv(("mixin",) + (cs, ts, method, url, params, case[5]))
                st.outcome(h(("mixin", kind)))
                jc = {"cs": cs, "ts": ts, "method": method, "u": u, "params": list(params), "ver": case[5]}
                if kind != "ok":
                    detrep.report(st, "mixin:exception", "_oauth_request_parameters raised %s for %s %s" % (got, method, url), jc)
                elif got != want and not url_class(u):
                    detrep.report(st, "mixin:request-signature:%s:%s" % (case[5], "GET" if method.upper() == "GET" else "non-GET"),
                                  "OAuth %s mixin, %s %s %r: oauth_signature %s, RFC 5849 over the returned parameters gives %s"
                                  % (case[5], method, url, dict(params), got.decode("latin-1"), want.decode()), jc)
                continue
            feats = features(cs, ts, method, u, tuple((k, str(v)) for k, v in params))
            if any(not isinstance(v, str) for _, v in params):
                feats = list(feats) + ["typed-values"]
            if feats:
                st.nontriv((cs, ts, method, url, params))
            st.outcome(h((out["sig10"], out["sig10a"])))
            if len(st.samples) < 1 and part[1] == 0 and len(feats) >= 2:
                st.sample({"consumer_secret": cs, "token_secret": ts, "method": method,
                           "url": url, "params": list(params), "rfc5849": want.decode(),
                           "sig10": repr(out["sig10"]), "sig10a": repr(out["sig10a"])})
            either = url_class(u)
            for name in ("sig10", "sig10a"):
                kind, got = out[name]
                jc = {"cs": cs, "ts": ts, "method": method, "u": u, "params": list(params)}
                if kind != "ok":
                    detrep.report(st, "%s:exception" % name, "%s raised %s for %s %s %r"
                                 % (name, got, method, url, params), jc)
                    continue
                if not isinstance(got, bytes):
                    detrep.report(st, "%s:not-bytes" % name, "returned %r" % (got,), jc)
                    continue
                if either:
                    st.note("either:" + either)
                    continue
                if got == want:
                    continue
                devs = explain(got, cs, ts, method, u, [(k, str(v)) for k, v in params])
                msg = ("%s(consumer_secret=%r, token_secret=%r, %r, %r, %r) = %s, RFC 5849 "
                       "gives %s" % (name, cs, ts, method, url, dict(params),
                                     got.decode("latin-1"), want.decode()))
                if devs is None:
                    detrep.report(st, "%s:unexplained:%s" % (name, "+".join(feats) or "plain"), msg, jc)
                else:
                    for d in devs:
                        detrep.report(st, "%s:%s" % (name, d),
                                     msg + " [reproduced by a reference with: %s]" % ", ".join(devs),
                                     jc)

    def finalize(self, tier, st):
        detrep.finalize(st)

    def replay(self, case):
        from tornado import auth
        u = {k: v for k, v in case["u"].items() if v is not None}
        params = tuple((k, v) for k, v in case["params"])
        c = (case["cs"], case["ts"], case["method"], u, params)
        if case.get("ver") in ("request-token", "twitter"):
            from mc.core import Stats
            st = Stats()
            self._extra_mixin_cases(auth, st)
            return repr({k: v[0] for k, v in st.violations.items()}) or "ok"
        if case.get("ver"):
            url, out, want = self._eval(auth, c + (case["ver"],))
            return "OAuth %s mixin %s %s %r\n  oauth_signature %r\n  RFC 5849 over the returned parameters: %r" % (
                case["ver"], case["method"], url, dict(params), out["mixin"], want)
        url, out, want = self._eval(auth, c)
        lines = ["consumer_secret=%r token_secret=%r method=%r url=%r parameters=%r"
                 % (case["cs"], case["ts"], case["method"], url, dict(params)),
                 "  RFC 5849 reference : %s" % want.decode()]
        for name in ("sig10", "sig10a"):
            kind, got = out[name]
            if kind == "ok":
                devs = None if got == want else explain(got, *c[:4], [(k, str(v)) for k, v in params])
                lines.append("  real %-7s       : %s  %s" % (
                    name, got.decode("latin-1"),
                    "== reference" if got == want else "MISMATCH (reproduced by reference with %r)" % (devs,)))
            else:
                lines.append("  real %-7s       : raised %s" % (name, got))
        return "\n".join(lines)


CHECK = C48()
