"""C21 Escaping and encoding helpers are safe and invertible.
Shape I: bounded exhaustive enumeration of inputs (all strings <= k over small
designed alphabets, all JSON trees of bounded depth/width) evaluated on the
real tornado.escape functions against independent references written here
(entity tokenizer, RFC 3986 percent codec, RFC 3629 UTF-8 codec, a query
string splitter).  No Tornado function is used to compute an expectation."""
import itertools
import re

from mc.core import Check, h

# ---------------------------------------------------------------- alphabets
TEXT = ["a", "<", ">", "&", '"', "'", ";", "#", "x", "0", " ", "\n", "\x00",
        "%", "+", "/", "=", "?", "\u00e9", "\uffff", "\U0001F600", "&amp;", "\ufeff"]
BYTES = [0x00, 0x20, 0x25, 0x2B, 0x2F, 0x41, 0x7F, 0x80, 0xC3, 0xA9, 0xFF,
         0xE2, 0x82, 0xED, 0xA0, 0xC0, 0xF0, 0x9F, 0xEF, 0xBB, 0xBF]
URLDEC = ["a", "0", "F", "%", "+", "/", " ", "\u00e9", "\U0001F600",
          "%41", "%c3", "%A9", "%2B", "%20", "%00", "%FF"]
QS = [b"a", b"b", b"=", b"&", b"+", b"%", b"%41", b"%26", b"%3D", b"%ff", b"%2",
      b"\x00", b" ", b"\x80", b"\xc3", b"\xff", b";"]
JS = ["a", "<", "/", "\\", '"', "\u00e9", "\x00", "\u2028", "\U0001F600", "&",
      "</script>", "<!--", "-->", "!", "-", "<script", ">", "]]>", "'"]

DEPTH = {
    #            text  bytes urldec qs  jsonstr
    "quick":    (3,    3,    3,     4,  2),
    "thorough": (4,    4,    4,     5,  3),
}


def suffixes(alpha, n):
    for k in range(0, n + 1):
        yield from itertools.product(alpha, repeat=k)


# ------------------------------------------------------ independent references
ENT = {"&amp;": "&", "&lt;": "<", "&gt;": ">", "&quot;": '"', "&#x27;": "'", "&#39;": "'",
       "&#X27;": "'", "&apos;": "'"}
_ENT_ONE = re.compile(r"&(?:amp|lt|gt|quot|#x27|#X27|#39|apos);")
_ENT_ALL = re.compile(r"(?:&(?:amp|lt|gt|quot|#x27|#X27|#39|apos);|[^&<>\"'])*", re.S)


def ref_html_decode(e):
    """Tokenise escaped text into (the five entities | one non-special char)*;
    return the decoded text or None if any raw special / stray '&' is found."""
    if _ENT_ALL.fullmatch(e) is None:
        return None
    return _ENT_ONE.sub(lambda m: ENT[m.group(0)], e)


def ref_utf8_encode(s):
    out = bytearray()
    for ch in s:
        c = ord(ch)
        if 0xD800 <= c <= 0xDFFF:
            return None
        if c < 0x80:
            out.append(c)
        elif c < 0x800:
            out += bytes([0xC0 | c >> 6, 0x80 | c & 0x3F])
        elif c < 0x10000:
            out += bytes([0xE0 | c >> 12, 0x80 | (c >> 6) & 0x3F, 0x80 | c & 0x3F])
        else:
            out += bytes([0xF0 | c >> 18, 0x80 | (c >> 12) & 0x3F, 0x80 | (c >> 6) & 0x3F,
                          0x80 | c & 0x3F])
    return bytes(out)


def ref_utf8_decode(b):
    """Strict RFC 3629 decoder; None if ill-formed."""
    out = []
    i = 0
    n = len(b)
    while i < n:
        c = b[i]
        if c < 0x80:
            out.append(chr(c)); i += 1; continue
        if 0xC2 <= c <= 0xDF:
            need, cp, lo = 1, c & 0x1F, 0x80
        elif 0xE0 <= c <= 0xEF:
            need, cp, lo = 2, c & 0x0F, 0x800
        elif 0xF0 <= c <= 0xF4:
            need, cp, lo = 3, c & 0x07, 0x10000
        else:
            return None
        if i + need >= n:          # truncated sequence
            return None
        for k in range(1, need + 1):
            x = b[i + k]
            if x & 0xC0 != 0x80:
                return None
            cp = cp << 6 | x & 0x3F
        if cp < lo or cp > 0x10FFFF or 0xD800 <= cp <= 0xDFFF:
            return None
        out.append(chr(cp))
        i += need + 1
    return "".join(out)


UNRESERVED = frozenset(b"ABCDEFGHIJKLMNOPQRSTUVWXYZabcdefghijklmnopqrstuvwxyz0123456789-._~")
HEX = frozenset(b"0123456789abcdefABCDEF")


def ref_pct_decode(b, plus):
    """RFC 3986 percent-decoding of bytes; returns (decoded, had_invalid_pct)."""
    out = bytearray()
    i = 0
    n = len(b)
    bad = False
    while i < n:
        c = b[i]
        if c == 0x25:
            if i + 3 <= n and b[i + 1] in HEX and b[i + 2] in HEX:
                out.append(int(b[i + 1:i + 3], 16))
                i += 3
                continue
            bad = True
            out.append(c)
        elif c == 0x2B and plus:
            out.append(0x20)
        else:
            out.append(c)
        i += 1
    return bytes(out), bad


def escaped_form_ok(e, plus):
    """URL-escaped output may only contain unreserved characters, %HH triplets
    and the mode's own literal ('+' for space in plus mode, '/' otherwise)."""
    try:
        b = e.encode("ascii")
    except UnicodeEncodeError:
        return False
    i = 0
    n = len(b)
    while i < n:
        c = b[i]
        if c == 0x25:
            if i + 3 > n or b[i + 1] not in HEX or b[i + 2] not in HEX:
                return False
            i += 3
            continue
        if c in UNRESERVED or (plus and c == 0x2B) or (not plus and c == 0x2F):
            i += 1
            continue
        return False
    return True


def canon(v):
    """Type-strict canonical form (True != 1, 1 != 1.0, tuple != list)."""
    if isinstance(v, dict):
        return ("dict", tuple(sorted(((canon(k), canon(x)) for k, x in v.items()), key=repr)))
    if isinstance(v, list):
        return ("list", tuple(canon(x) for x in v))
    if isinstance(v, tuple):
        return ("tuple", tuple(canon(x) for x in v))
    return (type(v).__name__, v)


def ref_recursive_unicode(o):
    if isinstance(o, dict):
        return {ref_recursive_unicode(k): ref_recursive_unicode(v) for k, v in o.items()}
    if isinstance(o, list):
        return [ref_recursive_unicode(x) for x in o]
    if isinstance(o, tuple):
        return tuple(ref_recursive_unicode(x) for x in o)
    if isinstance(o, bytes):
        return ref_utf8_decode(o)
    return o


def ref_parse_qs(b, keep_blank):
    """Reference (non-strict) form decoding: fields separated by '&', name and
    value separated by the first '=', '+' is space, %HH is a byte; every other
    byte is itself.  Returns (ordered dict name-bytes -> [value-bytes],
    has_field_without_equals)."""
    out = {}
    noeq = False
    for piece in b.split(b"&"):
        if not piece:
            noeq = True       # empty field: an error only under strict parsing
            continue
        if b"=" in piece:
            name, value = piece.split(b"=", 1)
        else:
            noeq = True
            if not keep_blank:
                continue
            name, value = piece, b""
        if not value and not keep_blank:
            continue
        out.setdefault(ref_pct_decode(name, True)[0], []).append(ref_pct_decode(value, True)[0])
    return out, noeq


def call(fn, *a, **k):
    try:
        return ("ok", fn(*a, **k))
    except Exception as e:       # the type is the observation
        return ("exc", type(e).__name__)


# ------------------------------------------------------------ per-case oracles
# each returns a list of (sig, message); `obs` (replay) collects real/expected

def chk_html(E, s, st, obs=None):
    bad = []
    forms = [("str", s)]
    enc = ref_utf8_encode(s)
    if enc is not None:
        forms.append(("bytes", enc))
    for form, arg in forms:
        st.ev()
        r = call(E.xhtml_escape, arg)
        if obs is not None:
            obs.append("xhtml_escape(%r) -> %r" % (arg, r))
        if r[0] != "ok" or not isinstance(r[1], str):
            bad.append(("html:escape-raised-or-nonstr:" + form,
                        "xhtml_escape(%r) -> %r" % (arg, r)))
            continue
        e = r[1]
        for ch in "<>\"'":
            if ch in e:
                bad.append(("html:raw-special-in-output",
                            "xhtml_escape(%r) = %r contains raw %r" % (arg, e, ch)))
                break
        dec = ref_html_decode(e)
        if obs is not None:
            obs.append("  reference entity decoding -> %r, expected %r" % (dec, s))
        if dec is None:
            bad.append(("html:stray-ampersand", "xhtml_escape(%r) = %r has '&' outside the five "
                        "entities" % (arg, e)))
        elif dec != s:
            bad.append(("html:escape-not-faithful", "xhtml_escape(%r) = %r decodes (reference) to %r"
                        % (arg, e, dec)))
        for uform, uarg in (("str", e), ("bytes", e.encode("ascii", "strict") if e.isascii() else None)):
            if uarg is None:
                continue
            st.ev()
            u = call(E.xhtml_unescape, uarg)
            if obs is not None:
                obs.append("  xhtml_unescape(%r) -> %r, expected ('ok', %r)" % (uarg, u, s))
            if u != ("ok", s):
                bad.append(("html:unescape-roundtrip:" + uform,
                            "xhtml_unescape(xhtml_escape(%r)) -> %r" % (arg, u)))
        if any(c in s for c in "<>&\"'"):
            st.nontriv(("html", s))
        st.outcome(("html", len(e) - len(s)))
    return bad


def chk_url(E, v, st, obs=None):
    """v: str (surrogate-free) or bytes.  escape -> structural form -> reference
    decode -> tornado unescape (bytes form, and text form when valid UTF-8)."""
    bad = []
    raw = v if isinstance(v, bytes) else ref_utf8_encode(v)
    kind = "bytes" if isinstance(v, bytes) else "str"
    text = ref_utf8_decode(raw)
    for plus in (True, False):
        st.ev()
        r = call(E.url_escape, v, plus)
        if obs is not None:
            obs.append("url_escape(%r, plus=%r) -> %r" % (v, plus, r))
        if r[0] != "ok" or not isinstance(r[1], str):
            bad.append(("url:escape-raised:" + kind, "url_escape(%r, plus=%r) -> %r" % (v, plus, r)))
            continue
        e = r[1]
        if not escaped_form_ok(e, plus):
            bad.append(("url:escaped-form-has-reserved-char", "url_escape(%r, plus=%r) = %r"
                        % (v, plus, e)))
        if b" " in raw and (("+" in e) != plus or ("%20" in e) == plus):
            bad.append(("url:space-representation", "url_escape(%r, plus=%r) = %r: space must be "
                        "'+' iff plus" % (v, plus, e)))
        if b"/" in raw and (("/" in e) == plus):
            bad.append(("url:slash-representation", "url_escape(%r, plus=%r) = %r: slash must be "
                        "%%2F iff plus" % (v, plus, e)))
        d, _ = ref_pct_decode(e.encode("ascii", "replace"), plus)
        if d != raw:
            bad.append(("url:escape-not-faithful", "url_escape(%r, plus=%r) = %r decodes (reference) "
                        "to %r" % (v, plus, e, d)))
        for arg in (e, e.encode("ascii", "replace")):
            st.ev()
            u = call(E.url_unescape, arg, encoding=None, plus=plus)
            if obs is not None:
                obs.append("  url_unescape(%r, encoding=None, plus=%r) -> %r, expected ('ok', %r)"
                           % (arg, plus, u, raw))
            if u != ("ok", raw):
                bad.append(("url:roundtrip-bytes-form:plus=%s" % plus,
                            "url_unescape(url_escape(%r, plus=%r)=%r, encoding=None, plus=%r) -> %r"
                            % (v, plus, arg, plus, u)))
            if text is not None:
                st.ev()
                u = call(E.url_unescape, arg, plus=plus)
                if obs is not None:
                    obs.append("  url_unescape(%r, plus=%r) -> %r, expected ('ok', %r)"
                               % (arg, plus, u, text))
                if u != ("ok", text):
                    bad.append(("url:roundtrip-text-form:plus=%s" % plus,
                                "url_unescape(url_escape(%r, plus=%r)=%r, plus=%r) -> %r"
                                % (v, plus, arg, plus, u)))
            else:
                st.note("either:url-text-form-of-non-utf8-bytes")
        st.outcome(("url", plus, len(e) - len(raw)))
    if any(c in raw for c in b" +/%") or any(c >= 0x80 for c in raw):
        st.nontriv(("url", v))
    return bad


def chk_urldec(E, s, st, obs=None):
    """Direct unescape of an arbitrary (not produced by url_escape) string
    against the reference percent-decoder."""
    bad = []
    raw = ref_utf8_encode(s)
    for plus in (True, False):
        want, invalid = ref_pct_decode(raw, plus)
        wtext = ref_utf8_decode(want)
        for arg in (s, raw):
            st.ev(2)
            u = call(E.url_unescape, arg, encoding=None, plus=plus)
            t = call(E.url_unescape, arg, plus=plus)
            if obs is not None:
                obs.append("url_unescape(%r, encoding=None, plus=%r) -> %r, reference %r%s"
                           % (arg, plus, u, want, " (invalid %: EITHER)" if invalid else ""))
                obs.append("url_unescape(%r, plus=%r) -> %r, reference %r" % (arg, plus, t, wtext))
            if u[0] != "ok" or not isinstance(u[1], bytes):
                bad.append(("urldec:bytes-form-raised", "url_unescape(%r, encoding=None, plus=%r) -> %r"
                            % (arg, plus, u)))
            if t[0] != "ok" or not isinstance(t[1], str):
                bad.append(("urldec:text-form-raised", "url_unescape(%r, plus=%r) -> %r"
                            % (arg, plus, t)))
            if invalid:
                st.note("either:malformed-percent-sequence")
                continue
            if u != ("ok", want):
                bad.append(("urldec:bytes-form:plus=%s" % plus,
                            "url_unescape(%r, encoding=None, plus=%r) -> %r, reference %r"
                            % (arg, plus, u, want)))
            if wtext is None:
                st.note("either:percent-decodes-to-non-utf8")
            elif t != ("ok", wtext):
                bad.append(("urldec:text-form:plus=%s" % plus,
                            "url_unescape(%r, plus=%r) -> %r, reference %r" % (arg, plus, t, wtext)))
        st.outcome(("urldec", plus, invalid, wtext is None, len(raw) - len(want)))
    if "%" in s or "+" in s:
        st.nontriv(("urldec", s))
    return bad


def chk_json(E, v, st, obs=None):
    bad = []
    st.ev()
    r = call(E.json_encode, v)
    if obs is not None:
        obs.append("json_encode(%r) -> %r" % (v, r))
    if r[0] != "ok" or not isinstance(r[1], str):
        return [("json:encode-raised", "json_encode(%r) -> %r" % (v, r))]
    e = r[1]
    if "</" in e:
        bad.append(("json:contains-close-tag-opener", "json_encode(%r) = %r contains '</'" % (v, e)))
    for arg in (e, e.encode("utf-8")):
        st.ev()
        d = call(E.json_decode, arg)
        if obs is not None:
            obs.append("  json_decode(%r) -> %r, expected ('ok', %r)" % (arg, d, v))
        if d[0] != "ok" or canon(d[1]) != canon(v):
            bad.append(("json:roundtrip", "json_decode(json_encode(%r) = %r) -> %r" % (v, e, d)))
    rep = repr(v)
    if "</" in rep or "<', '/" in rep:
        st.nontriv(("json", rep))
    st.outcome(("json", e.count("<\\/"), e.count("<")))
    return bad


OTHER_TYPES = [("int", lambda: 1), ("float", lambda: 1.5), ("bool", lambda: True),
               ("list", lambda: ["a"]), ("tuple", lambda: ("a",)), ("dict", lambda: {"a": "b"}),
               ("set", lambda: {"a"}), ("bytearray", lambda: bytearray(b"a")),
               ("memoryview", lambda: memoryview(b"a")), ("object", lambda: object()),
               ("type", lambda: str), ("complex", lambda: 1j)]


def chk_utf8_text(E, s, st, obs=None):
    bad = []
    want = ref_utf8_encode(s)
    st.ev(3)
    r = call(E.utf8, s)
    if obs is not None:
        obs.append("utf8(%r) -> %r, reference %r" % (s, r, want))
    if want is None:
        st.note("either:lone-surrogate")
        if not (r[0] == "exc" and r[1] == "UnicodeEncodeError" or r[0] == "ok" and isinstance(r[1], bytes)):
            bad.append(("utf8:lone-surrogate-unexpected-exception", "utf8(%r) -> %r" % (s, r)))
        return bad
    if r != ("ok", want) or type(r[1]) is not bytes:
        bad.append(("utf8:encode-wrong", "utf8(%r) -> %r, reference %r" % (s, r, want)))
        return bad
    back = call(E.to_unicode, r[1])
    if obs is not None:
        obs.append("to_unicode(utf8(%r)) -> %r" % (s, back))
    if back != ("ok", s):
        bad.append(("utf8:to_unicode-not-inverse", "to_unicode(utf8(%r)) -> %r" % (s, back)))
    same = call(E.to_unicode, s)
    if same[0] != "ok" or same[1] is not s:
        bad.append(("utf8:to_unicode-str-not-identity", "to_unicode(%r) -> %r" % (s, same)))
    if not s.isascii():
        st.nontriv(("utf8t", s))
    st.outcome(("utf8t", len(want) - len(s)))
    return bad


def chk_utf8_bytes(E, b, st, obs=None):
    bad = []
    want = ref_utf8_decode(b)
    st.ev(3)
    same = call(E.utf8, b)
    if same[0] != "ok" or same[1] is not b:
        bad.append(("utf8:utf8-bytes-not-identity", "utf8(%r) -> %r" % (b, same)))
    r = call(E.to_unicode, b)
    if obs is not None:
        obs.append("to_unicode(%r) -> %r, reference %r" % (b, r, want))
    if want is None:
        st.note("either:ill-formed-utf8")
        st.outcome(("utf8b", "ill", r[0], r[1] if r[0] == "exc" else None))
        if not (r == ("exc", "UnicodeDecodeError") or r[0] == "ok" and isinstance(r[1], str)):
            bad.append(("utf8:ill-formed-unexpected-exception", "to_unicode(%r) -> %r" % (b, r)))
        return bad
    if r != ("ok", want):
        bad.append(("utf8:decode-wrong", "to_unicode(%r) -> %r, reference %r" % (b, r, want)))
        return bad
    back = call(E.utf8, r[1])
    if obs is not None:
        obs.append("utf8(to_unicode(%r)) -> %r" % (b, back))
    if back != ("ok", b):
        bad.append(("utf8:utf8-not-inverse", "utf8(to_unicode(%r)) -> %r" % (b, back)))
    if any(c >= 0x80 for c in b):
        st.nontriv(("utf8b", b))
    st.outcome(("utf8b", "ok", len(b) - len(want)))
    return bad


def chk_types(E, st, obs=None):
    bad = []
    for fname in ("utf8", "to_unicode", "native_str", "to_basestring"):
        fn = getattr(E, fname)
        for tname, mk in OTHER_TYPES:
            st.ev()
            r = call(fn, mk())
            if obs is not None:
                obs.append("%s(<%s>) -> %r, expected TypeError" % (fname, tname, r))
            st.nontriv(("types", fname, tname))
            st.outcome(("types", r[0], r[1] if r[0] == "exc" else None))
            if r != ("exc", "TypeError"):
                bad.append(("utf8:other-type-not-rejected:%s" % fname,
                            "%s(%s instance) -> %r, expected TypeError" % (fname, tname, r)))
        st.ev()
        r = call(fn, None)
        if r != ("ok", None):
            bad.append(("utf8:none-not-passed-through:" + fname, "%s(None) -> %r" % (fname, r)))
    return bad


def ru_values(tier):
    leaves = [b"a", b"\xc3\xa9", b"", "s", 1, None, 1.5]
    keys = [b"k", "k", b"\xc3\xa9", 1]
    d1 = []
    for n in (0, 1, 2):
        for t in itertools.product(leaves, repeat=n):
            d1.append(list(t))
            d1.append(tuple(t))
    for k in keys:
        for v in leaves:
            d1.append({k: v})
    d1.append({b"k": b"a", "j": b"b"})
    yield from leaves
    yield from d1
    inner = d1 if tier == "thorough" else d1[::5]
    for x in inner:
        yield [x]
        yield (x,)
        yield {b"k": x}
        for y in (inner if tier == "thorough" else inner[::3]):
            yield [x, y]
            yield (y, x)
            yield {b"k": x, "j": y}


def chk_recursive(E, v, st, obs=None):
    st.ev()
    before = repr(v)
    want = ref_recursive_unicode(v)
    r = call(E.recursive_unicode, v)
    if obs is not None:
        obs.append("recursive_unicode(%r) -> %r, reference %r" % (v, r, want))
    bad = []
    if r[0] != "ok" or canon(r[1]) != canon(want):
        bad.append(("utf8:recursive_unicode-wrong", "recursive_unicode(%s) -> %r, reference %r"
                    % (before, r, want)))
    if repr(v) != before:
        bad.append(("utf8:recursive_unicode-mutates-input", "input %s became %r" % (before, v)))
    if "b'" in before:
        st.nontriv(("ru", before))
    st.outcome(("ru", before.count("b'")))
    return bad


def chk_qs(E, b, st, obs=None):
    bad = []
    for keep in (False, True):
        want, noeq = ref_parse_qs(b, keep)
        wantd = {k.decode("latin-1"): v for k, v in want.items()}
        for strict in (False, True):
            for arg in (b, b.decode("latin-1")):
                st.ev()
                r = call(E.parse_qs_bytes, arg, keep, strict)
                if obs is not None:
                    obs.append("parse_qs_bytes(%r, keep_blank_values=%r, strict_parsing=%r) -> %r, "
                               "reference %r%s" % (arg, keep, strict, r, wantd,
                                                   " (strict + field without '=': EITHER)"
                                                   if strict and noeq else ""))
                if strict and noeq:
                    st.note("either:strict-parsing-of-field-without-equals")
                    if r == ("exc", "ValueError"):
                        continue
                if r[0] != "ok":
                    bad.append(("qs:raised:" + r[1], "parse_qs_bytes(%r, %r, %r) -> %r"
                                % (arg, keep, strict, r)))
                    continue
                got = r[1]
                if any(type(k) is not str for k in got) or any(
                        type(x) is not bytes for v in got.values() for x in v):
                    bad.append(("qs:result-types", "parse_qs_bytes(%r, %r, %r) -> %r"
                                % (arg, keep, strict, got)))
                    continue
                if got != wantd or list(got) != list(wantd):
                    gb = sorted(c for k, v in got.items() for c in k.encode("latin-1", "replace") + b"".join(v))
                    wb = sorted(c for k, v in wantd.items() for c in k.encode("latin-1") + b"".join(v))
                    sig = "qs:bytes-not-preserved" if gb != wb else "qs:field-structure"
                    bad.append((sig, "parse_qs_bytes(%r, keep_blank_values=%r, strict_parsing=%r) -> "
                                "%r, reference %r" % (arg, keep, strict, got, wantd)))
        st.outcome(("qs", keep, noeq, len(want), sum(len(v) for v in want.values())))
    if want and (b"%" in b or b"+" in b or any(c >= 0x80 or c < 0x20 for c in b)):
        st.nontriv(("qs", b))
    return bad


# ------------------------------------------------------------- JSON value space
def json_strings(n):
    for t in suffixes(JS, n):
        yield "".join(t)


def json_values(tier, which):
    """which = 'leaf' | 'd1' | ('d2', i, n)"""
    nstr = DEPTH[tier][4]
    atoms = [None, True, False, 0, -1, 1.5]
    l1 = atoms + ["", "<", "/", "</", "</script>", "a", "\\", "<\\/", "<<//", " </"]
    k1 = ["", "<", "/", "</", "a", "</script>", "<!--"]
    if which == "leaf":
        yield from atoms
        yield from json_strings(nstr)
        return
    if which == "d1":
        yield []
        yield {}
        for a in l1:
            yield [a]
            for b in l1:
                yield [a, b]
        for k in k1:
            for a in l1:
                yield {k: a}
                for k2 in k1:
                    if k2 > k:
                        for b in l1:
                            yield {k: a, k2: b}
        return
    _, i, n = which
    ls = [None, True, 1.5, "</", "<", "/"]
    ks = ["</", "<"]
    d1s = [[], {}]
    for a in ls:
        d1s.append([a])
        d1s.append({"</": a})
        d1s.append({"<": a})
        for b in ls:
            d1s.append([a, b])
            d1s.append({"</": a, "<": b})
    v2 = ls + d1s
    if tier == "thorough":
        v2 = v2 + [["</script>", "a"], {"a": "</script>", "/": "<"}, "</script>", "\\", "<\\/"]
    for x in v2[i::n]:
        yield [x]
        for k in ks:
            yield {k: x}
        for y in v2:
            yield [x, y]
            yield {"</": x, "<": y}
            yield {"a": x, "/": y}


# ----------------------------------------------------------------- the check
def to_text(t):
    return "".join(t)


MECHS = {
    "html": (TEXT, 0, chk_html, to_text),
    "url": (TEXT, 0, chk_url, to_text),
    "urlb": (BYTES, 1, chk_url, bytes),
    "urldec": (URLDEC, 2, chk_urldec, to_text),
    "utf8t": (TEXT, 0, chk_utf8_text, to_text),
    "utf8b": (BYTES, 1, chk_utf8_bytes, bytes),
    "qs": (QS, 3, chk_qs, b"".join),
}
NJ = 16


class C21(Check):
    id = "C21"
    level = "exploration"
    design_ref = "DESIGN.md §2 C21"
    rule = ("every string <= k symbols over a per-mechanism alphabet (text: 23 symbols incl. U+FEFF, all "
            "HTML specials, NUL, U+FFFF, astral, '&amp;' token; bytes: 21 values incl. the BOM bytes, UTF-8 lead/"
            "continuation/overlong/surrogate bytes; URL-decoding: 16 symbols incl. %HH tokens; "
            "query strings: 17 byte tokens) and every JSON tree of depth <= 2 / width <= 2 over "
            "{None,True,False,0,-1,1.5, strings over {a < / \\ \" é NUL U+2028 astral & </script>}}; "
            "k = 3 (quick) / 4 (thorough), query strings 4 / 5.  Non-trivial = input containing a "
            "character the mechanism must transform (HTML special, reserved/non-ASCII URL byte, "
            "'%' or '+', '</' in a JSON string, non-ASCII UTF-8, bytes inside a container, an "
            "encoded/high byte in a surviving query field)")
    claim = ("Within the bounds, for every enumerated input: xhtml_escape output has no raw < > \" ' "
             "and no '&' outside the five entities, decodes (independent tokenizer) and "
             "xhtml_unescape()s back to the input; url_escape output is unreserved/%HH only, "
             "decodes (independent RFC 3986 decoder) to the input and url_unescape inverts it in "
             "both plus modes, text and bytes form; url_unescape on arbitrary well-formed input "
             "agrees with the reference decoder; json_encode never emits '</' and json_decode "
             "returns a type-strictly equal value; utf8/to_unicode agree with an independent RFC "
             "3629 codec, are mutually inverse, identity on their own type/None and raise "
             "TypeError for 12 other types; recursive_unicode equals a reference walk; "
             "parse_qs_bytes (bytes or latin-1 str, all flag combinations) returns exactly the "
             "reference fields with every byte preserved.")
    technique = ("bounded exhaustive enumeration of input strings / value trees on the real "
                 "tornado.escape functions against independent reference codecs (entity tokenizer, "
                 "RFC 3986 percent codec, RFC 3629 UTF-8 codec, form-field splitter)")
    assumptions = [
        "query-string fields are separated by '&' only (Python >= 3.10 urllib semantics); ';' is data",
        "malformed percent sequences, percent-decoded non-UTF-8 in text form, ill-formed UTF-8 "
        "input, lone surrogates and strict_parsing of a field without '=' are EITHER (executed, "
        "only exception-type invariants asserted)",
        "JSON-representable = None/bool/int/finite float/str/list/dict with str keys",
    ]

    def partitions(self, tier):
        parts = []
        for name, (alpha, _, _, _) in MECHS.items():
            parts.append((name, -1))
            parts.extend((name, i) for i in range(len(alpha)))
        parts.append(("types", 0))
        parts.append(("recursive", 0))
        parts.append(("json", "leaf"))
        parts.append(("json", "d1"))
        parts.extend(("json", ("d2", i, NJ)) for i in range(NJ))
        return parts

    def run_partition(self, part, tier, st):
        from tornado import escape as E
        name, sub = part
        if name in MECHS:
            alpha, di, fn, mk = MECHS[name]
            depth = DEPTH[tier][di]
            st.setmax("max_len_" + name, depth)
            if sub == -1:
                self._one(E, name, fn, mk(()), st)
                return
            first = alpha[sub]
            for t in suffixes(alpha, depth - 1):
                self._one(E, name, fn, mk((first,) + t), st)
        elif name == "types":
            for sig, msg in chk_types(E, st):
                st.violation(sig, msg, {"mech": "types", "input": None})
        elif name == "recursive":
            for v in ru_values(tier):
                for sig, msg in chk_recursive(E, v, st):
                    st.violation(sig, msg, {"mech": "recursive", "input": repr(v)})
        elif name == "json":
            for v in json_values(tier, sub):
                for sig, msg in chk_json(E, v, st):
                    st.violation(sig, msg, {"mech": "json", "input": v})
                if len(st.samples) < 1 and isinstance(v, dict) and len(v) == 2:
                    st.sample({"mech": "json", "input": v, "encoded": E.json_encode(v)})

    def _one(self, E, name, fn, x, st):
        for sig, msg in fn(E, x, st):
            st.violation(sig, msg, {"mech": name, "input": x})
        if len(st.samples) < 1 and len(x) >= 3 and h(x)[0] < 8:
            st.sample({"mech": name, "input": x})

    def replay(self, case):
        import ast
        from tornado import escape as E
        from mc.core import Stats
        st = Stats()
        obs = []
        mech = case["mech"]
        x = case["input"]
        if mech in MECHS:
            bad = MECHS[mech][2](E, x, st, obs)
        elif mech == "types":
            bad = chk_types(E, st, obs)
        elif mech == "recursive":
            bad = chk_recursive(E, ast.literal_eval(x), st, obs)
        else:
            bad = chk_json(E, x, st, obs)
        obs.append("verdict: %s" % (["%s: %s" % b for b in bad] or "no violation"))
        return "\n".join(obs)


CHECK = C21()
