"""C18 The native WebSocket masking routine (tornado/speedups.c) equals the
RFC 6455 5.3 definition  out[i] = data[i] XOR mask[i mod 4]  and so does the
pure-Python fallback tornado.util._websocket_mask_python.

Shape I (pure input enumeration).  The CURRENT ${VERIF_REPO}/tornado/speedups.c
is compiled with gcc (flags of the running interpreter's sysconfig + the
Py_LIMITED_API macro of setup.py) into a mkdtemp directory outside the trees,
loaded under a unique module name, and the directory is removed afterwards.

Alignment: speedups.c parses its arguments with "s#", which refuses every
object whose type has bf_releasebuffer (memoryview, bytearray, array) - so
memoryview slices never reach the masking loop of the native routine.  To
still place the payload at every address residue mod 8 the native routine
gets ctypes char arrays created with from_buffer(buffer, offset) (ctypes has
no bf_releasebuffer, "s#" accepts them); the Python fallback gets the planned
memoryview slices.  Both additionally get real `bytes` (the production type).

Every partition body runs in a forked child, so a crash of the native code
(SIGSEGV/SIGBUS/abort) is reported as a violation instead of hanging the pool.
"""
import atexit
import ctypes
import importlib.machinery
import importlib.util
import itertools
import mmap
import operator
import os
import pickle
import re
import shutil
import signal
import struct
import subprocess
import sys
import sysconfig
import tempfile
import traceback

from mc.core import Check, Stats, h, REPO

# ---------------------------------------------------------------- the space
MASKS = [
    b"\x00\x00\x00\x00",                       # all-zero
    b"\xff\xff\xff\xff",                       # all-ones
    b"\xc3\x00\x00\x00", b"\x00\xc3\x00\x00",  # 4 single-byte masks
    b"\x00\x00\xc3\x00", b"\x00\x00\x00\xc3",
    b"\x01\x02\x03\x04",                       # ascending
    b"\x37\xfa\x21\x3d",                       # 5 fixed "random" (first = RFC 6455 5.7)
    b"\xde\xad\xbe\xef",
    b"\x80\x00\x7f\xff",
    b"\x12\x34\x56\x78",
    b"\xa5\x5a\xc3\x3c",
]
FILLS = ["ascending", "ff", "lcg"]
OFFSETS = range(8)
BAD_MASK_LENGTHS = [0, 1, 2, 3, 5, 6, 7, 8]
BAD_MASK_DATA_LENGTHS = [0, 1, 3, 4, 7, 8, 9, 16, 17]
MASKALIGN_MAXLEN = 40

QUICK_MAX, THOROUGH_MAX = 300, 4096
QUICK_SPOTS = [1023, 1024, 1025, 4095, 4096, 4097, 65536 + 5]
THOROUGH_SPOTS = [8191, 65536, 65536 + 7, (1 << 20) - 1, 1 << 20]
THOROUGH_STRIDES = 4
# the pure-Python fallback costs ~0.1 us per byte: all 8 memoryview offsets up
# to this length, offsets PY_LONG_OFFSETS (+ the bytes form = offset-0 content) above it
PY_ALL_OFFSETS_MAX = 1024
PY_LONG_OFFSETS = (3,)


def fill_bytes(fi, size):
    kind = FILLS[fi]
    if kind == "ascending":
        return bytes(i & 0xFF for i in range(size))
    if kind == "ff":
        return b"\xff" * size
    out = bytearray(size)
    x = 0x2545F491
    for i in range(size):
        x = (x * 1103515245 + 12345) & 0x7FFFFFFF
        out[i] = (x >> 16) & 0xFF
    return bytes(out)


def ref_mask(mask, data):
    """THE ORACLE: RFC 6455 5.3, octet i of the output is octet i of the input
    XOR octet (i mod 4) of the masking key.  Written byte-wise; cycle(mask)
    yields mask[i % 4] at position i."""
    return bytes(map(operator.xor, data, itertools.cycle(mask)))


def ref_mask_literal(mask, data):
    """The same definition spelled with explicit indices (used to cross-check
    ref_mask on short inputs; disagreement = machinery error)."""
    return bytes(data[i] ^ mask[i % 4] for i in range(len(data)))


class Buf:
    """One 16-byte aligned region holding a fill pattern; hands out views at
    byte offsets (address residue mod 8 == offset mod 8)."""

    def __init__(self, fi, size):
        self.raw = bytearray(size + 64)
        addr = ctypes.addressof(ctypes.c_char.from_buffer(self.raw))
        self.base = (-addr) % 16
        self.raw[self.base:self.base + size] = fill_bytes(fi, size)
        self.addr0 = addr + self.base
        self.pristine = bytes(self.raw)
        self.mv = memoryview(self.raw)

    def ct(self, off, n):
        a = (ctypes.c_char * n).from_buffer(self.raw, self.base + off)
        return a

    def view(self, off, n):
        return self.mv[self.base + off:self.base + off + n]

    def intact(self):
        return bytes(self.raw) == self.pristine


# ---------------------------------------------------------------- building
def limited_api_macro():
    """The Py_LIMITED_API value setup.py builds the extension with."""
    if sysconfig.get_config_var("Py_GIL_DISABLED"):
        return None
    try:
        with open(os.path.join(REPO, "setup.py")) as f:
            m = re.search(r'\("Py_LIMITED_API",\s*"(0x[0-9a-fA-F]+)"\)', f.read())
        if m:
            return m.group(1)
    except OSError:
        pass
    return "0x030a0000"


def compile_speedups(outdir, tag, opt=None):
    """gcc the current speedups.c -> outdir/tag/speedups.abi3.so; returns the
    path; raises RuntimeError with the compiler output on failure."""
    src = os.path.join(REPO, "tornado", "speedups.c")
    d = os.path.join(outdir, tag)
    os.makedirs(d)
    out = os.path.join(d, "speedups.abi3.so")
    cflags = (sysconfig.get_config_var("CFLAGS") or "-O3 -Wall").split()
    if opt:
        cflags = [f for f in cflags if not f.startswith("-O")] + [opt]
    cmd = ["gcc", "-shared"] + cflags
    cmd += (sysconfig.get_config_var("CCSHARED") or "-fPIC").split()
    lim = limited_api_macro()
    if lim:
        cmd.append("-DPy_LIMITED_API=" + lim)
    paths = sysconfig.get_paths()
    for inc in dict.fromkeys([paths["include"], paths["platinclude"]]):
        cmd.append("-I" + inc)
    cmd += [src, "-o", out]
    p = subprocess.run(cmd, cwd=d, stdout=subprocess.PIPE, stderr=subprocess.STDOUT,
                       timeout=300)
    if p.returncode != 0 or not os.path.exists(out):
        raise RuntimeError("gcc failed (%d): %s\n%s" % (
            p.returncode, " ".join(cmd), p.stdout.decode("utf-8", "replace")[-2000:]))
    return out


_LOAD_COUNT = [0]


def load_ext(path, tag):
    _LOAD_COUNT[0] += 1
    name = "c18_native_%d_%d_%s.speedups" % (os.getpid(), _LOAD_COUNT[0], tag)
    loader = importlib.machinery.ExtensionFileLoader(name, path)
    spec = importlib.util.spec_from_file_location(name, path, loader=loader)
    mod = importlib.util.module_from_spec(spec)
    loader.exec_module(mod)
    return mod


def build_flags(tier):
    # "prod" = exactly the flags a pip/setup.py build of this interpreter uses
    return [("prod", None)] if tier == "quick" else [("prod", None), ("O0", "-O0")]


# ---------------------------------------------------------------- the check
PROGRESS = struct.Struct("<iiiiii")   # build idx, data-kind idx, len, off, mask idx, fill idx
DKINDS = ["bytes", "ctypes", "memoryview", "bytearray"]


def first_diff(a, b):
    for i in range(min(len(a), len(b))):
        if a[i] != b[i]:
            return i
    return min(len(a), len(b))


def classify(impl, got, want):
    """Structural signature of a wrong result."""
    if isinstance(got, BaseException):
        return "%s:exception:%s" % (impl, type(got).__name__)
    if type(got) is not bytes:
        return "%s:result-not-bytes" % impl
    if len(got) != len(want):
        return "%s:wrong-length" % impl
    i = first_diff(got, want)
    if impl == "python":
        return "python:wrong-bytes"
    n = len(want)
    w64 = 8 * (n // 8)
    w32 = w64 + (4 if n % 8 >= 4 else 0)
    region = "word64" if i < w64 else "word32" if i < w32 else "tail"
    return "%s:wrong-bytes:%s-region" % (impl, region)


_SVAL = bytes.__basicsize__ - 1      # offset of ob_sval in a CPython bytes object
_string_at = ctypes.string_at


def terminator_ok(b):
    """CPython invariant: a bytes object of size n owns n+1 bytes and byte n is
    NUL (PyBytes_FromStringAndSize sets it; the C-API forbids touching it).  A
    routine that writes one element past its result breaks it."""
    return _string_at(id(b) + _SVAL + len(b), 1) == b"\0"


def describe(got):
    if isinstance(got, BaseException):
        return "raised %s(%s)" % (type(got).__name__, got)
    if isinstance(got, bytes) and len(got) > 48:
        return "%r... (%d bytes)" % (got[:48], len(got))
    return repr(got)


class C18(Check):
    id = "C18"
    level = "exploration"
    design_ref = "DESIGN.md §2 C18"
    rule = ("every payload length 0..300 (quick) / 0..4096 (thorough) plus spot sizes up to "
            "1 MiB x 12 masks (zero, ones, 4 single-byte, ascending, 5 fixed) x 3 fills "
            "(ascending, 0xFF, LCG); native routine freshly compiled from the tree's speedups.c "
            "(setup.py flags; thorough also -O0; also the tree's own binary when tornado.util "
            "selected it) called with a bytes payload and with ctypes arrays at byte offsets "
            "0..7 of a 16-aligned buffer; _websocket_mask_python called with bytes and with "
            "memoryview slices at offsets 0..7 (lengths > 1024: bytes and offset 3 only); mask passed as "
            "bytes and (payload lengths <= 40) as ctypes array at offsets 0..7; mask lengths "
            "0..8 != 4 x 9 payload lengths must raise; result compared byte for byte with "
            "data[i]^mask[i%4], NUL terminator behind each native result intact, shared input "
            "buffer unchanged; non-trivial = distinct (implementation, payload kind, length, "
            "address mod 8) where a non-zero mask changed at least one byte")
    claim = ("For every enumerated length/alignment/mask/fill the compiled websocket_mask of the "
             "current speedups.c and the pure-Python fallback both return exactly the RFC 6455 "
             "masking, neither modifies its input, both reject masks that are not 4 bytes, and "
             "tornado.util/_websocket selects the implementation its documented rule says.")
    technique = ("bounded exhaustive enumeration of lengths x alignments x masks x fills on the "
                 "real compiled C routine and the real Python fallback against an independent "
                 "byte-wise definition")
    assumptions = [
        "payload/mask byte patterns outside the 12 masks x 3 fills are not enumerated; the "
        "routine is data-oblivious (pure XOR), which the enumeration does not prove",
        "the native routine refuses memoryview/bytearray ('s#' argument format) - classified "
        "EITHER (docstring promises `bytes` only); alignment for the native routine is therefore "
        "exercised through ctypes arrays, not memoryviews",
        "compiled with gcc on this machine (x86-64, little endian): big-endian or strict-alignment "
        "CPUs and other compilers are not covered",
        "result-buffer overruns are observed only through the NUL terminator byte directly behind "
        "the result (CPython bytes layout) or a crash; wider or read-only overruns are not observable",
    ]

    # -- build management (parent) ----------------------------------------
    _dir = None
    _owner = None
    _intree_current = False
    _builds = None     # list of (name, module, fresh)
    _build_error = None
    _foreign = None    # selected binary that is not part of the tree under test

    def _cleanup(self):
        d, self._dir = self._dir, None
        if d and self._owner == os.getpid():
            shutil.rmtree(d, ignore_errors=True)

    def _prepare(self, tier):
        """Compile + load once (in the parent, before workers are forked)."""
        self._cleanup()
        self._builds, self._build_error, self._foreign = [], None, None
        self._dir = tempfile.mkdtemp(prefix="c18-speedups-")
        self._owner = os.getpid()
        atexit.register(self._cleanup)
        real = os.path.realpath(self._dir)
        for tree in (os.path.realpath(REPO), os.path.realpath(os.path.dirname(
                os.path.dirname(os.path.abspath(__file__))))):
            if real == tree or real.startswith(tree + os.sep):
                raise RuntimeError("temp dir %s lies inside %s" % (real, tree))
        for tag, opt in build_flags(tier):
            path = compile_speedups(self._dir, tag, opt)
            self._builds.append((tag, load_ext(path, tag), True))
        # the binary this process really uses, if tornado.util selected one
        import tornado.util
        if tornado.util._websocket_mask is not tornado.util._websocket_mask_python:
            mod = sys.modules.get("tornado.speedups")
            f = os.path.realpath(getattr(mod, "__file__", None) or "/nonexistent")
            # only when it belongs to the tree under test (with VERIF_REPO set to a
            # worktree an editable install may hand out /repo's binary instead)
            if mod is not None and f.startswith(os.path.realpath(REPO) + os.sep):
                self._builds.append(("intree", mod, False))
                # built after the last change of the source = it IS the current source (not a stale artefact)
                try:
                    self._intree_current = os.path.getmtime(f) >= os.path.getmtime(
                        os.path.join(REPO, "tornado", "speedups.c"))
                except OSError:
                    self._intree_current = False
            else:
                self._foreign = f

    def partitions(self, tier):
        try:
            self._prepare(tier)
        except BaseException:
            self._build_error = traceback.format_exc()
            self._cleanup()
            return [("build-error",)]
        # every partition costs one extra fork (crash isolation): keep them few
        parts = [("select",), ("masklen",), ("refuse",), ("maskalign",)]
        for mi in range(len(MASKS)):
            for fi in range(len(FILLS)):
                if tier == "quick":
                    parts.append(("grid+spot", mi, fi))
                    continue
                for r in range(THOROUGH_STRIDES):
                    parts.append(("grid", mi, fi, r, THOROUGH_STRIDES))
                parts.append(("spot", mi, fi))
        return parts

    def finalize(self, tier, st):
        self._cleanup()
        n = st.notes.get("intree-binary-mismatch")
        if n and getattr(self, "_intree_current", False):
            # the binary tornado.util uses was built from the source as it stands: its wrong answers are the tree's
            st.violation("native:in-tree-binary-wrong", "the in-tree tornado/speedups*.so (newer than speedups.c, i.e. built "
                         "from the current source) disagrees with the definition in %d cases; e.g. %s"
                         % (n, st.extra.get("intree_binary_mismatch_example")), {"intree": True})
        elif n and st.violations:
            # a freshly compiled speedups.c already misbehaves in this process (it may even have damaged interpreter-wide
            # objects such as the cached one-byte bytes): the stale-binary diagnosis would only mask that violation
            st.note("intree-binary-mismatch-ignored-after-violation", n)
        elif n:
            st.error("the in-tree binary tornado/speedups*.so that tornado.util selected disagrees "
                     "with the definition in %d cases (stale build? rebuild it: setup.py build_ext "
                     "--inplace); e.g. %s" % (n, st.extra.get("intree_binary_mismatch_example")))

    # -- crash isolation ---------------------------------------------------
    def run_partition(self, part, tier, st):
        if part[0] == "build-error":
            st.error("cannot build %s/tornado/speedups.c:\n%s" % (REPO, self._build_error))
            return
        sub, crash = self._isolated(lambda s, prog: self._run(part, tier, s, prog))
        if sub is not None:
            st.merge(sub)
        if crash:
            signame, where = crash
            st.ev()
            st.violation("native:crash",
                         "process died with %s inside partition %r at %s" % (signame, part, where),
                         dict(where, crash_part=list(part), tier=tier))

    def _isolated(self, body):
        """Run body(stats, progress_mmap) in a forked child.  Returns
        (Stats or None, None or (signal name, last progress))."""
        prog = mmap.mmap(-1, PROGRESS.size)
        PROGRESS.pack_into(prog, 0, -1, -1, -1, -1, -1, -1)
        r, w = os.pipe()
        pid = os.fork()
        if pid == 0:
            code = 0
            try:
                os.close(r)
                # glibc abort messages of a crashing mutant must not spam the log
                dn = os.open(os.devnull, os.O_WRONLY)
                os.dup2(dn, 2)
                sub = Stats()
                try:
                    body(sub, prog)
                except BaseException:
                    sub.error("partition crashed:\n" + traceback.format_exc())
                with os.fdopen(w, "wb") as f:
                    pickle.dump(sub, f, pickle.HIGHEST_PROTOCOL)
            except BaseException:
                code = 3
            finally:
                os._exit(code)
        os.close(w)
        with os.fdopen(r, "rb") as f:
            blob = f.read()
        _, status = os.waitpid(pid, 0)
        if os.WIFSIGNALED(status):
            sig = os.WTERMSIG(status)
            try:
                signame = signal.Signals(sig).name
            except ValueError:
                signame = "SIG%d" % sig
            b, k, n, off, mi, fi = PROGRESS.unpack_from(prog, 0)
            names = [x[0] for x in self._builds]
            where = {"build": names[b] if 0 <= b < len(names) else None,
                     "dkind": DKINDS[k] if 0 <= k < len(DKINDS) else None,
                     "len": n, "off": off, "mi": mi, "fi": fi, "impl": "native"}
            return None, (signame, where)
        try:
            return pickle.loads(blob), None
        except Exception:
            s = Stats()
            s.error("child of partition produced no result (exit status %r)" % (status,))
            return s, None

    # -- partition bodies (run in the child) --------------------------------
    def _run(self, part, tier, st, prog):
        kind = part[0]
        if kind == "select":
            self._select(st)
        elif kind == "masklen":
            self._masklen(st, prog)
        elif kind == "refuse":
            self._refuse(st, prog)
        elif kind == "maskalign":
            for mi in range(len(MASKS)):
                self._maskalign(st, prog, mi)
        elif kind == "grid+spot":
            _, mi, fi = part
            self._grid(st, prog, mi, fi, list(range(QUICK_MAX + 1)) + QUICK_SPOTS)
        elif kind == "grid":
            _, mi, fi, r, strides = part
            self._grid(st, prog, mi, fi, list(range(r, THOROUGH_MAX + 1, strides)))
        elif kind == "spot":
            _, mi, fi = part
            self._grid(st, prog, mi, fi, THOROUGH_SPOTS)
        else:
            raise AssertionError(part)

    def _bad(self, st, impl, build, dkind, mi, fi, off, n, got, want, mkind="bytes", moff=0):
        who = "python" if impl == "python" else ("intree-binary" if build == "intree" else "native")
        sig = classify(who, got, want)
        i = None
        if isinstance(got, bytes) and isinstance(want, bytes):
            i = first_diff(got, want)
        msg = ("%s websocket_mask(mask=%r as %s@%d, data=%s fill len=%d as %s at offset %d) "
               "returned %s, definition gives %s%s"
               % (impl if impl == "python" else "%s[%s]" % (impl, build), MASKS[mi], mkind, moff,
                  FILLS[fi], n, dkind, off, describe(got), describe(want),
                  "" if i is None else " (first difference at index %d)" % i))
        case = {"impl": impl, "build": build, "dkind": dkind, "mi": mi, "fi": fi,
                "off": off, "len": n, "mkind": mkind, "moff": moff}
        if build == "intree":
            # the fresh build of the same source is judged separately; a wrong
            # in-tree binary alone is a stale/foreign build artefact
            self._intree_bad(st, msg)
            return
        st.violation(sig, msg, case)

    def _intree_bad(self, st, msg):
        """The fresh build of the same source is judged on its own (violations);
        a wrong in-tree binary by itself is a stale/foreign build artefact, so it
        is a machinery error (one line, emitted by finalize), never a violation."""
        st.note("intree-binary-mismatch")
        st.setmax("intree_binary_mismatch_example", msg[:600])

    def _overrun(self, st, build, dkind, mi, fi, off, n):
        msg = ("native[%s] websocket_mask(mask=%r, %s fill len=%d as %s at offset %d): bytes are "
               "right but the NUL terminator behind the %d-byte result was overwritten (write past "
               "the end of the result buffer)" % (build, MASKS[mi], FILLS[fi], n, dkind, off, n))
        if n == 0:
            # that result is the shared empty-bytes singleton: repair it so the
            # next implementation is judged on its own
            ctypes.memset(id(b"") + _SVAL, 0, 1)
        if build == "intree":
            self._intree_bad(st, msg)
            return
        st.violation("native:result-overrun", msg,
                     {"impl": "native", "build": build, "dkind": dkind, "mi": mi, "fi": fi,
                      "off": off, "len": n, "mkind": "bytes", "moff": 0})

    def _grid(self, st, prog, mi, fi, lengths):
        from tornado.util import _websocket_mask_python as pymask
        mask = MASKS[mi]
        maxlen = max(lengths)
        buf = Buf(fi, maxlen + 8)
        want_full = [ref_mask(mask, buf.view(off, maxlen)) for off in OFFSETS]
        # oracle self-check on the explicit-index spelling
        for off in OFFSETS:
            k = min(maxlen, 67)
            if ref_mask_literal(mask, bytes(buf.view(off, k))) != want_full[off][:k]:
                st.error("oracle self-check failed for mask %r fill %s off %d" % (mask, FILLS[fi], off))
                return
        natives = [(bi, name, mod.websocket_mask) for bi, (name, mod, _) in enumerate(self._builds)]
        changes = any(mask)
        pack = PROGRESS.pack_into
        for n in lengths:
            ctype = ctypes.c_char * n
            data0 = bytes(buf.view(0, n))
            want0 = want_full[0][:n]
            # ---- production type: bytes payload
            for bi, name, fn in natives:
                pack(prog, 0, bi, 0, n, 0, mi, fi)
                try:
                    got = fn(mask, data0)
                except Exception as e:
                    got = e
                st.evaluations += 1
                if got.__class__ is not bytes or got != want0:
                    self._bad(st, "native", name, "bytes", mi, fi, 0, n, got, want0)
                elif not terminator_ok(got):
                    self._overrun(st, name, "bytes", mi, fi, 0, n)
                elif changes and n:
                    st.nontriv((name, "bytes", n, 0))
            try:
                got = pymask(mask, data0)
            except Exception as e:
                got = e
            st.evaluations += 1
            if got.__class__ is not bytes or got != want0:
                self._bad(st, "python", "-", "bytes", mi, fi, 0, n, got, want0)
            elif changes and n:
                st.nontriv(("python", "bytes", n, 0))
            if n <= 32:
                st.outcome(h(want0))
            # ---- every alignment
            for off in OFFSETS:
                want = want_full[off][:n]
                arr = ctype.from_buffer(buf.raw, buf.base + off)
                res = ctypes.addressof(arr) % 8
                if res != off % 8:
                    st.error("buffer residue %d != planned offset %d" % (res, off))
                    return
                for bi, name, fn in natives:
                    pack(prog, 0, bi, 1, n, off, mi, fi)
                    try:
                        got = fn(mask, arr)
                    except Exception as e:
                        got = e
                    st.evaluations += 1
                    if got.__class__ is not bytes or got != want:
                        self._bad(st, "native", name, "ctypes", mi, fi, off, n, got, want)
                    elif not terminator_ok(got):
                        self._overrun(st, name, "ctypes", mi, fi, off, n)
                    elif changes and n:
                        st.nontriv((name, "ctypes", n, res))
                del arr
                if n > PY_ALL_OFFSETS_MAX and off not in PY_LONG_OFFSETS:
                    continue
                try:
                    got = pymask(mask, buf.view(off, n))
                except Exception as e:
                    got = e
                st.evaluations += 1
                if got.__class__ is not bytes or got != want:
                    self._bad(st, "python", "-", "memoryview", mi, fi, off, n, got, want)
                elif changes and n:
                    st.nontriv(("python", "memoryview", n, off))
                if n <= 32:
                    st.outcome(h(want))
        if not buf.intact():
            st.violation("input-modified", "the payload/guard bytes of the shared buffer changed "
                         "during mask=%r fill=%s lengths %d..%d" % (mask, FILLS[fi], lengths[0], lengths[-1]),
                         {"impl": "native", "build": natives[0][1], "dkind": "ctypes", "mi": mi,
                          "fi": fi, "off": 0, "len": lengths[-1], "mkind": "bytes", "moff": 0,
                          "check_intact": True})
        if len(lengths) > 20 and mi == 7 and fi == 2:
            n = lengths[13]
            st.sample({"impl": "native[%s]" % natives[0][1], "mask": mask, "fill": FILLS[fi],
                       "len": n, "offset": 3, "result": want_full[3][:n][:24]})
        st.setmax("max_length", maxlen)

    def _maskalign(self, st, prog, mi):
        """mask itself at every address residue (speedups.c reads it as uint32_t)."""
        from tornado.util import _websocket_mask_python as pymask
        mask = MASKS[mi]
        fi = 2
        buf = Buf(fi, MASKALIGN_MAXLEN + 16)
        mraw = bytearray(64)
        maddr = ctypes.addressof(ctypes.c_char.from_buffer(mraw))
        mbase = (-maddr) % 16
        for moff in OFFSETS:
            mraw[mbase + moff:mbase + moff + 4] = mask
            marr = (ctypes.c_char * 4).from_buffer(mraw, mbase + moff)
            mmv = memoryview(mraw)[mbase + moff:mbase + moff + 4]
            for off in (0, 3):
                for n in range(MASKALIGN_MAXLEN + 1):
                    want = ref_mask(mask, buf.view(off, n))
                    darr = buf.ct(off, n)
                    for bi, (name, mod, _) in enumerate(self._builds):
                        PROGRESS.pack_into(prog, 0, bi, 1, n, off, mi, fi)
                        try:
                            got = mod.websocket_mask(marr, darr)
                        except Exception as e:
                            got = e
                        st.ev()
                        if got.__class__ is not bytes or got != want:
                            self._bad(st, "native", name, "ctypes", mi, fi, off, n, got, want,
                                      "ctypes", moff)
                        elif any(mask) and n:
                            st.nontriv((name, "maskalign", n, moff, off))
                    try:
                        got = pymask(mmv, buf.view(off, n))
                    except Exception as e:
                        got = e
                    st.ev()
                    if got.__class__ is not bytes or got != want:
                        self._bad(st, "python", "-", "memoryview", mi, fi, off, n, got, want,
                                  "memoryview", moff)
                    st.outcome(h(want))
            del marr, mmv
        if not buf.intact():
            st.violation("input-modified", "payload buffer changed (mask-alignment family, mask %r)" % mask,
                         {"impl": "native", "build": self._builds[0][0], "dkind": "ctypes", "mi": mi,
                          "fi": fi, "off": 0, "len": MASKALIGN_MAXLEN, "mkind": "ctypes", "moff": 0})

    def _masklen(self, st, prog):
        """masks of length 0..8 except 4 must be rejected by both."""
        from tornado.util import _websocket_mask_python as pymask
        src = b"\x01\x02\x03\x04\x05\x06\x07\x08"
        fi = 0
        buf = Buf(fi, 64)
        impls = [("native", name, mod.websocket_mask) for name, mod, _ in self._builds]
        impls.append(("python", "-", pymask))
        for ml in BAD_MASK_LENGTHS:
            for n in BAD_MASK_DATA_LENGTHS:
                for mkind in ("bytes", "ctypes"):
                    for impl, name, fn in impls:
                        if mkind == "ctypes":
                            m = (ctypes.c_char * ml).from_buffer(bytearray(src[:ml] + b"\0"))
                            if impl == "python":
                                m = memoryview(src[:ml])
                        else:
                            m = src[:ml]
                        data = bytes(buf.view(0, n))
                        st.ev()
                        try:
                            got = fn(m, data)
                        except ValueError:
                            st.outcome("%s:ValueError" % impl)
                            st.nontriv((impl, name, "masklen", ml, n, mkind))
                            continue
                        except Exception as e:
                            # rejected, with another exception type than documented
                            st.note("either:%s-rejects-bad-mask-with-%s" % (impl, type(e).__name__))
                            st.outcome("%s:%s" % (impl, type(e).__name__))
                            continue
                        who = "python" if impl == "python" else (
                            "intree-binary" if name == "intree" else "native")
                        msg = ("%s[%s] accepted a %d-byte mask %r (%s) with %d-byte payload and "
                               "returned %s" % (impl, name, ml, src[:ml], mkind, n, describe(got)))
                        if name == "intree":
                            self._intree_bad(st, msg)
                            continue
                        st.violation("%s:bad-mask-length-accepted" % who, msg,
                                     {"impl": impl, "build": name, "family": "masklen", "ml": ml,
                                      "len": n, "mkind": mkind})

    def _refuse(self, st, prog):
        """EITHER family: payload types the native routine may refuse ('s#').
        Oracle-free invariant: TypeError, or exactly the definition."""
        mi, fi = 7, 2
        mask = MASKS[mi]
        buf = Buf(fi, 64)
        for name, mod, _ in self._builds:
            for off in OFFSETS:
                for n in (0, 1, 5, 8, 13, 32):
                    want = ref_mask(mask, buf.view(off, n))
                    for dkind, data in (("memoryview", buf.view(off, n)),
                                        ("bytearray", bytearray(buf.view(off, n))),
                                        ("memoryview", memoryview(bytes(buf.view(off, n))))):
                        st.ev()
                        try:
                            got = mod.websocket_mask(mask, data)
                        except TypeError:
                            st.note("either:native-refuses-%s" % dkind)
                            st.outcome("native:TypeError:" + dkind)
                            continue
                        except Exception as e:
                            got = e
                        if got.__class__ is not bytes or got != want:
                            self._bad(st, "native", name, dkind, mi, fi, off, n, got, want)
                        else:
                            st.note("either:native-accepts-%s" % dkind)
                            st.outcome("native:ok:" + dkind)

    def _select(self, st):
        """tornado.util picks the C routine unless disabled by environment or
        not importable; tornado.websocket uses that same object."""
        import tornado.util as u
        st.ev()
        disabled = bool(os.environ.get("TORNADO_NO_EXTENSION")) or \
            os.environ.get("TORNADO_EXTENSION") == "0"
        try:
            import tornado.speedups as sp
            native = sp.websocket_mask
        except ImportError:
            native = None
        if disabled or native is None:
            want, wname = u._websocket_mask_python, "python"
        else:
            want, wname = native, "native"
        st.note("selected:" + wname)
        if self._foreign:
            st.note("selected-binary-outside-tree-not-checked")
        st.outcome("selected:" + wname)
        st.nontriv(("select", wname))
        if u._websocket_mask is not want:
            st.violation("selection:wrong-implementation",
                         "tornado.util._websocket_mask is %r, expected the %s implementation "
                         "(disabled-by-env=%r, tornado.speedups importable=%r)"
                         % (u._websocket_mask, wname, disabled, native is not None),
                         {"family": "select"})
        import tornado.websocket as ws
        st.ev()
        if ws._websocket_mask is not u._websocket_mask:
            st.violation("selection:websocket-uses-other-function",
                         "tornado.websocket._websocket_mask is %r, tornado.util's is %r"
                         % (ws._websocket_mask, u._websocket_mask), {"family": "select2"})
        st.sample({"selected_implementation": wname, "disabled_by_env": disabled,
                   "speedups_importable": native is not None,
                   "fresh_builds": [n for n, _, f in self._builds if f]})

    # -- replay --------------------------------------------------------------
    def replay(self, case):
        if case.get("intree"):
            return ("re-run the check: the in-tree binary is compared with the definition over the whole grid "
                    "(python run.py check C18 --tier quick)")
        fam = case.get("family")
        if fam in ("select", "select2"):
            st = Stats()
            self._builds = []
            self._select(st)
            return "\n".join("%s: %s" % (s, v[0]) for s, v in st.violations.items()) or \
                "selection as documented: %r" % dict(st.notes)
        tier_builds = dict(build_flags("thorough"))
        build = case.get("build") or "prod"
        d = tempfile.mkdtemp(prefix="c18-replay-")
        try:
            if case["impl"] == "python":
                from tornado.util import _websocket_mask_python as fn
                label = "tornado.util._websocket_mask_python"
                self._builds = []
            elif build == "intree":
                import tornado.speedups
                fn = tornado.speedups.websocket_mask
                label = "in-tree " + tornado.speedups.__file__
                self._builds = [("intree", tornado.speedups, False)]
            else:
                path = compile_speedups(d, build, tier_builds.get(build))
                mod = load_ext(path, build)
                fn = mod.websocket_mask
                label = "websocket_mask compiled from %s/tornado/speedups.c [%s]" % (REPO, build)
                self._builds = [(build, mod, True)]
            out = [label]

            def body(st, prog):
                if fam == "masklen":
                    src = b"\x01\x02\x03\x04\x05\x06\x07\x08"[:case["ml"]]
                    data = fill_bytes(0, case["len"])
                    m = src if case["mkind"] == "bytes" else (
                        memoryview(src) if case["impl"] == "python" else
                        (ctypes.c_char * len(src)).from_buffer(bytearray(src + b"\0")))
                    try:
                        r = "returned %r" % (fn(m, data),)
                    except Exception as e:
                        r = "raised %s(%s)" % (type(e).__name__, e)
                    st.samples.append("mask=%r (%d bytes, %s) data=%r -> %s; expected: an exception "
                                      "(mask must be 4 bytes)" % (src, len(src), case["mkind"], data, r))
                    return
                mi, fi, off, n = case["mi"], case["fi"], case["off"], case["len"]
                mask = MASKS[mi]
                buf = Buf(fi, n + 16)
                want = ref_mask(mask, buf.view(off, n))
                dk = case["dkind"]
                if dk == "bytes":
                    data = bytes(buf.view(off, n))
                elif dk == "ctypes":
                    data = buf.ct(off, n)
                elif dk == "bytearray":
                    data = bytearray(buf.view(off, n))
                else:
                    data = buf.view(off, n)
                m = mask
                if case.get("mkind") in ("ctypes", "memoryview"):
                    mraw = bytearray(64)
                    mb = (-ctypes.addressof(ctypes.c_char.from_buffer(mraw))) % 16 + case["moff"]
                    mraw[mb:mb + 4] = mask
                    m = (ctypes.c_char * 4).from_buffer(mraw, mb) if case["mkind"] == "ctypes" \
                        else memoryview(mraw)[mb:mb + 4]
                PROGRESS.pack_into(prog, 0, 0, DKINDS.index(dk), n, off, mi, fi)
                try:
                    got = fn(m, data)
                except Exception as e:
                    got = e
                lines = ["mask=%r (%s @%d)  fill=%s  len=%d  payload as %s at offset %d (addr %% 8 = %d)"
                         % (mask, case.get("mkind", "bytes"), case.get("moff", 0), FILLS[fi], n, dk,
                            off, (buf.addr0 + off) % 8 if dk != "bytes" else 0)]
                if isinstance(got, bytes):
                    i = first_diff(got, want)
                    if got == want:
                        lines.append("real == definition (%d bytes)  OK" % n)
                        if case["impl"] != "python":
                            t = _string_at(id(got) + _SVAL + n, 1)
                            lines.append("byte behind the result (must stay NUL): %r%s"
                                         % (t, "" if t == b"\0" else "   <== MISMATCH (overrun)"))
                    else:
                        lo = max(0, i - 4)
                        lines.append("first difference at index %d (i%%4=%d)" % (i, i % 4))
                        lines.append("  payload   [%d:%d] = %s" % (lo, i + 12, bytes(buf.view(off, n))[lo:i + 12].hex(" ")))
                        lines.append("  real      [%d:%d] = %s" % (lo, i + 12, got[lo:i + 12].hex(" ")))
                        lines.append("  definition[%d:%d] = %s" % (lo, i + 12, want[lo:i + 12].hex(" ")))
                        lines.append("  lengths: real %d, definition %d   <== MISMATCH" % (len(got), len(want)))
                else:
                    lines.append("real: %s ; definition: %s   <== MISMATCH" % (describe(got), describe(want)))
                if case.get("check_intact"):
                    lines.append("input buffer intact after the call: %r" % buf.intact())
                st.samples.extend(lines)

            if case.get("crash_part"):
                part = tuple(case["crash_part"])
                sub, crash = self._isolated(
                    lambda s, prog: self._run(part, case.get("tier", "quick"), s, prog))
                out.append("re-ran partition %r: %s" % (
                    part, "process died with %s at %r   <== MISMATCH (definition: returns bytes)"
                    % crash if crash else "no crash this time"))
                if case.get("dkind") is None:
                    return "\n".join(out)
            sub, crash = self._isolated(body)
            if crash:
                out.append("process died with %s at %r   <== MISMATCH (definition: returns bytes)" % crash)
            else:
                out.extend(str(s) for s in sub.samples)
                out.extend("ERROR " + e for e in sub.errors)
            return "\n".join(out)
        finally:
            shutil.rmtree(d, ignore_errors=True)


CHECK = C18()
