"""C31 Routing picks the first matching rule and reverse URLs route back.

Shape I: rule trees (ordered lists of path rules, host rules, nested routers)
are built from a small generator of patterns, installed into a real
tornado.web.Application and into a real tornado.routing.RuleRouter, and every
request of a finite host x path space is dispatched through a real HTTPServer
on an in-memory socket.  The handler reports which rule it belongs to and the
arguments it received.  Reference (`ref_route`): flatten the tree in order; the
first leaf whose host pattern fullmatches the lower-cased, port-less Host and
whose path patterns fullmatch the request path wins; its groups are
percent-decoded (own 6-line decoder) and UTF-8 decoded; no leaf -> 404.

Reverse: every named rule built from re.escape()d literals and simple capturing
groups x every argument tuple that is representable in the groups:
reverse_url() must return a usable request-target that routes (real dispatch)
to that very rule with equal arguments.
"""
import itertools
import json
import re

from mc.core import Check
from mc import httph
from mc.vloop import World

# ------------------------------------------------------------------ patterns
# name -> (pattern, reversible-by-construction)
# "reversible by construction" = concatenation of re.escape()d literals,
# optional ^/$ anchors and non-nested capturing groups (the class documented
# for PathMatches.reverse / util.re_unescape).
E = re.escape
ATOMS = {
    "lit": (E("/a"), True),
    "lit2": (E("/a/b"), True),
    "litdot": (E("/a.b"), True),                 # /a\.b
    "litpct": (E("/%41"), True),                 # literal %, no group
    "litdollar": (E("/a$"), True),               # /a\$   '$' is a legal path character
    "any": ("/(.*)", True),
    "seg": ("/([^/]+)", True),
    "named": ("/(?P<x>[a-z]+)", True),
    "seg2": ("/([^/]+)/([^/]+)", True),
    "namedsuffix": ("/(?P<x>[^/]+)/b", True),
    "pctgroup": (E("/%41/") + "([^/]+)", True),  # literal % and a group
    "grouppct": ("/([^/]+)" + E("/my%20f"), True),   # literal % *after* a group
    "pctgrouppct": (E("/1%25/") + "([a-z]+)" + E("/%41/") + "([^/]+)" + E("/%"), True),
    "anchored": ("^" + E("/a") + "$", True),
    "opt": ("/a/?([a-z]+)?", False),             # optional group -> None argument
    "regexdot": ("/a.b", False),                 # unescaped metacharacter
    "digits": (r"/\d/(.*)", "refuse"),           # documented as not reversible: reverse_url must refuse
    "backref": (r"/m/([a-z]+)/\1", "refuse"),     # an escaped digit is no re.escape() output either
    "octal": (r"/m/\0/(.*)", "refuse"),
}
# composite atoms: (kind, pattern, children)
NESTED = {
    "nest": ("p", "/a/.*", ["lit2", "nestseg"]),
    "nestfall": ("p", "/(.*)", ["lit"]),         # inner miss must fall through to later rules
    "hosta": ("h", "a", ["any"]),
    "hostba": ("h", r"b\.a", ["seg"]),
}
ATOMS["nestseg"] = ("/a/([^/]+)", True)
# patterns handed over as compiled objects carrying flags (str | Pattern is the documented argument type)
ATOMS["namedopt"] = ("/(?P<x>[a-z]+)(?:/(?P<y>[A-Z]))?", False)     # y does not take part in a match of /a: delivered as None
ATOMS["flag-i"] = ("<re.I>/a$", False)
ATOMS["flag-x"] = ("<re.X>/a \\. (b) $", False)
TOP_ATOMS = ["lit", "lit2", "litdot", "litpct", "litdollar", "any", "seg", "named", "seg2",
             "namedsuffix", "pctgroup", "grouppct", "pctgrouppct", "anchored", "opt", "regexdot",
             "flag-i", "flag-x", "namedopt", "nest", "nestfall", "hosta", "hostba"]

SEGS = ["a", "b", "a.b", "aXb", "%41", "A", "a%2Fb", "%", "a$", "a$b", "a+b", "c%C3%A9", "", "ab"]
HOSTS = ["a", "b.a", "A", "a:8080"]
HOSTPATS = ["a", r"b\.a", ".*", r".*\.a"]

REV_ARGS = ["a", "ab", "a b", "a/b", "%41", "é", "", "a+b", "a?b#c", "100%", 7, 1.5]


def cx(p):
    """A pattern string, or '<re.I>...' / '<re.X>...': a pattern the application compiled itself with flags."""
    if p.startswith("<re.I>"):
        return re.compile(p[6:], re.I)
    if p.startswith("<re.X>"):
        return re.compile(p[6:], re.X)
    return re.compile(p)


def real_pat(p):
    return cx(p) if p.startswith("<re.") else p


# ----------------------------------------------------------------- rule tree
def mk_tree(names):
    """names: list of atom names -> tree: list of nodes
    ("p", pattern, rid, None) leaf | ("p", pattern, rid, children) | ("h", hostpat, rid, children)"""
    def node(name, rid):
        if name in NESTED:
            kind, pat, kids = NESTED[name]
            return [kind, pat, rid, [node(k, "%s.%d" % (rid, j)) for j, k in enumerate(kids)]]
        return ["p", ATOMS[name][0], rid, None]
    return [node(n, str(i)) for i, n in enumerate(names)]


def flatten(tree, conds=()):
    for kind, pat, rid, kids in tree:
        c = conds + ((kind, pat),)
        if kids is None:
            yield c, rid, pat
        else:
            yield from flatten(kids, c)


def pct_decode(s):
    """RFC 3986 2.1 percent-decoding to bytes; malformed escapes stay literal."""
    out = bytearray()
    i = 0
    b = s.encode("latin-1")
    while i < len(b):
        if b[i] == 0x25 and re.fullmatch(rb"[0-9A-Fa-f]{2}", b[i + 1:i + 3]):
            out.append(int(b[i + 1:i + 3], 16))
            i += 3
        else:
            out.append(b[i])
            i += 1
    return bytes(out)


def ref_host_name(host):
    host = host.lower()
    m = re.fullmatch(r"(.+?)(?::(\d+))?", host)
    return m.group(1)


def cond_holds(kind, p, hn, path, default_host, real_ip):
    if kind == "p":
        return cx(p).fullmatch(path) is not None
    if kind == "h":
        return re.compile(p).fullmatch(hn) is not None
    if kind == "dh":     # Application default_host block (DefaultHostMatches doc: never with X-Real-Ip)
        return (not real_ip) and default_host is not None and \
            re.compile(p).fullmatch(default_host) is not None
    raise AssertionError(kind)


def matching_leaves(tree, host, path, default_host=None, real_ip=False):
    hn = ref_host_name(host)
    return [(conds, rid, pat) for conds, rid, pat in flatten(tree)
            if all(cond_holds(k, p, hn, path, default_host, real_ip) for k, p in conds)]


def ref_route(tree, host, path, default_host=None, real_ip=False):
    """-> None (404) or (rid, args, kwargs)"""
    ms = matching_leaves(tree, host, path, default_host, real_ip)
    if not ms:
        return None
    conds, rid, pat = ms[0]
    rx = cx(pat)
    m = rx.fullmatch(path)

    def dec(v):
        return None if v is None else pct_decode(v).decode("utf-8")
    if rx.groupindex:
        return rid, [], {k: dec(v) for k, v in m.groupdict().items()}
    return rid, [dec(v) for v in m.groups()], {}


# ------------------------------------------------------------------- real side
def build_app(tree, host_blocks=(), default_host=None, names=None, nest_tuple=False):
    """Real Application from a tree.  host_blocks: list of (hostpat, tree) added
    with add_handlers.  names: {rid: name} -> URLSpec(name=...)."""
    from tornado.web import Application, RequestHandler, URLSpec
    from tornado.routing import HostMatches
    names = names or {}

    class H(RequestHandler):
        def initialize(self, rid):
            self.rid = rid

        def get(self, *args, **kwargs):
            self.finish(json.dumps({"rid": self.rid, "args": list(args), "kwargs": kwargs}))

    def conv(nodes):
        out = []
        for kind, pat, rid, kids in nodes:
            if kids is None:
                out.append(URLSpec(real_pat(pat), H, {"rid": rid}, name=names.get(rid)))
            elif kind == "p":
                out.append((pat, tuple(conv(kids)) if nest_tuple else conv(kids)))
            else:
                out.append((HostMatches(pat), tuple(conv(kids)) if nest_tuple else conv(kids)))
        return out

    app = Application(conv(tree), default_host=default_host)
    for hp, t in host_blocks:
        app.add_handlers(hp, conv(t))
    return app


def build_router(tree, names=None):
    """Real tornado.routing.ReversibleRuleRouter with old-style callable targets."""
    from tornado.routing import ReversibleRuleRouter, Rule, PathMatches, HostMatches
    from tornado import httputil
    names = names or {}

    def target(rid):
        def t(request, path_args=(), path_kwargs=None, **kw):
            def d(v):
                return None if v is None else v.decode("utf-8")
            body = json.dumps({"rid": rid, "args": [d(a) for a in path_args],
                               "kwargs": {k: d(v) for k, v in (path_kwargs or {}).items()}}).encode()
            request.connection.write_headers(
                httputil.ResponseStartLine("HTTP/1.1", 200, "OK"),
                httputil.HTTPHeaders({"Content-Length": str(len(body))}), body)
            request.connection.finish()
        return t

    def conv(nodes):
        rules = []
        for kind, pat, rid, kids in nodes:
            if kids is None:
                rules.append(Rule(PathMatches(real_pat(pat)), target(rid), name=names.get(rid)))
            elif kind == "p":
                rules.append(Rule(PathMatches(pat), conv(kids)))
            else:
                rules.append(Rule(HostMatches(pat), conv(kids)))
        return ReversibleRuleRouter(rules)

    return conv(tree)


class Client:
    """Keep-alive client on an in-memory connection to a real HTTPServer."""

    def __init__(self, world, delegate):
        self.w = world
        self.delegate = delegate
        self.conn = None

    def get_raw(self, host, target):
        if self.conn is None or self.conn.closed:
            self.conn = httph.ServerConn(self.w, self.delegate)
        c = self.conn
        c.sock.take_sent()
        c.send(("GET %s HTTP/1.1\r\nHost: %s\r\n\r\n" % (target, host)).encode("latin-1"))
        data = c.sock.take_sent()
        resps, problems = httph.read_responses(data, ["GET"], c.closed)
        if problems or len(resps) != 1:
            self.conn = None
            return ("broken", repr(problems)[:60].encode())
        return resps[0].code, resps[0].body

    def get(self, host, target, real_ip=False):
        if self.conn is None or self.conn.closed:
            self.conn = httph.ServerConn(self.w, self.delegate)
        c = self.conn
        c.sock.take_sent()
        req = "GET %s HTTP/1.1\r\nHost: %s\r\n%s\r\n" % (
            target, host, "X-Real-Ip: 9.9.9.9\r\n" if real_ip else "")
        c.send(req.encode("latin-1"))
        data = c.sock.take_sent()
        resps, problems = httph.read_responses(data, ["GET"], c.closed)
        if problems or len(resps) != 1:
            self.conn = None
            return ("broken", problems, data[:80])
        r = resps[0]
        if r.code == 200:
            try:
                j = json.loads(r.body)
                return (200, j["rid"], j["args"], j["kwargs"])
            except Exception:
                return ("badbody", r.body[:80])
        return (r.code,)


def want_tuple(ref):
    if ref is None:
        return (404,)
    return (200, ref[0], ref[1], ref[2])


def atom_of(tree, rid):
    """Structural name for a rule id: its pattern."""
    for conds, r, pat in flatten(tree):
        if r == rid:
            return pat
    return "?"


def classify(tree, got, want, matching=None):
    """Structural signature.  matching: rids of all leaves that match per reference."""
    if got[0] == 200 and (want[0] == 404 or (matching is not None and got[1] not in matching)):
        return "overmatch:" + atom_of(tree, got[1])        # the picked rule does not match at all
    if got[0] == 404 and want[0] == 200:
        return "undermatch:" + atom_of(tree, want[1])
    if got[0] == 200 and want[0] == 200:
        if got[1] != want[1]:
            return "not-first-match"                         # picked a later matching rule
        raw = want[2] + list(want[3].values())
        return "args:captured-" + arg_class([a for a in raw if a is not None])
    return "status-%s" % (got[0],)


# ------------------------------------------------------------------ reverse
def strict_escape(s):
    """RFC 3986 encoding of everything but unreserved characters."""
    return "".join(chr(c) if chr(c).isalnum() and c < 128 or chr(c) in "-._~" else "%%%02X" % c
                   for c in s.encode("utf-8"))


def group_regexes(pat):
    return re.findall(r"\((?:\?P<\w+>)?([^()]*)\)", pat)


def representable(pat, args):
    gs = group_regexes(pat)
    if len(gs) != len(args):
        return False
    return all(re.fullmatch(g, strict_escape(str(a))) is not None for g, a in zip(gs, args))


def arg_class(args):
    cls = []
    for a in args:
        a = str(a)
        for ch, nm in (("/", "slash"), ("%", "percent"), (" ", "space"), ("+", "plus"),
                       ("?", "qmark"), ("é", "nonascii")):
            if ch in a and nm not in cls:
                cls.append(nm)
        if a == "" and "empty" not in cls:
            cls.append("empty")
    return "+".join(cls) or "plain"


def reverse_case(st, case):
    """case: dict(atom, args, embed, variant).  Returns list of (sig, msg), verdict class."""
    name = case["atom"]
    pat, reversible = ATOMS[name]
    args = case["args"]
    embed = case["embed"]
    leaf = ["p", pat, "T", None]
    catchall = ["p", "/(.*)", "Z", None]
    host_blocks = []
    if embed == "top":
        tree = [leaf, catchall]
    elif embed in ("nested", "nested-tuple"):      # nested-tuple: the nested rule sequence is a tuple, not a list
        tree = [["p", "/.*", "N", [leaf]], catchall]
    elif embed == "nested2":     # an earlier nested router that does not know the name
        tree = [["p", "/x/.*", "M", [["p", "/x/y", "Y", None]]], ["p", "/.*", "N", [leaf]], catchall]
    elif embed == "hostblock":
        tree = [catchall]
        host_blocks = [(".*", [leaf])]
    elif embed == "hostrule":
        tree = [["h", ".*", "Hh", [leaf]], catchall]
    elif embed == "dup-name":
        # an earlier rule registered under the same name: the later registration replaces it ("replacing previous value")
        old = ["p", "/old" + "/([^/]+)" * cx(pat).groups, "O", None]
        tree = [old, leaf, catchall]
    else:
        raise AssertionError(embed)
    names = {"T": "target"}
    if embed == "dup-name":
        names = {"O": "target", "T": "target"}
    bad = []
    with World() as w:
        if case["variant"] == "app":
            router = build_app(tree, host_blocks, names=names, nest_tuple=(embed == "nested-tuple"))
        else:
            router = build_router(tree, names=names)
        try:
            url = router.reverse_url("target", *args)
            exc = None
        except Exception as e:
            url, exc = None, e
        ok_args = representable(pat, args)
        if reversible == "refuse":
            # a backslash-escaped letter or digit outside the groups cannot have come from re.escape():
            # documented to be refused, not "unescaped" into a URL that does not match the rule
            if exc is None:
                bad.append(("reverse:unreversible-pattern-not-refused",
                            "reverse_url('target', *%r) for pattern %r returned %r instead of raising" % (args, pat, url)))
            elif not isinstance(exc, (ValueError, AssertionError, TypeError)):
                bad.append(("reverse:unexpected-exception-type:" + type(exc).__name__,
                            "reverse_url(%r) raised %r" % (args, exc)))
            return bad, "refuse", url, exc, None
        verdict = reversible and ok_args
        if not verdict:
            cls = "either:reverse-" + ("pattern-outside-documented-class" if not reversible
                                       else "args-not-representable")
            if exc is not None and not isinstance(exc, (ValueError, AssertionError, TypeError)):
                bad.append(("reverse:unexpected-exception-type:" + type(exc).__name__,
                            "reverse_url(%r) raised %r" % (args, exc)))
            return bad, cls, url, exc, None
        acls = arg_class(args)
        if exc is not None:
            bad.append(("reverse:raised-%s:pattern=%s" % (type(exc).__name__, pat),
                        "reverse_url('target', *%r) for pattern %r raised %s: %s"
                        % (args, pat, type(exc).__name__, exc)))
            return bad, "verdict", url, exc, None
        if not isinstance(url, str) or not re.fullmatch(r"/[\x21-\x7e]*", url):
            bad.append(("reverse:not-a-request-target:args=" + acls.split("+")[0],
                        "reverse_url(*%r) for %r returned %r" % (args, pat, url)))
            return bad, "verdict", url, exc, None
        cl = Client(w, router)
        got = cl.get("a", url)
        rx = cx(pat)
        sargs = [str(a) for a in args]
        if rx.groupindex:
            order = sorted(rx.groupindex, key=rx.groupindex.get)
            want = (200, "T", [], dict(zip(order, sargs)))
        else:
            want = (200, "T", sargs, {})
        if got != want:
            if got[0] == 200 and got[1] == "T":
                kind = "routes-back-with-different-args"
            elif got[0] == 200:
                kind = "routes-to-another-rule"
            else:
                kind = "status-%s" % (got[0],)
            # one cause = one signature: a '/' in an argument dominates; otherwise
            # the pattern and the argument class identify the failure
            where = ("arg-has-slash" if "slash" in acls else
                     "pattern=%s" % pat if acls == "plain" else "args=" + acls.split("+")[0])
            if "slash" in acls:
                kind = "no-route-back"
            bad.append(("reverse:%s:%s" % (kind, where),
                        "pattern %r: reverse_url(*%r) = %r; GET of it gives %r, expected %r"
                        % (pat, args, url, got, want)))
        return bad, "verdict", url, exc, got


# ----------------------------------------------------------------- enumeration
def paths(maxsegs):
    for n in range(1, maxsegs + 1):
        for segs in itertools.product(SEGS, repeat=n):
            yield "/" + "/".join(segs)


def rule_lists(maxrules):
    for n in range(1, maxrules + 1):
        for names in itertools.product(TOP_ATOMS, repeat=n):
            yield list(names)


BLOCKS = [["lit"], ["any"], ["lit", "any"], ["litb"]]
ATOMS["litb"] = (E("/b"), True)


def host_configs(tier):
    """Application(handlers=wild, default_host=dh) + add_handlers(hp_i, block_i)"""
    wilds = [[], ["lit"], ["any"]]
    dhs = [None, "a", "b.a"]
    blocks = [(hp, b) for hp in HOSTPATS for b in range(len(BLOCKS))]
    for nb in (0, 1, 2):
        for hb in itertools.product(blocks, repeat=nb):
            for wi in range(len(wilds)):
                for dh in dhs:
                    yield dict(wild=wilds[wi], dh=dh, hb=[[hp, BLOCKS[b]] for hp, b in hb])


def host_tree(cfg):
    """Reference tree for an Application with host blocks (documented order:
    host blocks in the order added, then the constructor's handlers, then - if
    default_host is set and no X-Real-Ip - the blocks whose pattern matches
    default_host)."""
    tree = []
    real_blocks = []
    for i, (hp, names) in enumerate(cfg["hb"]):
        kids = [["p", ATOMS[n][0], "h%d.%d" % (i, j), None] for j, n in enumerate(names)]
        tree.append(["h", hp, "h%d" % i, kids])
        real_blocks.append((hp, kids))
    wild = [["p", ATOMS[n][0], "w%d" % j, None] for j, n in enumerate(cfg["wild"])]
    tree += wild
    if cfg["dh"] is not None:
        for i, (hp, names) in enumerate(cfg["hb"]):
            kids = [["p", ATOMS[n][0], "h%d.%d" % (i, j), None] for j, n in enumerate(names)]
            tree.append(["dh", hp, "d%d" % i, kids])
    return tree, wild, real_blocks


class C31(Check):
    id = "C31"
    level = "exploration"
    design_ref = "DESIGN.md §2 C31"
    rule = ("space P: all ordered rule lists of <= n rules (n=2 quick, 3 thorough) from 18 pattern "
            "atoms (re.escape literals incl. '.', '%', '$'; (.*), ([^/]+), named, two groups, "
            "optional group, anchored, nested routers incl. fall-through, host rules) installed in a "
            "real Application AND a real RuleRouter x all paths of <= 2 segments over 14 segments "
            "(literals' alphabet, %41, %2F, bare %, $, +, UTF-8 escape, empty) [thorough adds lists <= 2 "
            "x paths <= 3 segments]; space H: Application with 0-2 add_handlers host blocks x "
            "4 host patterns x 4 rule blocks x 3 constructor lists x default_host {None,a,b.a} x "
            "X-Real-Ip x 4 Host values x 3 paths; space R: 15 named patterns x all argument tuples "
            "from 11 values x 5 embeddings (top, nested, nested after an unrelated nested router, add_handlers block, HostMatches rule) x {Application, ReversibleRuleRouter}; every request goes "
            "through a real HTTPServer; non-trivial = distinct (rule list, path) with >= 2 matching "
            "rules or a percent-escape in a captured group or a fall-through, and reverse cases with "
            "a verdict")
    claim = ("Within the bound the handler that runs and the arguments it receives are exactly those "
             "of the first rule (depth-first order) whose host and path patterns match the whole host "
             "and path, arguments percent-decoded once; unmatched requests get 404; reverse_url of a "
             "reversible pattern with representable arguments yields a request-target that routes "
             "back to the same rule with the same arguments.")
    technique = ("bounded exhaustive enumeration of rule lists x requests on the real Application / "
                 "RuleRouter dispatch (through HTTPServer on an in-memory socket) against a flattening "
                 "first-fullmatch reference with an own percent-decoder")
    assumptions = [
        "patterns have no top-level alternation (excluded by the property statement)",
        "request paths contain no CR/LF (impossible in a request line), so '$' vs '\\Z' is not probed",
        "captured groups always decode to valid UTF-8 (invalid UTF-8 -> 400 is decode_argument's business)",
        "reverse verdicts only for patterns made of re.escape()d literals, ^/$ anchors and non-nested "
        "groups; optional groups / raw metacharacters / \\d are EITHER",
        "an argument is 'representable' iff its RFC 3986 strict encoding fullmatches the group's regex",
        "arguments of an outer (nested-router) rule are not passed to the inner handler (documented: "
        "only the leaf rule's groups)",
    ]

    def partitions(self, tier):
        n = 2 if tier == "quick" else 3
        parts = [("P", i, 48, n, 2) for i in range(48)]
        if tier != "quick":
            parts += [("P", i, 48, 2, 3) for i in range(48)]
        parts += [("H", i, 32) for i in range(32)]
        parts += [("R", i, 16) for i in range(16)]
        parts.append(("static-first", 0))
        return parts

    def _static_first(self, st):
        """Application(static_path=...) puts its static rules in front of the application's own: a catch-all rule of
        the application must not shadow /static/..., /favicon.ico or /robots.txt."""
        import os
        import shutil
        import tempfile
        from tornado.web import Application, RequestHandler
        d = tempfile.mkdtemp(prefix="verif-c31-")
        try:
            os.makedirs(d + "/css")
            for rel, body in (("hello.txt", b"STATIC hello"), ("css/a b.css", b"STATIC css"), ("robots.txt", b"STATIC robots"),
                              ("favicon.ico", b"STATIC icon")):
                with open(os.path.join(d, rel), "wb") as f:
                    f.write(body)

            class Page(RequestHandler):
                def get(self, path):
                    self.finish("PAGE " + path)
            for prefix in (None, "/assets/"):
                kw = {"static_path": d}
                if prefix:
                    kw["static_url_prefix"] = prefix
                app = Application([(r"/(.*)", Page)], **kw)
                with World() as w:
                    cl = Client(w, app)
                    pre = prefix or "/static/"
                    for path, want in ((pre + "hello.txt", b"STATIC hello"), (pre + "css/a%20b.css", b"STATIC css"),
                                       ("/robots.txt", b"STATIC robots"), ("/favicon.ico", b"STATIC icon"),
                                       ("/other", b"PAGE other")):
                        code, body = cl.get_raw("example.com", path)
                        st.ev()
                        st.nontriv(("static-first", prefix, path))
                        if code != 200 or body != want:
                            st.violation("dispatch:static-rule-shadowed" if want.startswith(b"STATIC") else "dispatch:static-first:other",
                                         "Application([('/(.*)', Page)], static_path=..., static_url_prefix=%r): GET %s -> %r %r, "
                                         "expected %r" % (prefix, path, code, body[:40], want), {"space": "static-first"})
        finally:
            shutil.rmtree(d, ignore_errors=True)

    # -- space P ---------------------------------------------------------
    def _run_list(self, names, plist, st, hosts):
        tree = mk_tree(names)
        flat = list(flatten(tree))
        with World() as w:
            for variant in ("app", "router"):
                delegate = build_app(tree) if variant == "app" else build_router(tree)
                cl = Client(w, delegate)
                for host in hosts:
                    for path in plist:
                        got = cl.get(host, path)
                        ref = ref_route(tree, host, path)
                        want = want_tuple(ref)
                        st.ev()
                        st.outcome((got[0], got[1] if len(got) > 1 else None) if got[0] == 200 else got[0])
                        if got != want:
                            sig = "dispatch:" + classify(
                                tree, got, want, [m[1] for m in matching_leaves(tree, host, path)])
                            st.violation(sig, "%s: rules %r, Host %r, path %r: real %r, reference "
                                         "(first fullmatch) %r" % (variant, names, host, path, got, want),
                                         {"space": "P", "names": names, "host": host, "path": path,
                                          "variant": variant})
                            continue
                        if ref is not None:
                            ms = matching_leaves(tree, host, path)
                            if len(ms) >= 2 or ms[0][1] != flat[0][1] or \
                                    any("%" in (v or "") for v in cx(ms[0][2]).fullmatch(path).groups()):
                                st.nontriv((names, host, path, variant))
                        if len(st.samples) < 3 and ref is not None and "%" in path and len(names) > 1:
                            st.sample({"rules": [n for n in names], "host": host, "path": path,
                                       "variant": variant, "dispatched": list(got)})

    def run_partition(self, part, tier, st):
        if part[0] == "static-first":
            return self._static_first(st)
        if part[0] == "P":
            _, i, n, maxrules, maxsegs = part
            plist = list(paths(maxsegs))
            for k, names in enumerate(rule_lists(maxrules)):
                if k % n != i:
                    continue
                hosts = ["a", "b.a"] if any(x in ("hosta", "hostba") for x in names) else ["a"]
                self._run_list(names, plist, st, hosts)
            st.setmax("max_rules", maxrules)
            st.setmax("max_path_segments", maxsegs)
        elif part[0] == "H":
            _, i, n = part
            for k, cfg in enumerate(host_configs(tier)):
                if k % n == i:
                    self._run_host(cfg, st)
        else:
            _, i, n = part
            for k, case in enumerate(self._reverse_cases()):
                if k % n == i:
                    self._run_reverse(case, st)

    # -- space H ---------------------------------------------------------
    def _run_host(self, cfg, st):
        tree, wild, real_blocks = host_tree(cfg)
        with World() as w:
            app = build_app(wild, real_blocks, default_host=cfg["dh"])
            cl = Client(w, app)
            for real_ip in (False, True):
                for host in HOSTS:
                    for path in ("/a", "/b", "/c"):
                        got = cl.get(host, path, real_ip=real_ip)
                        ref = ref_route(tree, host, path, default_host=cfg["dh"], real_ip=real_ip)
                        want = want_tuple(ref)
                        # Second reading of "If there's no match for the current request's
                        # host, then default_host ... is matched": default_host is only
                        # consulted when NO host pattern (constructor handlers count as '.*')
                        # matches the request's host.  Where the readings differ: EITHER.
                        hn = ref_host_name(host)
                        host_matched = bool(cfg["wild"]) or any(
                            re.compile(hp).fullmatch(hn) for hp, _ in cfg["hb"])
                        tree_b = [n for n in tree if n[0] != "dh"] if host_matched else tree
                        want_b = want_tuple(ref_route(tree_b, host, path, default_host=cfg["dh"],
                                                      real_ip=real_ip))
                        st.ev()
                        st.outcome(("H", got[0], got[1] if len(got) > 1 else None))
                        if want_b != want:
                            st.note("either:default_host_consulted_after_a_host_pattern_matched")
                        if got != want and got != want_b:
                            st.violation("hosts:" + classify(
                                tree, got, want, [m[1] for m in matching_leaves(
                                    tree, host, path, cfg["dh"], real_ip)]),
                                         "Application(handlers=%r, default_host=%r)+add_handlers%r, "
                                         "Host %r, X-Real-Ip %s, path %r: real %r, reference %r"
                                         % (cfg["wild"], cfg["dh"], cfg["hb"], host, real_ip, path, got, want),
                                         {"space": "H", "cfg": cfg, "host": host, "path": path,
                                          "real_ip": real_ip})
                        elif ref is not None and want_b == want and (cfg["hb"] or cfg["dh"]):
                            st.nontriv(("H", cfg["wild"], cfg["dh"], cfg["hb"], host, path, real_ip))

    # -- space R ---------------------------------------------------------
    def _reverse_cases(self):
        for name in sorted(ATOMS):
            pat = ATOMS[name][0]
            ng = cx(pat).groups
            for args in itertools.product(REV_ARGS, repeat=ng):
                for embed in ("top", "nested", "nested2", "hostblock", "hostrule", "nested-tuple", "dup-name"):
                    for variant in ("app", "router"):
                        if variant == "router" and embed in ("hostblock", "nested-tuple"):
                            continue
                        if embed == "dup-name" and not ATOMS[name][1] is True:
                            continue
                        yield dict(space="R", atom=name, args=list(args), embed=embed, variant=variant)

    def _run_reverse(self, case, st):
        bad, cls, url, exc, got = reverse_case(st, case)
        st.ev()
        st.outcome(("R", cls, type(exc).__name__ if exc else None, got[0] if got else None))
        for sig, msg in bad:
            st.violation(sig, msg + " [%s/%s]" % (case["variant"], case["embed"]), case)
        if cls == "verdict":
            if not bad:
                st.nontriv(("R", case["atom"], case["args"], case["embed"], case["variant"]))
            if len(st.samples) < 5 and len(case["args"]) == 1 and case["args"][0] not in ("a", "ab"):
                st.sample({"pattern": ATOMS[case["atom"]][0], "args": case["args"], "reverse_url": url,
                           "routes_to": list(got) if got else None})
        else:
            st.note(cls)

    # -- replay ----------------------------------------------------------
    def replay(self, case):
        if case.get("space") == "static-first":
            from mc.core import Stats
            st = Stats()
            self._static_first(st)
            return repr({k: v[0] for k, v in st.violations.items()}) or "ok"
        out = []
        if case["space"] == "P":
            names = case["names"]
            tree = mk_tree(names)
            out.append("rules (in order):")
            for conds, rid, pat in flatten(tree):
                out.append("  rule %-4s %s" % (rid, " AND ".join("%s~%s" % c for c in conds)))
            with World() as w:
                d = build_app(tree) if case["variant"] == "app" else build_router(tree)
                got = Client(w, d).get(case["host"], case["path"])
            want = want_tuple(ref_route(tree, case["host"], case["path"]))
            out.append("GET %s  Host: %s  via %s" % (case["path"], case["host"], case["variant"]))
            out.append("real:     %r" % (got,))
            out.append("expected: %r  (first rule whose patterns fullmatch)" % (want,))
        elif case["space"] == "H":
            cfg = case["cfg"]
            tree, wild, real_blocks = host_tree(cfg)
            with World() as w:
                app = build_app(wild, real_blocks, default_host=cfg["dh"])
                got = Client(w, app).get(case["host"], case["path"], real_ip=case["real_ip"])
            want = want_tuple(ref_route(tree, case["host"], case["path"], cfg["dh"], case["real_ip"]))
            out.append("config %r" % (cfg,))
            out.append("GET %s Host: %s X-Real-Ip: %s" % (case["path"], case["host"], case["real_ip"]))
            out.append("real:     %r" % (got,))
            out.append("expected: %r" % (want,))
        else:
            bad, cls, url, exc, got = reverse_case(None, case)
            out.append("pattern %r named 'target' (%s in %s)" % (ATOMS[case["atom"]][0], case["embed"],
                                                                  case["variant"]))
            out.append("reverse_url('target', *%r) -> %r%s" % (case["args"], url,
                                                               "" if exc is None else "  RAISED %r" % (exc,)))
            out.append("GET of that url -> %r" % (got,))
            out.append("expected: a request-target that routes to rule 'T' with args %r"
                       % ([str(a) for a in case["args"]],))
            out.append("verdicts: %r" % (bad or "none",))
        return "\n".join(out)


CHECK = C31()
