"""C38 IOLoop callbacks and timeouts run once, in order, and survive errors.
(a) shape I x S: all programs of <= L scheduling calls (add_callback,
spawn_callback, add_timeout absolute / timedelta, call_later, call_at,
remove_timeout now / from a callback / from a timeout, raising callbacks,
callbacks returning failing futures, add_future on done / pending futures) on
the real IOLoop over a virtual clock; (b) run_sync on the real
run_forever machinery; (c) concurrent add_callback from foreign threads under
the controlled thread scheduler (mc.tsched)."""
import asyncio
import datetime
import itertools

from mc.core import Check, h
from mc.vloop import World, Livelock

DELAYS = [0.25, 0.5, 1.0]
OPS = ([("cb",), ("cb_raise",), ("cb_failfut",), ("spawn",), ("cb_nested",), ("cb_raise_bad",)] +
       [(k, d) for k in ("to_abs", "to_delta", "later", "at") for d in DELAYS] +
       [("to_delta", 86400.5), ("to_delta", -1.0)] +
       [("block", 0.6), ("to_abs_at", 0.5), ("to_abs_at", 0.3), ("addfut_cf_done",), ("to_abs_frac", 0.5), ("cb_failcf",)] +
       [("rm", 0), ("rm", 1), ("cb_rm", 0), ("cb_rm", 1), ("to_rm", 0.75, 0), ("to_rm", 0.4, 1),
        ("addfut_done",), ("addfut_later",), ("to_raise", 0.6)])


class Boom(Exception):
    pass


def run_program(prog, shifted=False):
    with World() as w:
        io = w.ioloop
        if shifted:
            # an IOLoop whose time() is not time.time() (documented as overridable, e.g. a monotonic clock): every
            # deadline - relative, timedelta or absolute - is measured on that clock
            io.time = lambda: 1000.0 + w.loop.vtime
        log = []          # (name, vtime)
        sched = {}        # name -> dict(kind, seq, deadline, removed_at_log_index)
        handles = []      # timeout handles in scheduling order: (name, handle)
        seq = [0]
        markers = []

        def mk(name):
            def fn():
                log.append((name, w.loop.vtime))
            fn.__name__ = name
            return fn

        def reg(name, kind, deadline=None):
            seq[0] += 1
            # a deadline that has already passed when the timeout is added counts as "due now" for the ordering
            eff = None if deadline is None else max(deadline, w.loop.vtime)
            sched[name] = {"kind": kind, "seq": seq[0], "deadline": deadline, "eff": eff, "removed": None,
                           "sched_log_len": len(log)}

        def remove(j):
            if j < len(handles):
                name, hd = handles[j]
                io.remove_timeout(hd)
                if sched[name]["removed"] is None:
                    sched[name]["removed"] = len(log)

        def do(i, op, prefix="p"):
            name = "%s%d:%s" % (prefix, i, op[0])
            k = op[0]
            if k == "cb":
                reg(name, "callback")
                io.add_callback(mk(name))
            elif k == "spawn":
                reg(name, "callback")
                io.spawn_callback(mk(name))
            elif k == "cb_raise":
                reg(name, "callback")

                def f():
                    log.append((name, w.loop.vtime))
                    raise Boom(name)
                io.add_callback(f)
            elif k == "cb_raise_bad":
                reg(name, "callback")

                def f():
                    # what gen.with_timeout / gen.multi / convert_yielded raise when handed a non-awaitable
                    from tornado import gen
                    log.append((name, w.loop.vtime))
                    raise gen.BadYieldError(name)
                io.add_callback(f)
            elif k == "cb_failfut":
                reg(name, "callback")

                def f():
                    log.append((name, w.loop.vtime))
                    fut = asyncio.Future()
                    fut.set_exception(Boom(name))
                    return fut
                io.add_callback(f)
            elif k == "cb_nested":
                reg(name, "callback")

                def f():
                    log.append((name, w.loop.vtime))
                    inner = name + ">inner"
                    reg(inner, "callback")
                    io.add_callback(mk(inner))
                    t = name + ">timeout"
                    reg(t, "timeout", w.loop.vtime + 0.3)
                    handles.append((t, io.call_later(0.3, mk(t))))
                io.add_callback(f)
            elif k in ("to_abs", "to_delta", "later", "at"):
                d = op[1]
                reg(name, "timeout", w.loop.vtime + d)
                if k == "to_abs":
                    hd = io.add_timeout(io.time() + d, mk(name))
                elif k == "to_delta":
                    hd = io.add_timeout(datetime.timedelta(seconds=d), mk(name))
                elif k == "later":
                    hd = io.call_later(d, mk(name))
                else:
                    hd = io.call_at(io.time() + d, mk(name))
                handles.append((name, hd))
            elif k == "to_abs_frac":
                # an absolute deadline that is a real number but neither int nor float
                import fractions
                reg(name, "timeout", w.loop.vtime + op[1])
                try:
                    handles.append((name, io.add_timeout(fractions.Fraction(io.time() + op[1]), mk(name))))
                except Exception as e:
                    log.append((name + "#raised:" + type(e).__name__, w.loop.vtime))
            elif k == "cb_failcf":
                reg(name, "callback")

                def f():
                    # e.g. add_callback(executor.submit, job): the callback hands back an executor future that failed
                    import concurrent.futures
                    log.append((name, w.loop.vtime))
                    cf = concurrent.futures.Future()
                    cf.set_exception(Boom(name))
                    return cf
                io.add_callback(f)
            elif k == "block":
                w.loop.vtime += op[1]         # the loop is busy for a while: time passes, nothing runs
            elif k == "to_abs_at":
                # an absolute deadline counted from the start of the program (it may already have passed)
                reg(name, "timeout", op[1])
                handles.append((name, io.call_at(io.time() - w.loop.vtime + op[1], mk(name))))
            elif k == "addfut_cf_done":
                import concurrent.futures
                reg(name, "addfut")
                cf = concurrent.futures.Future()
                cf.set_result(3)
                io.add_future(cf, lambda f_: log.append((name, w.loop.vtime)))
                log.append((name + "#returned", w.loop.vtime))
            elif k == "to_raise":
                reg(name, "timeout", w.loop.vtime + op[1])

                def f():
                    log.append((name, w.loop.vtime))
                    raise Boom(name)
                handles.append((name, io.call_later(op[1], f)))
            elif k == "rm":
                remove(op[1])
            elif k == "cb_rm":
                reg(name, "callback")

                def f():
                    log.append((name, w.loop.vtime))
                    remove(op[1])
                io.add_callback(f)
            elif k == "to_rm":
                reg(name, "timeout", w.loop.vtime + op[1])

                def f():
                    log.append((name, w.loop.vtime))
                    remove(op[2])
                handles.append((name, io.call_later(op[1], f)))
            elif k == "addfut_done":
                reg(name, "addfut")
                fut = asyncio.Future()
                fut.set_result(1)
                io.add_future(fut, lambda f_: log.append((name, w.loop.vtime)))
                log.append((name + "#returned", w.loop.vtime))
            elif k == "addfut_later":
                reg(name, "addfut")
                fut = asyncio.Future()
                io.add_future(fut, lambda f_: log.append((name, w.loop.vtime)))

                def completer():
                    fut.set_result(2)
                    log.append((name + "#returned", w.loop.vtime))
                io.add_callback(completer)
        for i, op in enumerate(prog):
            do(i, op)
        w.pump()
        n = 0
        while w.loop.next_timer() is not None and n < 50:
            w.fire_timer()
            n += 1
        w.pump()
        return {"log": log, "sched": sched,
                "errlogs": [(r[1], r[2][:50], r[3]) for r in w.logs.records if r[1] in ("ERROR", "CRITICAL")],
                "escaped": [str(c.get("message"))[:80] for c in w.loop_errors()]}


def judge_program(prog, o):
    bad = []
    log, sched = o["log"], o["sched"]
    names = [n for n, _ in log]
    for name, info in sched.items():
        cnt = names.count(name)
        if info["removed"] is not None:
            ran_before = name in names[:info["removed"]]
            if cnt > (1 if ran_before else 0):
                bad.append(("ran-after-remove_timeout", "%s ran although it was removed first (log %r)" % (name, names)))
            continue
        if cnt != 1:
            bad.append(("%s-ran-%d-times" % (info["kind"], cnt), "%s ran %d times (log %r)" % (name, cnt, names)))
    cbs = [n for n in names if n in sched and sched[n]["kind"] == "callback"]
    if [sched[n]["seq"] for n in cbs] != sorted(sched[n]["seq"] for n in cbs):
        bad.append(("callback-order", "callbacks ran in order %r, scheduled %r" % (cbs, sorted(cbs, key=lambda n: sched[n]["seq"]))))
    tos = [(n, t) for n, t in log if n in sched and sched[n]["kind"] == "timeout"]
    for n, t in tos:
        if t < sched[n]["deadline"] - 1e-6:
            bad.append(("timeout-early", "%s ran at %.6f, deadline %.6f" % (n, t, sched[n]["deadline"])))
    for (a, ta), (b, tb) in zip(tos, tos[1:]):
        if sched[a]["eff"] > sched[b]["eff"] + 1e-6:
            bad.append(("timeout-order", "%s (deadline %.3f) ran before %s (deadline %.3f)" % (a, sched[a]["eff"], b, sched[b]["eff"])))
    for name, info in sched.items():
        if info["kind"] == "addfut" and name in names and (name + "#returned") in names:
            if names.index(name) < names.index(name + "#returned"):
                bad.append(("add_future-callback-inline", "%s ran before the completing call returned" % name))
    nraise = sum(1 for n in names if n.split(":")[-1] in ("cb_raise", "cb_failfut", "to_raise", "cb_raise_bad", "cb_failcf"))
    if len(o["errlogs"]) != nraise:
        bad.append(("error-logging", "%d raising callbacks ran, %d ERROR records: %r" % (nraise, len(o["errlogs"]), o["errlogs"][:2])))
    if o["escaped"]:
        bad.append(("exception-escaped-to-loop", repr(o["escaped"][:2])))
    return bad


# ------------------------------------------------------------------ (b) run_sync
def run_sync_case(kind, timeout):
    from asyncio import events
    from tornado import gen
    with World() as w:
        io = w.ioloop
        marks = []

        async def returns():
            return 42

        async def raises():
            raise Boom("x")

        async def sleeps():
            await gen.sleep(1.0)
            return "slept"

        async def never():
            marks.append("started")
            try:
                await asyncio.Future()
            finally:
                marks.append("cancelled-or-finished")

        def busy_then_done():
            # returns a plain Future completed by a timer at 0.25 s; the loop is busy past that and past the
            # run_sync timeout: when it gets back to its timers the Future is completed first (earlier deadline),
            # so its result counts and nothing is cancelled
            def burn():
                w.loop.vtime += 3.0
            f = asyncio.Future()
            io.add_callback(burn)
            io.call_later(0.25, f.set_result, "done-first")
            return f

        def uncancellable():
            # a future that refuses cancellation and never finishes: run_sync still gives up at its deadline
            class Stubborn(asyncio.Future):
                def cancel(self, msg=None):
                    return False
            return Stubborn()

        def plain():
            marks.append("plain-ran")     # run_sync requires an awaitable or None
            return None

        def plain_raises():
            raise Boom("y")

        @gen.coroutine
        def gen_style():
            yield gen.sleep(0.25)
            raise gen.Return("gen")
        fn = {"returns": returns, "raises": raises, "sleeps": sleeps, "never": never, "plain": plain, "busy_then_done": busy_then_done,
              "plain_raises": plain_raises, "gen_style": gen_style, "uncancellable": uncancellable}[kind]
        events._set_running_loop(None)
        again = None
        try:
            try:
                r = ("ok", io.run_sync(fn, timeout=timeout))
            except Livelock as e:
                r = ("deadlock", str(e)[:40])
            except BaseException as e:
                r = ("exc", type(e).__name__)
            vt1 = w.loop.vtime
            if r[0] != "deadlock":
                # the loop is used again: a second run_sync must not be ended by anything the first one left queued
                try:
                    again = ("ok", io.run_sync(sleeps))
                except Livelock as e:
                    again = ("deadlock", str(e)[:40])
                except BaseException as e:
                    again = ("exc", type(e).__name__, str(e)[:60])
        finally:
            events._set_running_loop(w.loop)
        w.pump()
        return {"res": r, "marks": marks, "vtime": vt1, "again": again,
                "escaped": [str(c.get("message"))[:80] for c in w.loop_errors()]}


def run_sync_after_stopped(timeout):
    """run_sync(timeout=T) that ends early because the loop was stopped, then a second run_sync on the same loop that
    takes longer than T: it must return its result."""
    from asyncio import events
    from tornado import gen
    with World() as w:
        io = w.ioloop

        async def stopper():
            io.add_callback(io.stop)
            await asyncio.Future()

        async def sleeper():
            await gen.sleep(3 * timeout)
            return "slept"
        events._set_running_loop(None)
        res = []
        try:
            for fn, kw in ((stopper, {"timeout": timeout}), (sleeper, {})):
                try:
                    res.append(("ok", io.run_sync(fn, **kw)))
                except Livelock as e:
                    res.append(("deadlock", str(e)[:40]))
                except BaseException as e:
                    res.append(("exc", type(e).__name__))
        finally:
            events._set_running_loop(w.loop)
        w.pump()
        return {"res": res, "vtime": w.loop.vtime}


def judge_sync(kind, timeout, o):
    want = {"returns": ("ok", 42), "raises": ("exc", "Boom"), "sleeps": ("ok", "slept"), "plain": ("ok", None),
            "busy_then_done": ("ok", "done-first"),
            "plain_raises": ("exc", "Boom"), "gen_style": ("ok", "gen")}.get(kind)
    bad = []
    if kind == "uncancellable":
        if o["res"] != ("exc", "TimeoutError"):
            bad.append(("run_sync-timeout:%s" % (o["res"],), "a function whose future refuses cancel(): expected TimeoutError at the "
                        "deadline, got %r" % (o["res"],)))
        elif abs(o["vtime"] - timeout) > 1e-3:
            bad.append(("run_sync-timeout-time", "timed out at virtual time %r" % o["vtime"]))
    elif kind == "never":
        if timeout is None:
            if o["res"][0] != "deadlock":
                bad.append(("run_sync-never-returned-%s" % o["res"][0], repr(o["res"])))
        else:
            if o["res"] != ("exc", "TimeoutError"):
                bad.append(("run_sync-timeout:%s" % (o["res"],), "expected TimeoutError, got %r" % (o["res"],)))
            # (with a zero timeout the function may be cancelled before its body ever started)
            if o["marks"] not in (["started", "cancelled-or-finished"], [] if not timeout else None):
                bad.append(("run_sync-timeout-not-cancelled", "the function was not cancelled after the timeout"))
            if abs(o["vtime"] - timeout) > 1e-3:
                bad.append(("run_sync-timeout-time", "timed out at virtual time %r" % o["vtime"]))
    elif kind == "sleeps" and timeout is not None and timeout < 1.0:
        if o["res"] != ("exc", "TimeoutError"):
            bad.append(("run_sync-timeout:%s" % (o["res"],), "expected TimeoutError, got %r" % (o["res"],)))
    elif o["res"] != want and not (timeout == 0 and timeout is not None and o["res"] == ("exc", "TimeoutError")):
        # (with a zero timeout the deadline and the function's completion fall into the same loop iteration: a tie)
        bad.append(("run_sync-result", "%s -> %r, expected %r" % (kind, o["res"], want)))
    if o.get("again") not in (None, ("ok", "slept")):
        bad.append(("second-run_sync-on-the-same-loop", "after run_sync(%s, timeout=%r) -> %r a second run_sync(sleep 1 s) on the "
                    "same loop gave %r, expected ('ok', 'slept')" % (kind, timeout, o["res"], o["again"])))
    if o["escaped"]:
        bad.append(("run_sync-exception-escaped", repr(o["escaped"][:1])))
    return bad


class C38(Check):
    id = "C38"
    level = "model_checking"
    rule = ("(a) all programs of <= L scheduling calls over 33 operations {add_callback, spawn_callback, raising callback, "
            "callback returning a failing future, callback scheduling a callback and a timeout, add_timeout absolute / "
            "timedelta, call_later, call_at with delays 0.25/0.5/1.0, timedelta of 1 day + 0.5 s and of -1 s, the loop being busy for 0.6 s, absolute deadlines 0.3 / 0.5 s after the "
            "program start (possibly already past), add_future on a done concurrent.futures.Future, a raising timeout, remove_timeout of the 1st/2nd "
            "timeout immediately / from a callback / from a timeout, add_future on a done and on a pending future} on the "
            "real IOLoop with a virtual clock, timers fired in order; (b) run_sync x {async returns, raises, sleeps, never "
            "finishes, plain function returns / raises, gen.coroutine} x timeout {None, 0.5, 2, and 0 for functions that need another loop iteration}; programs of <= 2 calls again on a loop whose time() is its own clock; (c) 2 foreign threads x 2 "
            "add_callback each (thread 0 optionally inside another running event loop) against the loop thread, all interleavings up to a preemption bound under a controlled "
            "scheduler (mc.tsched); state = one program / schedule; non-trivial = programs with a timeout, removal, "
            "raising callback or add_future")
    claim = ("Each scheduled function runs exactly once (never after its removal), callbacks in scheduling order, timeouts "
             "not before their deadline and in deadline order, exceptions are logged once each and never reach the asyncio "
             "loop, add_future callbacks never run inline; run_sync returns / re-raises / raises TimeoutError at the "
             "deadline and cancels the function; callbacks added from other threads each run once, in per-thread order, on "
             "the loop thread, and the loop is always woken.")
    technique = "exhaustive enumeration of scheduling programs on the real IOLoop with a virtual clock + preemption-bounded thread schedule exploration"
    assumptions = ["ties between equal deadlines and between a zero-delay timeout and a callback are not ordered by the statement",
                   "a timeout added when its deadline has already passed is ordered as if its deadline were the time of adding"]

    def partitions(self, tier):
        L = 3 if tier == "quick" else 4
        parts = [("prog", L, i, 32) for i in range(32)] + [("sync",)]
        try:
            from mc import tsched   # noqa: F401
            parts += [("threads", b, fl) for b in ((0, 1, 2) if tier == "quick" else (0, 1, 2, 3)) for fl in (False, True)]
        except ImportError:
            pass
        return parts

    def run_partition(self, part, tier, st):
        if part[0] == "prog":
            _, L, s, nsl = part
            k = 0
            for n in range(1, L + 1):
                for prog in itertools.product(OPS, repeat=n):
                    k += 1
                    if k % nsl != s:
                        continue
                    if n == 4 and sum(1 for op in prog if op[0] in ("to_abs", "to_delta", "at")) > 1:
                        continue      # thorough: keep the 4-op space tractable (later == call_at == add_timeout path)
                    o = run_program(prog)
                    st.ev()
                    st.transitions += n + len(o["log"])
                    key = h(prog)
                    st.states.add(key)
                    if any(op[0] not in ("cb", "spawn") for op in prog):
                        st.nontrivial.add(key)
                    st.outcome(h(tuple(nm for nm, _ in o["log"])))
                    if len(st.samples) < 2 and n == 3 and any(op[0] == "to_rm" for op in prog):
                        st.sample({"program": [list(op) for op in prog], "log": o["log"]})
                    for sig, msg in judge_program(prog, o):
                        st.violation("prog:" + sig, "program %r: %s" % (prog, msg), {"kind": "prog", "prog": [list(op) for op in prog]})
                    if n <= 2 and any(op[0] in ("to_abs", "to_delta", "later", "at", "to_raise", "to_rm", "cb_nested") for op in prog):
                        o2 = run_program(prog, shifted=True)
                        st.ev()
                        st.states.add(h((prog, "shifted")))
                        st.nontrivial.add(h((prog, "shifted")))
                        for sig, msg in judge_program(prog, o2):
                            st.violation("prog:own-clock:" + sig, "loop with its own time(), program %r: %s" % (prog, msg),
                                         {"kind": "prog", "prog": [list(op) for op in prog], "shifted": True})
            st.setmax("max_program_length", L)
        elif part[0] == "sync":
            for kind in ("returns", "raises", "sleeps", "never", "plain", "plain_raises", "gen_style", "busy_then_done", "uncancellable"):
                for timeout in ((None, 0.5, 2, 0, 0.0) if kind != "uncancellable" else (0.5, 2)):
                    o = run_sync_case(kind, timeout)
                    st.ev()
                    st.transitions += 1
                    st.states.add(h(("sync", kind, timeout)))
                    st.nontrivial.add(h(("sync", kind, timeout)))
                    st.outcome(h(o["res"]))
                    for sig, msg in judge_sync(kind, timeout, o):
                        st.violation("sync:" + sig, "run_sync(%s, timeout=%r): %s" % (kind, timeout, msg),
                                     {"kind": "sync", "fn": kind, "timeout": timeout})
            for timeout in (0.5, 2):
                o = run_sync_after_stopped(timeout)
                st.ev()
                st.states.add(h(("sync2", timeout)))
                st.nontrivial.add(h(("sync2", timeout)))
                if o["res"] != [("exc", "RuntimeError"), ("ok", "slept")]:
                    st.violation("sync:second-run_sync-after-a-stopped-one", "run_sync(timeout=%r) stopped early, then "
                                 "run_sync(sleep %r): %r, expected [RuntimeError, 'slept']" % (timeout, 3 * timeout, o["res"]),
                                 {"kind": "sync2", "timeout": timeout})
        else:
            from checks import c38_threads
            c38_threads.run_bound(part[1], st, floop=part[2])

    def replay(self, case):
        if case["kind"] == "prog":
            prog = tuple(tuple(op) for op in case["prog"])
            o = run_program(prog, shifted=case.get("shifted", False))
            return "program %r\nlog %r\nerrlogs %r\nverdict %r" % (prog, o["log"], o["errlogs"], judge_program(prog, o))
        if case["kind"] == "sync2":
            return repr(run_sync_after_stopped(case["timeout"]))
        if case["kind"] == "sync":
            o = run_sync_case(case["fn"], case["timeout"])
            return "%r\nverdict %r" % (o, judge_sync(case["fn"], case["timeout"], o))
        from checks import c38_threads
        return c38_threads.replay(case)


CHECK = C38()
