"""C10 TCP connection racing resolves exactly once and leaks no sockets.
Shape S: for every address list over two families (<= 4 entries), every mode
per address (pending / already-failed future / connect raises) and every order
of attempt completions, failures and timer firings (exhaustive DevEx) on the
real tornado.tcpclient._Connector with a fake per-address connect."""
import itertools
import socket

from mc.core import Check, h
from mc import devex
from mc.vloop import World

AF = {4: socket.AF_INET, 6: socket.AF_INET6}


class FakeStream:
    def __init__(self, idx, fut):
        self.idx = idx
        self.fut = fut
        self.closed = False
        self.close_calls = 0

    def close(self):
        from tornado.iostream import StreamClosedError
        self.close_calls += 1
        self.closed = True
        if self.fut is not None and not self.fut.done():
            self.fut.set_exception(StreamClosedError())


def run(ch, fams, modes, ctimeout, alias=None):
    import asyncio
    from tornado.tcpclient import _Connector
    alias = tuple(alias) if alias else tuple(range(len(fams)))
    with World() as w:
        # alias[i] < i: entry i of the resolved list repeats the address of entry alias[i] (duplicate records)
        addrinfo = [(AF[f], ("addr%d" % alias[i], 80)) for i, f in enumerate(fams)]
        streams = {}
        trace = []
        inflight = {}
        max_inflight = {4: 0, 6: 0}

        def connect(af, addr):
            a = int(addr[0][4:])
            fresh = [j for j in range(len(fams)) if alias[j] == a and ("start", j) not in trace]
            i = fresh[0] if fresh else a
            if ("start", i) in trace:
                # an address is attempted at most once; answering with a pending stream also ends any runaway retry
                trace.append(("retried", i))
                s2 = FakeStream(i, asyncio.Future())
                streams[(i, len(trace))] = s2
                return s2, s2.fut
            trace.append(("start", i))
            if modes[i] == "raises":
                raise OSError(97, "Address family not supported (addr %d)" % i)
            if modes[i] == "raises-other":
                raise OverflowError("bind(): port must be 0-65535. (addr %d)" % i)
            fut = asyncio.Future()
            s = FakeStream(i, fut)
            streams[i] = s
            if modes[i] == "prefailed":
                fut.set_exception(OSError(111, "refused %d" % i))
            else:
                inflight[i] = s
                fam = fams[i]
                n = sum(1 for j, st_ in inflight.items() if fams[j] == fam and not st_.fut.done())
                max_inflight[fam] = max(max_inflight[fam], n)
            return s, fut

        c = _Connector(addrinfo, connect)
        settled = []
        start_exc = None
        try:
            fut = c.start(connect_timeout=(w.ioloop.time() + 5.0) if ctimeout else None)
        except Exception as e:
            start_exc = e
            fut = c.future
        fut.add_done_callback(lambda f: settled.append(len(trace)))
        w.pump()
        steps = 0
        while True:
            steps += 1
            if steps > 40:
                trace.append(("horizon",))
                break
            if ctimeout and not fut.done() and start_exc is None:
                whens = [round(t[0], 6) for t in w.loop.timers()]
                if 5.0 not in whens:
                    trace.append(("timeout-not-armed", whens))
                    break
            pend = sorted(i for i, s in inflight.items() if not s.fut.done())
            events = []
            for i in pend:
                events.append(("succeed", i))
                events.append(("fail", i))
            if w.loop.next_timer() is not None:
                events.append(("timer",))
            if not events:
                break
            ev = events[ch.choose(len(events), "event")]
            trace.append(ev + ((round(w.loop.next_timer(), 3),) if ev[0] == "timer" else ()))
            if ev[0] == "succeed":
                inflight[ev[1]].fut.set_result(inflight[ev[1]])
            elif ev[0] == "fail":
                inflight[ev[1]].fut.set_exception(OSError(111, "refused %d" % ev[1]))
            else:
                w.fire_timer()
            w.pump()
        for s in streams.values():       # retrieve exceptions
            if s.fut.done() and not s.fut.cancelled():
                s.fut.exception()
        if fut.done():
            if fut.exception() is not None:
                res = ("exc", type(fut.exception()).__name__, str(fut.exception()))
            else:
                r = fut.result()
                res = ("ok", r[2].idx, r[0] == AF[fams[r[2].idx]], r[1] == addrinfo[r[2].idx][1])
        else:
            res = ("pending",)
        return {"trace": trace, "res": res, "settled": len(settled), "start_exc": start_exc,
                "closed": {i: s.closed for i, s in streams.items()}, "max_inflight": max_inflight,
                "loop_errors": [str(x.get("message"))[:100] for x in w.loop_errors()],
                "timers_left": len(w.loop.timers())}


def judge(fams, modes, ctimeout, o):
    bad = []
    n = len(fams)
    failed = set()
    want = None
    for ev in o["trace"]:
        if ev[0] == "start":
            i = ev[1]
            if modes[i] in ("prefailed", "raises", "raises-other"):
                failed.add(i)
        elif ev[0] == "succeed":
            if want is None:
                want = ("ok", ev[1])
        elif ev[0] == "fail":
            failed.add(ev[1])
        elif ev[0] == "timer" and ev[1] >= 5.0 - 1e-6 and ctimeout:
            if want is None:
                want = ("timeout",)
        elif ev[0] == "horizon":
            bad.append(("horizon", "no quiescence"))
        elif ev[0] == "retried":
            bad.append(("address-attempted-twice", "address %d was attempted a second time (trace %r)" % (ev[1], o["trace"])))
            return bad
        elif ev[0] == "timeout-not-armed":
            bad.append(("connect-timeout-not-armed", "the future is pending but no timer is scheduled for the connect "
                        "timeout (t=5.0); timers at %r" % (ev[1],)))
            return bad
        if want is None and len(failed) == n:
            want = ("error",)
    res = o["res"]
    if o["start_exc"] is not None and len(failed) < n:
        bad.append(("start-raised-before-all-failed",
                    "start() raised %r although only %d of %d addresses had failed" % (o["start_exc"], len(failed), n)))
    elif o["start_exc"] is not None and res[0] == "pending":
        res = ("exc", type(o["start_exc"]).__name__, "")
    if o["settled"] > 1:
        bad.append(("settled-%d-times" % o["settled"], "future settled %d times" % o["settled"]))
    if want is None:
        if res[0] != "pending":
            bad.append(("settled-early:" + res[0], "future is %r but no success, not all failed, no timeout" % (res,)))
        else:
            bad.append(("stuck", "quiescent with the future pending (failed %r of %d)" % (sorted(failed), n)))
    elif want[0] == "ok":
        if res[0] != "ok" or res[1] != want[1]:
            bad.append(("wrong-winner:" + res[0], "first success was %d, future is %r" % (want[1], res)))
        elif not (res[2] and res[3]):
            bad.append(("winner-af-addr", "result family/address do not belong to the winning stream"))
    elif want[0] == "timeout":
        if res[0] != "exc" or res[1] != "TimeoutError":
            bad.append(("timeout:" + res[0], "connect timeout fired first but future is %r" % (res,)))
    else:
        if res[0] != "exc":
            bad.append(("all-failed:" + res[0], "every address failed but future is %r" % (res,)))
        elif res[1] == "TimeoutError":
            bad.append(("all-failed:timeout", "every address failed before the timeout but future is TimeoutError"))
    if o["start_exc"] is None or True:
        for i, closed in o["closed"].items():
            winner = res[0] == "ok" and res[1] == i
            if winner and closed:
                bad.append(("winner-closed", "the returned stream %d was closed" % i))
            if not winner and not closed and modes[i] == "pending" and ("succeed", i) in o["trace"]:
                bad.append(("leak:late-success", "stream %d connected later and was never closed" % i))
            elif not winner and not closed and modes[i] == "pending" and ("fail", i) not in o["trace"]:
                bad.append(("leak:in-flight", "stream %d still open at quiescence" % i))
    for fam, k in o["max_inflight"].items():
        if k > 1:
            bad.append(("two-in-flight", "%d attempts of family %d in flight at once" % (k, fam)))
    if o["loop_errors"]:
        bad.append(("callback-raised", "loop exception handler: %r" % o["loop_errors"][:2]))
    return bad


def scenarios(maxlen, with_raises):
    ms = ("pending", "prefailed") + (("raises", "raises-other") if with_raises else ())
    for n in range(1, maxlen + 1):
        for fams in itertools.product((4, 6), repeat=n):
            for modes in itertools.product(ms, repeat=n):
                if sum(m != "pending" for m in modes) > 2:
                    continue
                for ct in (False, True):
                    yield fams, modes, ct, None
    # the resolved list repeats an address
    for n in range(2, min(maxlen, 4) + 1):
        for fams in itertools.product((4, 6), repeat=n):
            for alias in itertools.product(*[range(i + 1) for i in range(n)]):
                if all(alias[i] == i for i in range(n)):
                    continue
                if any(alias[alias[i]] != alias[i] or fams[alias[i]] != fams[i] for i in range(n)):
                    continue
                for modes in itertools.product(("pending", "prefailed"), repeat=n):
                    if sum(m != "pending" for m in modes) > 2:
                        continue
                    for ct in (False, True):
                        yield fams, modes, ct, alias


class _ScenarioViolated(Exception):
    pass


class C10(Check):
    id = "C10"
    level = "model_checking"
    rule = ("every address list in {4,6}^{1..N} x per-address mode {pending, already-failed future, connect "
            "raises OSError, connect raises another exception} (at most two non-pending), plus lists of <= 4 entries in which "
            "an entry repeats an earlier address, x connect timeout on/off; at each quiescent point the explorer "
            "picks one enabled event {attempt i succeeds, attempt i fails, earliest timer fires}; exhaustive "
            "(no deviation bound); (b) the public TCPClient.connect() with a fake resolver and fake sockets under the real "
            "IOStream: address lists in {4,6}^{1..2} (thorough 3) x timeout {none, 5.0, timedelta 1.5 s, timedelta 1 day "
            "+ 5 s} x source_ip with every subset of addresses whose bind fails, same events; state = one complete schedule; non-trivial = schedules with >= 2 events")
    claim = ("On every schedule the real _Connector settles its future exactly once with the first success in "
             "event order, or TimeoutError if the connect timeout fired first, or an error only after every "
             "address failed; never earlier, never stuck; every other opened stream is closed at quiescence; "
             "at most one attempt per family is in flight; while the future is pending the connect timeout stays armed "
             "at exactly now + timeout (float and timedelta), and every socket TCPClient created - including those "
             "whose bind failed - is closed unless it is the winner.")
    technique = "exhaustive stateless schedule exploration (DevEx, unbounded) of the real code with a trace-based reference"
    assumptions = ["fake streams fail their pending connect future on close(), like IOStream"]

    def partitions(self, tier):
        N = 3 if tier == "quick" else 6
        sc = list(scenarios(N, True))
        return [(N, s, 48) for s in range(48)] + [("client", s, 8) for s in range(8)]

    def run_partition(self, part, tier, st):
        if part[0] == "client":
            from checks import c10_client
            c10_client.run_all(tier, st, part[1], part[2])
            return
        N, s, nsl = part
        for k, (fams, modes, ct, alias) in enumerate(scenarios(N, True)):
            if k % nsl != s:
                continue

            def on_exec(ch, o, fams=fams, modes=modes, ct=ct, alias=alias):
                st.ev()
                st.transitions += len(ch.trace)
                key = h((fams, modes, ct, alias, tuple(ch.choices())))
                st.states.add(key)
                if len(ch.trace) >= 2:
                    st.nontrivial.add(key)
                st.outcome(h((o["res"][:2], tuple(sorted(o["closed"].items(), key=repr)))))
                bad = judge(fams, modes, ct, o)
                if bad:
                    nbad[0] += 1
                for sig, msg in bad:
                    st.violation(sig + (":raises" if "raises" in modes else ":raises-other" if "raises-other" in modes else "")
                                 + (":duplicate-address" if alias else ""),
                                 "addresses %r%s modes %r connect_timeout=%r schedule %r: %s"
                                 % (fams, " (entry i repeats entry %r)" % (alias,) if alias else "", modes, ct, o["trace"], msg),
                                 {"fams": fams, "modes": modes, "ct": ct, "alias": alias, "choices": ch.choices()})
                if nbad[0] >= 25:
                    # the scenario is already violated (the check exits 1): no need to enumerate the rest of a
                    # schedule tree that a broken connector may have made much larger
                    raise _ScenarioViolated()
            nbad = [0]
            try:
                n, edges, capped = devex.explore(lambda ch: run(ch, fams, modes, ct, alias), bound=None, on_exec=on_exec,
                                                 max_execs=200000)
            except _ScenarioViolated:
                n, capped = 0, False
                st.note("scenario_stopped_after_25_violating_schedules")
            if capped:
                st.note("cap_hit")
            if len(st.samples) < 2 and len(fams) == 3:
                st.sample({"families": fams, "modes": modes, "connect_timeout": ct, "schedules": n})
        st.setmax("max_addresses", N)

    def replay(self, case):
        if case.get("kind") in ("client", "client2"):
            from checks import c10_client
            return c10_client.replay(case)
        fams, modes, ct = tuple(case["fams"]), tuple(case["modes"]), case["ct"]
        o = run(devex.Chooser(case["choices"]), fams, modes, ct, case.get("alias"))
        return "families %r modes %r connect_timeout %r\n%r\nverdict %r" % (fams, modes, ct, o, judge(fams, modes, ct, o))


CHECK = C10()
