"""C13 Closing an IOStream settles every pending operation exactly once.
Shape S (crash points): full product of {connecting?, pre-buffered data,
pending read kind, number of blocked writes, data arriving before / together
with the close cause, close cause, read issued after the close} on the real
IOStream over a FakeSocket."""
import errno
import itertools
import re

from mc.core import Check, h
from mc.vloop import World

RX = re.compile(rb"\r?\n")
READS = [None, ("rb", 5, False), ("rb", 4, True), ("ri", 5, False), ("ri", 4, True), ("ru", b"\n"),
         ("rur",), ("ruc",), ("rur_mb", 2), ("ru_mb", 2)]
LATER = [("rb", 2, False), ("rb", 3, True), ("ri", 2, False), ("ru", b"\n"), ("rur",), ("ruc",), ("rb", 50, False),
         ("ri", 50, False), ("ru_mb", 2), ("rur_mb", 2)]
CAUSES_CONNECTED = ["close", "close_exc", "close_bexc", "eof", "reset_read", "eio_read", "epipe_write", "eio_write", "flush_then_epipe"]
CAUSES_CONNECTING = ["close", "close_exc", "close_bexc", "so_error"]
DATA = [b"", b"x", b"xy\nzzzzzz", b"xxxxa\n\n"]     # the last one is used with read_chunk_size=4
MODES = ["none", "separate", "together"]


class Boom(Exception):
    pass


def satisfy(kind, avail, at_close=False):
    """bytes consumed if `avail` satisfies the read, else None."""
    if kind[0] in ("rb", "ri"):
        n, partial = kind[1], kind[2]
        if partial:
            return min(n, len(avail)) if avail else None
        return n if len(avail) >= n else None
    if kind[0] in ("rur_mb", "ru_mb"):
        # delimiter read with max_bytes: satisfied only if the match ends within max_bytes
        m = RX.search(avail) if kind[0] == "rur_mb" else re.search(b"\n", avail)
        return m.end() if m and m.end() <= kind[1] else None
    if kind[0] == "ru":
        i = avail.find(kind[1])
        return i + len(kind[1]) if i >= 0 else None
    if kind[0] == "rur":
        m = RX.search(avail)
        return m.end() if m else None
    if kind[0] == "ruc":
        return len(avail) if at_close else None


def issue(s, kind):
    if kind[0] == "rb":
        return s.read_bytes(kind[1], partial=kind[2]), None
    if kind[0] == "ri":
        buf = bytearray(kind[1])
        return s.read_into(buf, partial=kind[2]), buf
    if kind[0] == "rur_mb":
        return s.read_until_regex(RX.pattern, max_bytes=kind[1]), None
    if kind[0] == "ru_mb":
        return s.read_until(b"\n", max_bytes=kind[1]), None
    if kind[0] == "ru":
        return s.read_until(kind[1]), None
    if kind[0] == "rur":
        return s.read_until_regex(RX.pattern), None
    return s.read_until_close(), None


def run(case):
    from tornado.iostream import IOStream, StreamClosedError
    connecting, pre, ri, nwrites, di, mode, cause, li = case[:8]
    cancel = case[8] if len(case) > 8 else None
    rkind = READS[ri]
    data = DATA[di]
    obs = {"futs": {}, "cb": 0, "cb_all_done": None, "later": None, "write_after": None, "counts": {}}
    with World() as w:
        sock = w.socket(connected=not connecting)
        s = IOStream(sock, read_chunk_size=4) if di == 3 else IOStream(sock)
        tracked = {}

        def track(name, f):
            tracked[name] = f
            obs["counts"][name] = 0
            f.add_done_callback(lambda fut: obs["counts"].__setitem__(name, obs["counts"][name] + 1))

        def on_close():
            obs["cb"] += 1
            obs["cb_all_done"] = all(f.done() for f in tracked.values())
        s.set_close_callback(on_close)
        buffered = b""
        if connecting:
            track("connect", s.connect(("1.2.3.4", 80)))
        elif pre:
            sock.feed(b"ab\ncd")
            f0 = s.read_bytes(1)
            w.pump()
            assert f0.result() == b"a"
            buffered = b"b\ncd"
        rbuf = None
        read_done_early = None
        if rkind is not None:
            f, rbuf = issue(s, rkind)
            track("read", f)
            w.pump()
        for i in range(nwrites):
            if cancel == "typed-partial" and i == 0:
                # a memoryview of 4-byte items (5 items, 20 bytes) of which the socket takes 6 bytes before it blocks:
                # more than the item count, fewer than the byte count - the write is still owed 14 bytes at the close
                import array
                sock.send_script.extend([6, "EAGAIN"])
                track("write0", s.write(memoryview(array.array("I", [0x30773077] * 5))))
                continue
            if cancel == "empty-write" and i == 0:
                # an empty write queued while the connect is pending: it completes (or fails) with the connect
                track("write0", s.write(b""))
                continue
            sock.blocked = True
            track("write%d" % i, s.write(b"w%d" % i * 10))
        w.pump()
        if cancel is not None and cancel in tracked and not tracked[cancel].done():
            # the caller gave up on this operation (e.g. asyncio.wait_for timed out); everything else still settles
            tracked[cancel].cancel()
            obs["cancelled"] = cancel
            w.pump()
        # data before / with the cause
        if mode == "separate" and data:
            sock.feed(data)
            w.pump()
        exc = None
        if cause == "close":
            if mode == "together" and data:
                sock.feed(data)
            s.close()
        elif cause == "close_exc":
            if mode == "together" and data:
                sock.feed(data)
            exc = Boom("b")
            s.close(exc_info=exc)
        elif cause == "close_bexc":
            # the error object is a BaseException that is no Exception (a CancelledError kept from a cancellation and
            # passed on during shutdown), given outside any except block
            if mode == "together" and data:
                sock.feed(data)
            import asyncio
            exc = asyncio.CancelledError("shutdown")
            s.close(exc_info=exc)
        elif cause == "eof":
            if mode == "together" and data:
                sock.feed(data)
            sock.feed_eof()
        elif cause in ("reset_read", "eio_read"):
            if mode == "together" and data:
                sock.feed(data)
            exc = OSError(errno.ECONNRESET if cause == "reset_read" else errno.EIO, cause)
            sock.feed_error(exc)
        elif cause in ("epipe_write", "eio_write"):
            exc = OSError(errno.EPIPE if cause == "epipe_write" else errno.EIO, cause)
            sock.send_script.append(exc)
            sock.unblock()
        elif cause == "flush_then_epipe":
            # one send() takes exactly the first queued write, the next send() of the same pass fails
            exc = OSError(errno.EPIPE, cause)
            sock.send_script.append(20)
            sock.send_script.append(exc)
            sock.unblock()
        elif cause == "so_error":
            sock.connect_state = errno.ECONNREFUSED
        w.pump()
        obs["closed_after_cause"] = s.closed()
        obs["pulled"] = bytes(sock.recv_log)
        if not s.closed():
            # the cause was not observable by the stream (e.g. EOF with nobody reading, write error with
            # nothing to write): the application now closes it.
            obs["needed_explicit_close"] = True
            s.close()
            w.pump()
            obs["pulled"] = bytes(sock.recv_log)
        for name, f in tracked.items():
            if not f.done():
                obs["futs"][name] = ("pending",)
            elif f.cancelled():
                obs["futs"][name] = ("cancelled",)
            elif f.exception() is not None:
                e = f.exception()
                obs["futs"][name] = ("fail", type(e).__name__, getattr(e, "real_error", "n/a"))
            else:
                r = f.result()
                if name == "read" and rbuf is not None:
                    r = (r, bytes(rbuf))
                elif name == "connect":
                    r = "stream"
                obs["futs"][name] = ("ok", r)
        # after the close
        try:
            s.write(b"")
            obs["write_after_empty"] = "accepted"
        except StreamClosedError:
            obs["write_after_empty"] = "StreamClosedError"
        except Exception as e:
            obs["write_after_empty"] = type(e).__name__
        try:
            s.write(b"late")
            obs["write_after"] = "accepted"
        except StreamClosedError:
            obs["write_after"] = "StreamClosedError"
        except Exception as e:
            obs["write_after"] = type(e).__name__
        lk = LATER[li]
        try:
            lf, lbuf = issue(s, lk)
            w.pump()
            if not lf.done():
                obs["later"] = ("pending",)
            elif lf.exception() is not None:
                obs["later"] = ("fail", type(lf.exception()).__name__)
            else:
                r = lf.result()
                obs["later"] = ("ok", (r, bytes(lbuf)) if lbuf is not None else r)
        except StreamClosedError:
            obs["later"] = ("fail", "StreamClosedError")
        except Exception as e:
            obs["later"] = ("raise", type(e).__name__, str(e)[:50])
        s.close()
        w.pump()
        w.run_all_timers(5)
        obs["errlogs"] = [r for r in w.logs.records if r[1] in ("ERROR", "CRITICAL")]
        obs["exc"] = exc
        obs["buffered"] = buffered
        obs["sock_closed"] = sock.closed
        obs["loop_errors"] = [str(c.get("message"))[:80] for c in w.loop_errors()]
        return obs


def judge(case, obs):
    connecting, pre, ri, nwrites, di, mode, cause, li = case[:8]
    cancel = obs.get("cancelled")        # None when the operation had already completed
    rkind = READS[ri]
    bad = []
    exc = obs["exc"]
    pulled = obs["pulled"]          # every byte the stream took from the socket before it closed
    consumed = 1 if pre else 0      # the set-up read_bytes(1)
    any_oserror = cause == "so_error"

    def err_ok(real):
        if obs.get("needed_explicit_close"):
            return True
        if rkind is not None and rkind[0].endswith("_mb") and type(real).__name__ == "UnsatisfiableReadError":
            return True         # the stream closed itself first: the max_bytes read could not be satisfied
        if any_oserror:
            return isinstance(real, OSError)
        return real is exc
    if cancel is not None and obs["futs"].get(cancel, ("cancelled",))[0] != "cancelled":
        bad.append(("cancelled-future-changed", "%s was cancelled by the caller and is now %r" % (cancel, obs["futs"][cancel])))
    if rkind is not None and cancel != "read":
        avail = pulled[consumed:]
        got = obs["futs"].get("read")
        n = satisfy(rkind, avail, at_close=True)
        if n is not None:
            if got[0] != "ok":
                bad.append(("read:%s:satisfiable-but-%s" % (rkind[0], got[0]),
                            "pending %r could be satisfied by buffered %r but got %r" % (rkind, avail, got)))
            else:
                val = got[1]
                if rkind[0] == "ri":
                    k = val[0] if isinstance(val[0], int) else -1
                    data_ok = k >= 0 and val[1][:k] == avail[:k]
                else:
                    k = len(val) if isinstance(val, bytes) else -1
                    data_ok = k >= 0 and val == avail[:k]
                if rkind[0] in ("rb", "ri") and rkind[2]:
                    len_ok = 1 <= k <= rkind[1]
                elif rkind[0] == "ruc":
                    len_ok = k == len(avail)
                else:
                    len_ok = k == n
                if not (data_ok and len_ok):
                    bad.append(("read:%s:wrong-data" % rkind[0], "pending %r returned %r, buffered %r"
                                % (rkind, val, avail)))
                consumed += max(k, 0)
        else:
            if got[0] != "fail" or got[1] != "StreamClosedError":
                bad.append(("read:%s:unsatisfiable-but-%s" % (rkind[0], got[0]),
                            "pending %r with only %r buffered: %r" % (rkind, avail, got)))
            elif not err_ok(got[2]):
                bad.append(("read:real_error", "real_error %r, cause %r" % (got[2], exc)))
    for name, got in obs["futs"].items():
        base = name.rstrip("01")
        if name == cancel and got[0] == "cancelled":
            if obs["counts"][name] != 1:
                bad.append(("%s:done-callbacks-%d" % (base, obs["counts"][name]), "cancelled %s future completed %d times" % (name, obs["counts"][name])))
            continue
        if obs["counts"][name] != 1:
            bad.append(("%s:done-callbacks-%d" % (base, obs["counts"][name]),
                        "%s future completed %d times (%r)" % (name, obs["counts"][name], got)))
        if name == "write0" and cause == "flush_then_epipe" and got[0] == "ok":
            continue        # its bytes were taken by the transport before the error: success is as good as StreamClosedError
        if base in ("write", "connect"):
            if got[0] != "fail" or got[1] != "StreamClosedError":
                bad.append(("%s:%s-at-close" % (base, got[0]), "%s future: %r" % (name, got)))
            elif not err_ok(got[2]):
                bad.append(("%s:real_error" % base, "%s real_error %r, cause %r" % (name, got[2], exc)))
    if obs["cb"] != 1:
        bad.append(("close-callback:%d-times" % obs["cb"], "close callback ran %d times" % obs["cb"]))
    elif obs["cb_all_done"] is False:
        bad.append(("close-callback:before-futures", "close callback ran before every future was settled"))
    if obs["write_after"] != "StreamClosedError":
        bad.append(("write-after-close:" + str(obs["write_after"]), "write after close: %r" % obs["write_after"]))
    if obs.get("write_after_empty") != "StreamClosedError":
        bad.append(("empty-write-after-close:" + str(obs.get("write_after_empty")), "write(b'') after close: %r" % obs.get("write_after_empty")))
    if not obs["sock_closed"]:
        bad.append(("socket-not-closed", "fd not closed"))
    # later read: only from buffered data, and the type its own contract promises
    lk = LATER[li]
    later = obs["later"]
    left = pulled[consumed:]
    n = satisfy(lk, left, at_close=True)
    if later[0] == "raise":
        bad.append(("later:%s:raised-%s" % (lk[0], later[1]), "read %r after close raised %s %s" % (lk, later[1], later[2])))
    elif later[0] == "pending":
        bad.append(("later:%s:pending" % lk[0], "read %r after close stays pending" % (lk,)))
    elif later[0] == "ok" and cancel != "read":      # what a cancelled read consumed is not specified
        val = later[1]
        if lk[0] == "ri":
            typ_ok = isinstance(val, tuple) and isinstance(val[0], int)
            payload = val[1][:val[0]] if typ_ok else b""
        else:
            typ_ok = isinstance(val, bytes)
            payload = val if typ_ok else b""
        if not typ_ok:
            bad.append(("later:%s:wrong-type" % lk[0], "read %r after close returned %r" % (lk, val)))
        elif n is None or payload != left[:len(payload)] or (
                len(payload) != n and not (lk[0] in ("rb", "ri") and lk[2] and 1 <= len(payload) <= lk[1])):
            bad.append(("later:%s:not-from-buffer" % lk[0],
                        "read %r after close returned %r but %r was buffered" % (lk, val, left)))
    if obs["errlogs"]:
        bad.append(("error-log", "error logs %r" % (obs["errlogs"][:2],)))
    if obs["loop_errors"] and cancel is None:
        # (with a cancelled write future the done-callback installed by write() itself raises CancelledError into
        # the loop's exception handler on the unchanged tree: noise outside the statement)
        bad.append(("loop-exception", "loop exception handler: %r" % (obs["loop_errors"][:2],)))
    return bad


def run_ssl(side, cause, also_write):
    """An SSLIOStream whose handshake has not completed (the peer is silent) is closed locally: the handshake /
    connect future and a queued write must settle.  Real socketpair + ssl objects, no I/O events are needed."""
    import socket
    import ssl
    from tornado.iostream import SSLIOStream, StreamClosedError
    with World() as w:
        a, b = socket.socketpair()
        try:
            a.setblocking(False)
            ctx = ssl.SSLContext(ssl.PROTOCOL_TLS_CLIENT if side != "server" else ssl.PROTOCOL_TLS_SERVER)
            if side != "server":
                ctx.check_hostname = False
                ctx.verify_mode = ssl.CERT_NONE
            counts = {}

            def track(name, f):
                counts[name] = 0
                f.add_done_callback(lambda fut: counts.__setitem__(name, counts[name] + 1))
                return f
            cb = []
            if side == "client-connect":
                # connect() on a plain socket with server_hostname: TCP connect is immediate on a socketpair
                st_ = SSLIOStream(a, ssl_options=ctx)
                futs = {"handshake": track("handshake", st_.wait_for_handshake())}
            else:
                sa = ctx.wrap_socket(a, server_side=(side == "server"), do_handshake_on_connect=False)
                st_ = SSLIOStream(sa)
                futs = {"handshake": track("handshake", st_.wait_for_handshake())}
            st_.set_close_callback(lambda: cb.append(1))
            if also_write:
                futs["write"] = track("write", st_.write(b"queued"))
            w.pump()
            exc = None
            if cause == "close":
                st_.close()
            else:
                exc = Boom("b")
                st_.close(exc_info=exc)
            w.pump()
            out = {}
            for name, f in futs.items():
                if not f.done():
                    out[name] = ("pending",)
                elif f.cancelled():
                    out[name] = ("cancelled",)
                elif f.exception() is not None:
                    e = f.exception()
                    out[name] = ("fail", type(e).__name__, getattr(e, "real_error", "n/a") is exc, e is exc)
                else:
                    out[name] = ("ok",)
            return {"futs": out, "counts": counts, "cb": len(cb),
                    "loop_errors": [str(c.get("message"))[:80] for c in w.loop_errors()]}
        finally:
            for x in (a, b):
                try:
                    x.close()
                except OSError:
                    pass


def judge_ssl(o):
    bad = []
    for name, got in o["futs"].items():
        if name == "handshake" and got[0] == "fail" and got[3]:
            pass        # the handshake future reports the close cause itself (documented in the code: it "expects
            #             to see the real exception")
        elif got[0] != "fail" or got[1] != "StreamClosedError":
            bad.append(("ssl:%s:%s-at-close" % (name, got[0]), "%s future after close(): %r" % (name, got)))
        elif not got[2]:
            bad.append(("ssl:%s:real_error" % name, "%s future does not carry the close cause" % name))
        if o["counts"][name] != 1:
            bad.append(("ssl:%s:done-callbacks-%d" % (name, o["counts"][name]), "completed %d times" % o["counts"][name]))
    if o["cb"] != 1:
        bad.append(("ssl:close-callback:%d-times" % o["cb"], "close callback ran %d times" % o["cb"]))
    if o["loop_errors"]:
        bad.append(("ssl:loop-exception", repr(o["loop_errors"][:1])))
    return bad


def same_error(real, exc):
    if real == "n/a":
        return False
    return real is exc


def all_cases(tier="quick"):
    for connecting in (0, 1):
        causes = CAUSES_CONNECTING if connecting else CAUSES_CONNECTED
        for pre in ((0,) if connecting else (0, 1)):
            for ri in range(len(READS)):
                for nw in ((0, 1, 2) if tier == "quick" else (0, 1, 2, 3)):
                    for cause in causes:
                        for mode in MODES:
                            for di in ((0,) if mode == "none" else (1, 2, 3)):
                                if connecting and mode != "none":
                                    continue
                                if cause in ("epipe_write", "eio_write") and nw == 0:
                                    continue
                                if cause == "flush_then_epipe" and nw < 2:
                                    continue
                                for li in range(len(LATER)):
                                    yield (connecting, pre, ri, nw, di, mode, cause, li)
                                if nw and not connecting and cause in ("close", "close_exc", "eof", "reset_read", "eio_read"):
                                    yield (connecting, pre, ri, nw, di, mode, cause, 0, "typed-partial")
                                if connecting and nw:
                                    yield (connecting, pre, ri, nw, di, mode, cause, 0, "empty-write")
                                # one of the pending operations was cancelled by its caller before the close
                                for cancel in ("read", "write0", "connect"):
                                    if (cancel == "read" and ri == 0) or (cancel == "write0" and nw == 0) or \
                                            (cancel == "connect" and not connecting):
                                        continue
                                    if (ri != 0) + nw + connecting < 2:
                                        continue        # nothing else pending
                                    yield (connecting, pre, ri, nw, di, mode, cause, 0, cancel)


class C13(Check):
    id = "C13"
    level = "model_checking"
    rule = ("full product: stream connecting or connected x pre-buffered data x pending read kind (8) x 0-2 (thorough: 0-3) "
            "writes blocked by EAGAIN x close cause {close(), close(exc_info), EOF, ECONNRESET on read, EIO on "
            "read, EPIPE on write, EIO on write, SO_ERROR on connect} x data {none, partial, satisfying} "
            "arriving before or together with the cause x read issued after the close (10 kinds, incl. delimiter reads with max_bytes the buffer cannot satisfy); also: first queued write "
            "taken by the transport and the next send failing, delimiter reads with max_bytes that cannot be satisfied, "
            "an SSLIOStream (client / server side) closed locally while its handshake is pending; plus the same with one of "
            "the pending futures (read / first write / connect) cancelled by its caller before the cause; "
            "state = one execution; non-trivial = executions with >= 1 pending operation at the close")
    claim = ("For every close point in the product the real IOStream must complete every pending future exactly "
             "once (reads the buffer satisfies with their data, the rest StreamClosedError carrying the cause), "
             "run the close callback once after that, refuse later writes, and serve later reads only from "
             "buffered data with the type their contract promises.")
    technique = "exhaustive fault/crash-point enumeration on the real code with a stream-only reference"
    assumptions = ["data that arrives together with an application-initiated close may or may not be read (EITHER)"]

    def partitions(self, tier):
        return list(range(32))

    def run_partition(self, part, tier, st):
        if part == 0:
            for side in ("client", "server"):
                for cause in ("close", "close_exc"):
                    for also_write in (False, True):
                        try:
                            o = run_ssl(side, cause, also_write)
                        except Exception as e:
                            st.violation("harness-crash:ssl:" + type(e).__name__, "ssl case %r crashed: %r" % ((side, cause, also_write), e),
                                         {"ssl": [side, cause, also_write]})
                            continue
                        st.ev()
                        st.state(("ssl", side, cause, also_write))
                        st.nontriv(("ssl", side, cause, also_write))
                        for sig, msg in judge_ssl(o):
                            st.violation(sig, "SSLIOStream (%s side) with the handshake pending, %s, queued write=%r: %s"
                                         % (side, cause, also_write, msg), {"ssl": [side, cause, also_write]})
        for i, case in enumerate(all_cases(tier)):
            if i % 32 != part:
                continue
            try:
                obs = run(case)
            except AssertionError:
                raise
            except Exception as e:
                st.violation("harness-crash:" + type(e).__name__, "case %r crashed: %r" % (case, e), {"case": case})
                continue
            st.ev()
            st.transitions += 3 + case[3]
            st.state(case)
            if case[2] or case[3] or case[0]:
                st.nontriv(case)
            st.outcome(h(repr((sorted((k, v[0]) for k, v in obs["futs"].items()), obs["later"][0], obs["cb"]))))
            if obs.get("needed_explicit_close"):
                st.note("cause_not_observable_until_app_close")
            if i % 1500 == 0:
                st.sample({"case": describe(case), "futures": repr(obs["futs"]), "later": repr(obs["later"])})
            for sig, msg in judge(case, obs):
                st.violation(sig, "%s: %s" % (describe(case), msg), {"case": case})

    def replay(self, case):
        if "ssl" in case:
            o = run_ssl(*case["ssl"])
            return "%r\nverdict %r" % (o, judge_ssl(o))
        c = tuple(case["case"])
        obs = run(c)
        return "%s\nobserved %r\nverdict %r" % (describe(c), {k: v for k, v in obs.items()}, judge(c, obs))


def describe(case):
    connecting, pre, ri, nw, di, mode, cause, li = case[:8]
    return ("connecting=%d prebuffered=%d pending_read=%r blocked_writes=%d data=%r(%s) cause=%s later=%r"
            % (connecting, pre, READS[ri], nw, DATA[di], mode, cause, LATER[li]))


CHECK = C13()
