"""C26 Static file serving never leaves its root directory.

Shape I: every URL path built from <= k segments of a traversal alphabet
('..', '.', '', names inside / beside / above the root, the absolute path of an
outside file, percent-encoded dots / slashes / NUL / backslash, double-encoded
dots) with '/' and '//' joiners, with and without a trailing slash, is sent as
a raw GET + HEAD pair (the request line is written by hand: nothing
normalises the path) to real StaticFileHandlers rooted in a fixture tree.

Oracles (none of them calls Tornado's path functions):
 A. content: a 2xx body / entity tag is always the content of a file inside
    the root, never of one outside (every fixture file has a unique content);
 B. twin tree: the same request against a twin fixture whose *outside* files
    do not exist must give the identical status / headers / body - a
    difference would reveal the existence of something outside the root;
 C. mapping: a lexical POSIX resolution of the percent-decoded path, written
    here, predicts 200-with-that-file / 301 / 403 / 404 for paths that stay
    inside the root; paths that leave it must give 403 or 404."""
import hashlib
import itertools
import os
import re

from mc.core import Check, h
from mc import webfix_c26 as wf

NPARTS = 64

INSIDE = {                      # relative to root
    "a": b"INSIDE file a",
    "index.html": b"INSIDE root index",
    "sub/index.html": b"INSIDE sub index",
    "sub/secret": b"INSIDE sub/secret (public)",
    "sub/a": b"INSIDE sub/a",
}
INSIDE_DIRS = ["empty"]
OUTSIDE = {                     # relative to the temp dir that holds root
    "root2/secret": b"OUTSIDE root2/secret",
    "root2/index.html": b"OUTSIDE root2 index",
    "root2/a": b"OUTSIDE root2/a",
    "rootx": b"OUTSIDE rootx file",
    "Root/secret": b"OUTSIDE Root/secret (the root's name in another letter case)",
    "ROOT/a": b"OUTSIDE ROOT/a",
    "secret": b"OUTSIDE parent secret",
    "a": b"OUTSIDE parent a",
    "index.html": b"OUTSIDE parent index",
    "sub/index.html": b"OUTSIDE parent sub index",
}


def build_tree(with_outside):
    T = wf.mktree()
    root = T + "/root"
    for rel, content in INSIDE.items():
        wf.mkfile(root + "/" + rel, content)
    for d in INSIDE_DIRS:
        os.makedirs(root + "/" + d)
    if with_outside:
        for rel, content in OUTSIDE.items():
            wf.mkfile(T + "/" + rel, content)
    for dp, dns, fns in os.walk(T):
        os.utime(dp, (wf.MTIME, wf.MTIME))
    return T


def etag_of(content):
    return b'"' + hashlib.sha512(content).hexdigest().encode() + b'"'


SEGS = ["..", ".", "", "a", "sub", "secret", "index.html", "empty", "root", "root2", "rootx", "Root", "ROOT",
        "<ABS>", "<ENCABS>", "%2e%2e", "%2E.", "%2f", "..%2f", "%00", "a%00", "\\", "..\\",
        "%5c", "%252e%252e", "nosuch"]
CORE = ["..", "", "a", "sub", "root", "root2", "rootx", "Root", "<ABS>", "%2e%2e", "%2f", "..%2f", "%00",
        "\\", "nosuch"]
CORE4 = ["..", "", "a", "sub", "root2", "<ABS>", "%2e%2e", "%2f", "%00", "\\"]
JOIN = ["/", "//"]
ROUTES = [("/s/", False, False), ("/d/", True, False), ("/t/", True, True)]


def paths(k, alphabet):
    """All (segments, joiners, trailing) with 1..k segments."""
    for n in range(1, k + 1):
        for segs in itertools.product(alphabet, repeat=n):
            for js in itertools.product(JOIN, repeat=n - 1):
                for trail in ("", "/"):
                    yield segs, js, trail


def render(segs, js, trail, T):
    absfile = (T + "/secret").lstrip("/")
    out = []
    for i, s in enumerate(segs):
        if s == "<ABS>":
            s = absfile
        elif s == "<ENCABS>":
            s = "%2f" + absfile.replace("/", "%2f")
        out.append(s)
        if i < len(js):
            out.append(js[i])
    return "".join(out) + trail


HEX = re.compile(r"%([0-9A-Fa-f]{2})")


def pct_decode(s):
    return HEX.sub(lambda m: chr(int(m.group(1), 16)), s)


def resolve(rel, root, T, fs):
    """Lexical POSIX resolution of root + '/' + rel, done by hand.
    fs: dict abs path -> 'file' | 'dir' for the tree WITH outside files.
    -> (klass, abs path) klass in inside / outside / either:<why>."""
    if rel.startswith("/"):
        # join semantics (absolute argument replaces the root) or plain
        # concatenation are both defensible; only oracles A and B apply
        return "either:absolute-argument", None
    stack = [c for c in root.split("/") if c]
    depth0 = len(stack)
    left = False
    shaky = False
    for comp in rel.split("/"):
        if comp in ("", "."):
            continue
        if comp == "..":
            cur = "/" + "/".join(stack)
            if fs.get(cur) != "dir":
                shaky = True          # '..' after a missing / non-directory component
            if stack:
                stack.pop()
            if len(stack) < depth0:
                left = True
        else:
            stack.append(comp)
    target = "/" + "/".join(stack)
    inside = target == root or target.startswith(root + "/")
    if not inside:
        return "outside", target
    if "\x00" in target:
        return "nul", target          # no such file can exist
    if left:
        return "either:leaves-and-reenters", target
    if shaky:
        return "either:dotdot-through-missing", target
    return "inside", target


class C26(Check):
    id = "C26"
    level = "exploration"
    design_ref = "DESIGN.md §2 C26"
    rule = ("all URL paths of <= k segments from a 24-symbol traversal alphabet (quick: k=2 over all "
            "symbols + k=3 over a 14-symbol core; thorough: k=3 over all + k=4 over a 10-symbol core) x {'/','//'} joiners x "
            "trailing slash x {no default file, default_filename, root configured with trailing "
            "slash} x {GET, HEAD} x {outside files exist, do not exist}; non-trivial = distinct "
            "paths whose hand-resolved target lies outside the root and names an existing "
            "outside file or directory")
    claim = ("No enumerated request path makes a StaticFileHandler serve, redirect to, or answer "
             "differently for, anything outside its root; inside the root the answer is the file "
             "the path lexically names.")
    technique = ("bounded exhaustive enumeration of raw request paths on the real "
                 "HTTPServer/Application/StaticFileHandler over a temp fixture tree, against a "
                 "content oracle, a twin-tree differential (existence oracle) and a hand-written "
                 "lexical path resolver")
    assumptions = [
        "POSIX file system, no symlinks in the fixture, single percent-decoding by the router",
        "absolute path arguments, paths that leave the root and come back, '..' through a "
        "missing component, a trailing slash after a file name and a directory without trailing "
        "slash are EITHER classes for the mapping oracle (oracles A and B still apply)",
    ]

    def depth(self, tier):
        return 3 if tier == "quick" else 4

    def cases(self, tier):
        if tier == "quick":
            # full alphabet to 2 segments, traversal core to 3
            yield from paths(2, SEGS)
            for segs in itertools.product(CORE, repeat=3):
                for js in itertools.product(JOIN, repeat=2):
                    for trail in ("", "/"):
                        yield segs, js, trail
            return
        # thorough: full alphabet to 3, traversal core to 4
        yield from paths(3, SEGS)
        for segs in itertools.product(CORE4, repeat=4):
            for js in itertools.product(JOIN, repeat=3):
                for trail in ("", "/"):
                    yield segs, js, trail

    def partitions(self, tier):
        return list(range(NPARTS))

    def _apps(self, T):
        from tornado.web import Application, StaticFileHandler
        root = T + "/root"
        return Application([
            ("/s/(.*)", StaticFileHandler, {"path": root}),
            ("/d/(.*)", StaticFileHandler, {"path": root, "default_filename": "index.html"}),
            ("/t/(.*)", StaticFileHandler, {"path": root + "/", "default_filename": "index.html"}),
            # a second handler with its own root beside the first one (what it serves is cached per class)
            ("/o/(.*)", StaticFileHandler, {"path": T + "/root2"}),
        ])

    def _fs(self, T):
        fs = {}
        for dp, dns, fns in os.walk(T):
            fs[dp] = "dir"
            for f in fns:
                fs[dp + "/" + f] = "file"
        p = T
        while p and p != "/":
            p = os.path.dirname(p)
            fs[p] = "dir"
        return fs

    def run_partition(self, part, tier, st):
        T1 = build_tree(True)
        T2 = build_tree(False)
        try:
            app1, app2 = self._apps(T1), self._apps(T2)
            fs = self._fs(T1)
            with wf.Client() as cl:
                # the neighbouring handler has already served its files (state shared between handlers must not
                # open its root to the others)
                for name in ("secret", "a", "index.html"):
                    rs, ps, _, _ = cl.request(app1, [("GET", ("/o/" + name).encode(), [])])
                    if len(rs) != 1 or rs[0].code != 200:
                        st.error("warm-up request /o/%s failed: %r %r" % (name, [r.code for r in rs], ps))
                for i, (segs, js, trail) in enumerate(self.cases(tier)):
                    if i % NPARTS != part:
                        continue
                    for prefix, has_default, _ in ROUTES:
                        if prefix == "/t/" and tier == "quick" and len(segs) > 2:
                            continue
                        self._one(cl, app1, app2, T1, T2, fs, prefix, has_default,
                                  segs, js, trail, st)
        finally:
            wf.rmtree(T1)
            wf.rmtree(T2)
        st.setmax("max_segments", self.depth(tier))

    def _one(self, cl, app1, app2, T1, T2, fs, prefix, has_default, segs, js, trail, st,
             explain=None):
        cjson = {"prefix": prefix, "segs": list(segs), "joiners": list(js), "trail": trail}
        rel1 = render(segs, js, trail, T1)
        rel2 = render(segs, js, trail, T2)
        t1 = (prefix + rel1).encode("latin-1")
        t2 = (prefix + rel2).encode("latin-1")
        r1, p1, logs1, _ = cl.request(app1, [("GET", t1, []), ("HEAD", t1, [])])
        r2, p2, logs2, _ = cl.request(app2, [("GET", t2, []), ("HEAD", t2, [])])
        st.ev(4)
        root = T1 + "/root"
        klass, target = resolve(pct_decode(rel1), root, T1, fs)
        if explain is not None:
            explain.append("GET %r (tree with outside files)" % t1)
            explain.append("hand-resolved: %s -> %r (%s)" % (klass, target, fs.get(target)))
            explain.append("real, outside files present: %r" % (
                [(r.code, r.get("Location"), r.body[:40]) for r in r1],))
            explain.append("real, outside files absent : %r" % (
                [(r.code, r.get("Location"), r.body[:40]) for r in r2],))
        for logs in (logs1, logs2):
            bad = wf.uncaught(logs)
            if bad:
                st.violation("uncaught-exception:%s" % (bad[0][3] or "log"),
                             "error log %r for %r" % (bad[0][:3], t1), cjson)
                return
        if p1 or p2 or len(r1) != 2 or len(r2) != 2:
            st.violation("framing:" + ((p1 or p2 or ["count"])[0].split(" ")[0]),
                         "response not well framed for %r: %r %r" % (t1, p1, p2), cjson)
            return
        g, hd = r1
        st.outcome((prefix, g.code, g.body[:30] if g.code == 200 else None))
        if klass == "outside" and fs.get(target):
            st.nontriv(rel1)
            if len(st.samples) < 4 and len(segs) >= 2:
                st.sample({"request": t1.decode("latin-1"), "resolves_to": target, "status": g.code})
        if klass.startswith("either"):
            st.note(klass)
        # ---- A: content
        inside_bodies = set(INSIDE.values())
        inside_tags = {etag_of(c) for c in INSIDE.values()}
        for r, meth in ((g, "GET"), (hd, "HEAD")):
            if 200 <= r.code < 300:
                if meth == "GET" and r.body not in inside_bodies:
                    which = [k for k, v in OUTSIDE.items() if v == r.body]
                    st.violation("served-outside-root:%s" % ("known-outside-file" if which else "unknown-content"),
                                 "%s %r -> %d with body %r (outside file %r)" % (
                                     meth, t1, r.code, r.body[:40], which), cjson)
                    return
                if r.get("Etag") not in inside_tags:
                    st.violation("served-outside-root:etag", "%s %r -> %d with entity tag of no "
                                 "inside file" % (meth, t1, r.code), cjson)
                    return
            elif r.code == 301:
                pass
            elif r.code not in (403, 404):
                st.violation("status:%d" % r.code, "%s %r -> %d (only 2xx/301/403/404 expected)" % (
                    meth, t1, r.code), cjson)
                return
            for o in OUTSIDE.values():
                if o in r.body:
                    st.violation("served-outside-root:leak-in-%d" % r.code,
                                 "%s %r -> %d body contains an outside file" % (meth, t1, r.code), cjson)
                    return
        # ---- B: twin tree (existence oracle)
        for (a, b, meth) in ((r1[0], r2[0], "GET"), (r1[1], r2[1], "HEAD")):
            ha = [(n, v.replace(os.path.basename(T1).encode(), b"<T>")) for n, v in a.headers]
            hb = [(n, v.replace(os.path.basename(T2).encode(), b"<T>")) for n, v in b.headers]
            if a.code != b.code or ha != hb or a.body != b.body:
                st.violation("existence-oracle:%d-vs-%d" % (a.code, b.code),
                             "%s %r answers %d when the outside files exist and %d when they do "
                             "not (resolved %s %r)" % (meth, t1, a.code, b.code, klass, target), cjson)
                return
        if hd.code != g.code or hd.body or hd.headers != g.headers:
            st.violation("head:differs-from-get", "HEAD %d vs GET %d for %r: %r" % (
                hd.code, g.code, t1, [x for x in hd.headers if x not in g.headers]), cjson)
            return
        # ---- C: mapping
        if klass == "either:absolute-argument":
            return
        if klass == "nul":
            want = {403, 404}
        elif klass == "outside":
            want = {403, 404}
        else:
            kind = fs.get(target)
            decoded = pct_decode(rel1)
            soft = klass.startswith("either")
            if kind == "file":
                if decoded.endswith("/") or decoded.endswith("/."):
                    soft = True
                    st.note("either:trailing-slash-on-file")
                want = {(200, INSIDE[target[len(root) + 1:]])}
            elif kind == "dir":
                if not has_default:
                    want = {403, 404}
                else:
                    idx = target + "/index.html"
                    served = {(200, INSIDE[idx[len(root) + 1:]])} if fs.get(idx) == "file" else {404}
                    if (prefix + rel1).endswith("/"):
                        want = served
                    else:
                        # Tornado redirects to path + '/'; serving directly is fine too
                        want = served | {301}
            else:
                want = {404}
            if soft:
                want = set(want) | {403, 404}
        if klass in ("outside", "nul"):
            # conditional requests for a path outside the root: a validator must not be compared (or even computed)
            # before the root check - neither "*" nor the entity tags of the outside files may change the answer
            alltags = b", ".join(etag_of(c) for c in OUTSIDE.values())
            for inm in (b"*", alltags):
                rc, pc, _, _ = cl.request(app1, [("GET", t1, [("If-None-Match", inm)]), ("HEAD", t1, [("If-None-Match", inm)])])
                st.ev(2)
                for r in rc:
                    if r.code != g.code or r.get("Etag") is not None:
                        st.violation("conditional-request-outside-root:%d" % r.code,
                                     "GET/HEAD %r with If-None-Match: %s -> %d (Etag %r), without it %d"
                                     % (t1, inm[:12], r.code, r.get("Etag"), g.code), dict(cjson, inm=inm.decode()))
                        return
        got = (g.code, g.body) if g.code == 200 else g.code
        if got not in want:
            st.violation("mapping:%s-answered-%s" % (klass.replace("either:", ""), g.code),
                         "GET %r resolves (%s) to %r [%s]; answered %d %r, expected one of %r" % (
                             t1, klass, target, fs.get(target), g.code, g.body[:30],
                             sorted(map(repr, want))), cjson)
            return
        if g.code == 301:
            loc = g.get("Location")
            if loc != t1 + b"/":
                st.violation("redirect:location", "GET %r -> 301 Location %r" % (t1, loc), cjson)

    def replay(self, case):
        from mc.core import Stats
        T1 = build_tree(True)
        T2 = build_tree(False)
        out = []
        try:
            app1, app2 = self._apps(T1), self._apps(T2)
            fs = self._fs(T1)
            st = Stats()
            has_default = dict((p, d) for p, d, _ in ROUTES)[case["prefix"]]
            with wf.Client() as cl:
                self._one(cl, app1, app2, T1, T2, fs, case["prefix"], has_default,
                          tuple(case["segs"]), tuple(case["joiners"]), case["trail"], st, explain=out)
            for sig, (msg, _, _) in st.violations.items():
                out.append("VIOLATION %s: %s" % (sig, msg))
            if not st.violations:
                out.append("no violation")
        finally:
            wf.rmtree(T1)
            wf.rmtree(T2)
        return "\n".join(out).replace(T1, "<T1>").replace(T2, "<T2>")


CHECK = C26()
