"""C02 HTTP responses are well-framed and carry exactly what the handler wrote.
Shapes I (handler programs) x I (request kinds): all programs of output
operations up to a length bound x {GET, HEAD, POST} x {HTTP/1.1, HTTP/1.0,
HTTP/1.0 keep-alive} x {If-None-Match: *, none}, each followed by a pipelined
probe request, executed on the real Application/HTTPServer stack; the raw bytes
are parsed by the strict client-side reader mc.httph.read_responses."""
import itertools

from mc.core import Check, h
from mc.httph import ServerConn, read_responses
from mc.vloop import World

OPS = [("status", 200), ("status", 204), ("status", 304), ("status", 404), ("status", 205), ("hdr2",),
       ("cl", 0), ("cl", -1), ("cl", +1),
       ("hdr",), ("write", b""), ("write", b"a"), ("write", b"hello"),
       ("flush",), ("finish",), ("finish", b"xy"), ("raise",), ("write", b"<p>compressible</p>" * 80),
       ("finish", {}), ("etag",)]
GZ_OPS = [17, 11, 13, 14, 15, 3, 9]      # big write, write a, flush, finish, finish xy, 404, X-A
METHODS = ["GET", "HEAD", "POST"]
VERSIONS = [("1.1", False), ("1.0", False), ("1.0", True)]

_STATE = {"prog": (), "raised": None, "too_late": False}


class Boom(Exception):
    pass


def as_bytes(chunk):
    return b"{}" if chunk == {} else chunk


def total_written(prog):
    n = 0
    for i in prog:
        op = OPS[i]
        if op[0] == "write":
            n += len(op[1])
        elif op[0] == "finish":
            if len(op) > 1:
                n += len(as_bytes(op[1]))
            break
    return n


def make_app(compress=False):
    from tornado import web

    class Prog(web.RequestHandler):
        def run_prog(self):
            prog = _STATE["prog"]
            tot = total_written(prog)
            for k, i in enumerate(prog):
                op = OPS[i]
                try:
                    if op[0] == "status":
                        self.set_status(op[1])
                    elif op[0] == "cl":
                        self.set_header("Content-Length", str(max(0, tot + op[1])))
                    elif op[0] == "hdr":
                        self.set_header("X-A", "1")
                    elif op[0] == "etag":
                        self.set_header("Etag", '"mine"')       # the handler's own validator: never replaced
                    elif op[0] == "hdr2":
                        self.set_header("X-B", "\u20ac")      # cannot be sent (not latin-1): set_header must refuse it
                    elif op[0] == "write":
                        self.write(op[1])
                    elif op[0] == "flush":
                        self.flush()
                    elif op[0] == "finish":
                        if len(op) > 1:
                            self.finish(op[1])
                        else:
                            self.finish()
                    elif op[0] == "raise":
                        raise Boom("handler failed")
                except BaseException as e:
                    _STATE["raised"] = (k, type(e).__name__)
                    raise

        get = head = post = run_prog

    class Ping(web.RequestHandler):
        def get(self):
            self.write("pong")

    return web.Application([("/p", Prog), ("/ping", Ping)], compress_response=compress)


def request_bytes(method, version, keepalive, inm, gz=False):
    s = "%s /p HTTP/%s\r\nHost: h\r\n" % (method, version)
    if gz:
        s += "Accept-Encoding: gzip\r\n"
    if keepalive:
        s += "Connection: keep-alive\r\n"
    if inm:
        s += "If-None-Match: *\r\n"
    if method == "POST":
        s += "Content-Length: 0\r\n"
    return (s + "\r\n").encode()


PING = b"GET /ping HTTP/1.1\r\nHost: h\r\n\r\n"


SLOW_QUOTA = 7


def execute(app, prog, method, version, keepalive, inm, slow=False, gz=False):
    _STATE["prog"] = prog
    _STATE["raised"] = None
    with World() as w:
        c = ServerConn(w, app)
        if slow:
            # the peer's window takes SLOW_QUOTA bytes per loop round: every write of the response stays queued in the
            # IOStream for a while, so "finished" and "flushed to the socket" are far apart
            q = [SLOW_QUOTA]

            def hook(sock, n):
                if q[0] == 0:
                    return "EAGAIN"
                k = min(q[0], n)
                q[0] -= k
                return k
            c.sock.send_hook = hook
        c.send(request_bytes(method, version, keepalive, inm, gz) + PING)
        w.pump()
        rounds = 0
        while slow and not c.sock.closed and (c.sock.blocked or q[0] == 0) and rounds < 400:
            rounds += 1
            q[0] = SLOW_QUOTA
            c.sock.unblock()
            w.pump()
        out, closed = c.output, c.closed
        raised = _STATE["raised"]
        errlogs = [(r[1], r[2][:60], r[3]) for r in w.logs.records if r[0] != "tornado.access" and r[1] in ("ERROR", "CRITICAL")]
        c.eof()
        w.pump()
    return out, closed, raised, errlogs


def reference(prog, method, version, inm):
    """Expected (status, has_xa, body, framing_hint) for a program in which no
    operation is rejected; returns None where the statement does not determine
    the wire form (operations on status/headers after the headers were sent,
    body for a bodiless status, finish twice, Content-Length that contradicts
    the body...)."""
    status = 200
    xa = False
    body = b""
    flushed = False
    finished = False
    cl = None
    for i in prog:
        op = OPS[i]
        if finished:
            return None                 # anything after finish is rejected or ignored
        if op[0] == "status":
            if flushed:
                return None
            status = op[1]
        elif op[0] == "cl":
            if flushed:
                return None
            cl = max(0, total_written(prog) + op[1])
        elif op[0] == "hdr":
            if flushed:
                return None
            xa = True
        elif op[0] == "write":
            body += op[1]
        elif op[0] == "flush":
            flushed = True
        elif op[0] == "finish":
            if len(op) > 1:
                body += as_bytes(op[1])
            finished = True
        elif op[0] == "etag":
            if flushed:
                return None
        elif op[0] in ("raise", "hdr2"):
            return None
    if status in (204, 304) and body:
        return None
    if cl is not None and cl != len(body):
        return None
    if cl is not None and status in (204, 304):
        return None
    if not flushed and status == 200 and method in ("GET", "HEAD") and inm and not any(OPS[i][0] == "etag" for i in prog):
        # (a handler that supplies its own Etag also does its own conditional handling)
        status, body = 304, b""
    return status, xa, body


def judge(prog, method, version, keepalive, inm, obs, twin_body_len, twin_ce=NotImplemented):
    out, closed, raised, errlogs = obs
    bad = []
    rs, probs = read_responses(out, [method, "GET"], closed)
    tag = "%s:HTTP/%s%s" % (method, version, "+ka" if keepalive else "")
    ref = reference(prog, method, version, inm) if raised is None else None
    rejected = ref is None      # an operation raised, or the program contradicts itself
    h2 = next((k for k, i in enumerate(prog) if OPS[i][0] == "hdr2"), None)
    if h2 is not None and (raised is None or raised[0] > h2):
        bad.append(("unsendable-header-value-accepted-by-set_header",
                    "%s: set_header('X-B', EURO SIGN) (operation %d) was accepted; raised=%r wire=%r" % (tag, h2, raised, out[:80])))
    rtag = "rejected" if rejected else "clean"
    if not rs:
        if not (rejected and closed and not out):
            bad.append(("no-response:" + rtag,
                        "%s: no parsable response: %r problems %r closed=%r" % (tag, out[:80], probs, closed)))
        return bad, None
    first = rs[0]
    # ---- framing
    hard = [p for p in probs if not p.startswith("missing response for")]
    if len(rs) == 1 and not closed and not hard:
        hard.append("connection left open but the pipelined probe request was not answered")
    if len(rs) == 2 and (rs[1].code != 200 or rs[1].body != b"pong"):
        hard.append("probe response corrupted: %r %r" % (rs[1].code, rs[1].body[:20]))
    if hard:
        truncated_ok = rejected and closed and all(
            p.startswith(("body shorter", "incomplete header", "truncated")) for p in hard)
        if not truncated_ok:
            kind = hard[0].split(":")[0].split(" at ")[0].split(" (")[0][:44]
            bad.append(("framing:%s:%s" % (rtag, kind),
                        "%s: %r (closed=%r, raised=%r) wire=%r" % (tag, hard, closed, raised, out[:160])))
    # ---- bodiless responses
    if (method == "HEAD" or first.code in (204, 304)) and first.body:
        bad.append(("body-on-bodiless", "%s status %d carries body %r" % (tag, first.code, first.body[:20])))
    # ---- Content-Length equals the GET body (differential twin)
    cl = first.get("content-length")
    if (method == "HEAD" and cl is not None and twin_body_len is not None and first.code != 304
            and not rejected):
        if int(cl) != twin_body_len:
            bad.append(("head-content-length", "HEAD Content-Length %s but the GET twin's body has %d bytes"
                        % (cl.decode(), twin_body_len)))
    ce = first.get("content-encoding")
    if method == "HEAD" and twin_ce is not NotImplemented and not rejected and first.code != 304 and ce != twin_ce:
        bad.append(("head-content-encoding", "HEAD Content-Encoding %r but the GET twin's is %r" % (ce, twin_ce)))
    if ce is not None and method != "HEAD" and not hard:
        import gzip
        try:
            first.body = gzip.decompress(first.body) if ce == b"gzip" else None
        except Exception as e:
            first.body = None
        if first.body is None:
            bad.append(("content-encoding-undecodable", "%s: Content-Encoding %r but the body does not decode" % (tag, ce)))
            return bad, first
    # ---- content equals what the handler wrote
    if ref is not None and not hard:
        status, xa, body = ref
        if first.code != status:
            bad.append(("status", "%s: status %d, handler set %d" % (tag, first.code, status)))
        if (first.get("x-a") is not None) != xa:
            bad.append(("header", "%s: X-A present=%r, expected %r" % (tag, first.get("x-a") is not None, xa)))
        if method != "HEAD" and first.body != body:
            bad.append(("body", "%s: body %r, handler wrote %r" % (tag, first.body[:40], body[:40])))
        if any(OPS[i][0] == "etag" for i in prog) and first.code in (200, 304) and first.get("etag") != b'"mine"':
            bad.append(("handler-etag-replaced", "%s: the handler set Etag \"mine\", the response carries %r" % (tag, first.get("etag"))))
    # ---- Connection: Keep-Alive acknowledgement on a connection that closes
    conn = (first.get("connection") or b"").lower()
    if conn == b"keep-alive" and closed and len(rs) == 1 and not rejected:
        bad.append(("keep-alive-ack-then-close", "%s: answered Connection: Keep-Alive and closed" % tag))
    return bad, first


class C02(Check):
    id = "C02"
    level = "model_checking"
    rule = ("all handler programs of <= L operations over {set_status(200|204|304|404|205), set_header with a value that cannot be sent, set_header("
            "Content-Length, right|short|long), set_header(X-A), write(b''|b'a'|b'hello'|1.5 kB), flush, finish, "
            "finish(chunk), finish({}), set_header(Etag), raise} x {GET, HEAD, POST} x {HTTP/1.1, HTTP/1.0, HTTP/1.0 + keep-alive} x "
            "{If-None-Match: *, none}, each followed by a pipelined GET probe on the same connection; "
            "state = one (program, request kind) execution; non-trivial = programs containing flush, a "
            "bodiless status, an explicit Content-Length or a raise")
    claim = ("The bytes written by the real server are parsed by a strict HTTP/1.1 client reader: exactly one "
             "well-delimited response per request (or a detectably truncated one on a closed connection when an "
             "operation was rejected), no body on HEAD/204/304, HEAD Content-Length equal to the GET twin's body "
             "length, close-delimited bodies only on closed connections, the probe answered intact whenever the "
             "connection stays open, and status/header/body equal to the program's reference when nothing was "
             "rejected.")
    technique = "exhaustive enumeration of handler programs x request kinds on the real code, strict client parser + reference model of the program"
    assumptions = ["operations on status/headers after the headers were sent, bodies on 204/304, contradictory "
                   "Content-Length and operations after finish are 'rejected/undetermined': only framing invariants apply"]

    def L(self, tier):
        return 3 if tier == "quick" else 4

    def partitions(self, tier):
        return [(self.L(tier), s, 64) for s in range(64)] + [("gzip", self.L(tier) + 1, s) for s in range(len(GZ_OPS))]

    def run_partition(self, part, tier, st):
        if part[0] == "gzip":
            return self.run_gzip(part[1], GZ_OPS[part[2]], st)
        L, s, nsl = part
        app = make_app()
        k = 0
        for n in range(1, L + 1):
            for prog in itertools.product(range(len(OPS)), repeat=n):
                k += 1
                if k % nsl != s:
                    continue
                # prune: nothing interesting happens after the first finish/raise except one more op
                fin = [j for j, i in enumerate(prog) if OPS[i][0] in ("finish", "raise")]
                if fin and fin[0] < len(prog) - 2:
                    continue
                self.run_prog(app, prog, st)
        st.setmax("max_program_length", L)

    def run_gzip(self, L, first_op, st):
        """compress_response=True and Accept-Encoding: gzip: the transform rewrites Content-Length / Content-Encoding on the
        first flush; HEAD must mirror GET, and the decoded body is what the handler wrote."""
        app = make_app(compress=True)
        for n in range(1, L + 1):
            for rest in itertools.product(GZ_OPS, repeat=n - 1):
                prog = (first_op,) + rest
                fin = [j for j, i in enumerate(prog) if OPS[i][0] == "finish"]
                if fin and fin[0] < len(prog) - 1:
                    continue
                for version, ka in VERSIONS:
                    twin = twin_ce = None
                    for method in ("GET", "HEAD"):
                        obs = execute(app, prog, method, version, ka, False, gz=True)
                        st.ev()
                        st.transitions += len(prog) + 2
                        key = h(("gz", prog, method, version, ka))
                        st.states.add(key)
                        st.nontrivial.add(key)
                        bad, first = judge(prog, method, version, ka, False, obs, twin,
                                           twin_ce if method == "HEAD" and twin is not None else NotImplemented)
                        if method == "GET" and first is not None:
                            wire = read_responses(obs[0], ["GET", "GET"], obs[1])[0]
                            twin, twin_ce = len(wire[0].body), first.get("content-encoding")
                        st.outcome(h(("gz", first.code if first else None, first.framing if first else None,
                                      first.get("content-encoding") if first else None, obs[1])))
                        for sig, msg in bad:
                            st.violation("gzip:" + sig, "compress_response, program %r: %s" % ([OPS[i][:1] for i in prog], msg),
                                         {"prog": list(prog), "method": method, "version": version, "ka": ka,
                                          "inm": False, "gz": True})

    _err_twin = {}

    def run_prog(self, app, prog, st):
        interesting = any(OPS[i][0] in ("flush", "cl", "raise") or OPS[i] in (("status", 204), ("status", 304))
                          for i in prog)
        streams = (17 not in prog and any(OPS[i][0] == "flush" for i in prog)
                   and any(OPS[i][0] == "write" or OPS[i] == ("finish", b"xy") for i in prog))
        for version, ka in VERSIONS:
            for inm in (False, True):
                twin = None
                for method in METHODS:
                    obs = execute(app, prog, method, version, ka, inm)
                    st.ev()
                    st.transitions += len(prog) + 2
                    key = h((prog, method, version, ka, inm))
                    st.states.add(key)
                    if interesting:
                        st.nontrivial.add(key)
                    bad, first = judge(prog, method, version, ka, inm, obs, twin)
                    if method == "GET" and first is not None:
                        twin = len(first.body)
                    st.outcome(h((first.code if first else None, first.framing if first else None, obs[1],
                                  obs[2] and obs[2][1])))
                    if len(st.samples) < 2 and interesting and len(prog) == 3:
                        st.sample({"program": [repr(OPS[i]) for i in prog], "request": "%s HTTP/%s ka=%r inm=%r"
                                   % (method, version, ka, inm), "wire": obs[0][:200].decode("latin1")})
                    for sig, msg in bad:
                        st.violation(sig, "program %r: %s" % ([OPS[i] for i in prog], msg),
                                     {"prog": list(prog), "method": method, "version": version, "ka": ka, "inm": inm})
                    ri = next((k for k, i in enumerate(prog) if OPS[i][0] == "raise"), None)
                    if (ri is not None and ri > 0 and obs[2] is not None and obs[2][0] == ri and not bad
                            and not any(OPS[i][0] in ("flush", "finish") for i in prog[:ri])):
                        # nothing had been flushed when the handler failed: the error response is the one a handler
                        # gives that fails at once - what was written before is discarded, not sent under the error status
                        twin_err = self._err_twin.get((method, version, ka, inm))
                        if twin_err is None:
                            twin_err = self._err_twin[(method, version, ka, inm)] = execute(
                                app, (OPS.index(("raise",)),), method, version, ka, inm)[0]
                        if obs[0] != twin_err and not any(OPS[i][0] in ("status", "hdr", "cl", "etag", "hdr2") for i in prog[:ri]):
                            st.violation("error-page-after-unflushed-writes",
                                         "program %r %s HTTP/%s: wire %r, a handler that raises at once gives %r"
                                         % ([OPS[i] for i in prog], method, version, obs[0][-70:], twin_err[-70:]),
                                         {"prog": list(prog), "method": method, "version": version, "ka": ka, "inm": inm})
                    if (streams and method != "HEAD" and not bad and obs[2] is None
                            and reference(prog, method, version, inm) is not None):
                        # same execution against a peer that drains 7 bytes per loop round
                        obs2 = execute(app, prog, method, version, ka, inm, slow=True)
                        st.ev()
                        st.states.add(h((key, "slow")))
                        st.nontrivial.add(h((key, "slow")))
                        if obs2[0] != obs[0]:
                            st.violation("slow-peer-changes-the-response",
                                         "program %r %s HTTP/%s: wire with a slow peer %r, with a fast peer %r"
                                         % ([OPS[i] for i in prog], method, version, obs2[0][-60:], obs[0][-60:]),
                                         {"prog": list(prog), "method": method, "version": version, "ka": ka,
                                          "inm": inm, "slow": True})

    def replay(self, case):
        gz = case.get("gz", False)
        app = make_app(compress=gz)
        prog = tuple(case["prog"])
        twin, twin_ce = None, NotImplemented
        if case["method"] == "HEAD":
            o = execute(app, prog, "GET", case["version"], case["ka"], case["inm"], gz=gz)
            wire = read_responses(o[0], ["GET", "GET"], o[1])[0]
            twin = len(wire[0].body) if wire else None
            if gz and wire:
                twin_ce = wire[0].get("content-encoding")
        obs = execute(app, prog, case["method"], case["version"], case["ka"], case["inm"], slow=case.get("slow", False), gz=gz)
        bad, first = judge(prog, case["method"], case["version"], case["ka"], case["inm"], obs, twin, twin_ce)
        return "program %r\nrequest %r\nwire %r\nclosed %r raised %r\nverdict %r" % (
            [OPS[i] for i in prog], (case["method"], case["version"], case["ka"], case["inm"]),
            obs[0], obs[1], obs[2], bad)


CHECK = C02()
